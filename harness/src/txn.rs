//! C18 — transactions on the listener side.
//!
//! `resource`: a real listener (ConnectionAcceptor / SessionAcceptor with a ControlLinkAcceptor /
//! LinkAcceptor, one receiving task per data link) against a scripted controller that declares,
//! posts (transactionally and not, on several links, single- and multi-frame), discharges
//! (commit, rollback, unknown and finished ids, through another control link), detaches control
//! links and ends the session.  What the receiving application is handed, and when, is compared
//! with the property and with the Lean model (`Amqp/Txn.lean`, driver prefix `T`).
//!
//! `controller`: the real `Controller` / `Transaction` / `OwnedTransaction` API against a
//! scripted resource: transaction id and fail flag on the wire, outcome reported to the caller.

use std::sync::{Arc, Mutex};
use std::time::Duration;

use fe2o3_amqp::acceptor::{ConnectionAcceptor, LinkAcceptor, LinkEndpoint, SessionAcceptor};
use fe2o3_amqp::transaction::coordinator::ControlLinkAcceptor;
use fe2o3_amqp::transaction::{Controller, OwnedTransaction, Transaction, TransactionDischarge, TransactionPosting};
use fe2o3_amqp::{Connection, Sender, Session};
use fe2o3_amqp_types::definitions::{Handle, ReceiverSettleMode, Role, SenderSettleMode};
use fe2o3_amqp_types::messaging::{message::__private::Serializable, Accepted, DeliveryState, Message, Outcome, Rejected, Source, Target, TargetArchetype};
use fe2o3_amqp_types::performatives::{Attach, Begin, Detach, Disposition, End, Flow, Performative, Transfer};
use fe2o3_amqp_types::transaction::{Coordinator, Declare, Declared, Discharge, TransactionId, TransactionalState};
use serde_amqp::primitives::Binary;
use serde_amqp::Value;
use serde_json::{json, Value as J};

use crate::common::*;
use crate::peer::*;

// ------------------------------------------------------------------------------- the case

#[derive(Clone, Debug, PartialEq)]
pub enum TxnRef {
    None,
    /// the k-th transaction declared in this case
    Slot(usize),
    /// an id nobody declared
    Unknown,
}

#[derive(Clone, Debug)]
pub enum Op {
    Declare { ctrl: usize },
    /// `abort_first`: before the post the controller starts a delivery on the same link under the same state (one
    /// frame with `more`) and aborts it: nothing of it may ever be seen, at the link or by the next delivery
    Post { link: usize, txn: TxnRef, frames: usize, settled: bool, state_on_all: bool, abort_first: bool },
    Discharge { ctrl: usize, txn: TxnRef, fail: Option<bool> },
    CtrlGone { ctrl: usize, closed: bool },
    SessionEnd,
    /// a delivery begun on a data link under a live transaction (one frame with `more`) and aborted, the abort
    /// frame carrying `more` or not (the flag means nothing on it): nothing of it may ever be seen, and the
    /// deliveries that follow on that link are not its continuation
    Aborted { link: usize, txn: TxnRef, more: bool },
    /// a retirement under a transaction (a disposition whose state is a transactional state) for a delivery the
    /// resource never sent: kept with the transaction's work if the id is live and of no effect at the discharge,
    /// refused like a post if the id is unknown or finished
    Retire { txn: TxnRef, first: u32 },
}

#[derive(Clone, Debug)]
pub struct Case {
    pub ctrl_links: usize,
    pub data_links: usize,
    pub ops: Vec<Op>,
    /// indices i such that the posts i and i+1 (on different links) are written with their frames alternating
    pub interleave: Vec<usize>,
    /// the continuation transfers of every delivery repeat its delivery-tag (they may)
    pub repeat_tag: bool,
    /// the incoming-window of the listener's session (small: it states its session counters in a flow every
    /// window/2 transfers it takes in)
    pub listener_window: u32,
    /// the credit the listener's receiving links grant (set by the application right after the attach; `None`:
    /// the library's default)
    pub listener_credit: Option<u32>,
}

fn ref_json(r: &TxnRef) -> J {
    match r {
        TxnRef::None => json!("-"),
        TxnRef::Slot(k) => json!(k),
        TxnRef::Unknown => json!("unknown"),
    }
}

fn ref_from(j: &J) -> TxnRef {
    match j {
        J::Number(n) => TxnRef::Slot(n.as_u64().unwrap_or(0) as usize),
        J::String(s) if s == "unknown" => TxnRef::Unknown,
        _ => TxnRef::None,
    }
}

impl Case {
    pub fn to_json(&self) -> J {
        json!({"ctrl_links": self.ctrl_links, "data_links": self.data_links, "interleave": self.interleave, "repeat_tag": self.repeat_tag, "listener_window": self.listener_window, "listener_credit": self.listener_credit, "ops": self.ops.iter().map(|o| match o {
            Op::Declare { ctrl } => json!({"declare": ctrl}),
            Op::Post { link, txn, frames, settled, state_on_all, abort_first } => json!({"post": link, "txn": ref_json(txn), "frames": frames, "settled": settled, "state_on_all": state_on_all, "abort_first": abort_first}),
            Op::Discharge { ctrl, txn, fail } => json!({"discharge": ctrl, "txn": ref_json(txn), "fail": fail}),
            Op::CtrlGone { ctrl, closed } => json!({"ctrl_gone": ctrl, "closed": closed}),
            Op::SessionEnd => json!({"session_end": true}),
            Op::Aborted { link, txn, more } => json!({"aborted": link, "txn": ref_json(txn), "more": more}),
            Op::Retire { txn, first } => json!({"retire": first, "txn": ref_json(txn)}),
        }).collect::<Vec<_>>()})
    }
    pub fn from_json(j: &J) -> Option<Case> {
        let ops = j.get("ops")?.as_array()?.iter().filter_map(|o| {
            if let Some(c) = o.get("declare") {
                Some(Op::Declare { ctrl: c.as_u64()? as usize })
            } else if let Some(l) = o.get("post") {
                Some(Op::Post { link: l.as_u64()? as usize, txn: ref_from(o.get("txn")?), frames: o.get("frames")?.as_u64()? as usize, settled: o.get("settled")?.as_bool()?, state_on_all: o.get("state_on_all").and_then(|x| x.as_bool()).unwrap_or(true), abort_first: o.get("abort_first").and_then(|x| x.as_bool()).unwrap_or(false) })
            } else if let Some(c) = o.get("discharge") {
                Some(Op::Discharge { ctrl: c.as_u64()? as usize, txn: ref_from(o.get("txn")?), fail: o.get("fail").and_then(|x| x.as_bool()) })
            } else if let Some(c) = o.get("ctrl_gone") {
                Some(Op::CtrlGone { ctrl: c.as_u64()? as usize, closed: o.get("closed").and_then(|x| x.as_bool()).unwrap_or(true) })
            } else if let Some(f) = o.get("retire") {
                Some(Op::Retire { txn: ref_from(o.get("txn")?), first: f.as_u64()? as u32 })
            } else if let Some(l) = o.get("aborted") {
                Some(Op::Aborted { link: l.as_u64()? as usize, txn: ref_from(o.get("txn")?), more: o.get("more").and_then(|x| x.as_bool()).unwrap_or(false) })
            } else if o.get("session_end").is_some() {
                Some(Op::SessionEnd)
            } else {
                None
            }
        }).collect();
        let interleave = j.get("interleave").and_then(|x| x.as_array()).map(|a| a.iter().filter_map(|x| x.as_u64()).map(|x| x as usize).collect()).unwrap_or_default();
        Some(Case { ctrl_links: j.get("ctrl_links")?.as_u64()? as usize, data_links: j.get("data_links")?.as_u64()? as usize, ops, interleave, repeat_tag: j.get("repeat_tag").and_then(|x| x.as_bool()).unwrap_or(false), listener_window: j.get("listener_window").and_then(|x| x.as_u64()).unwrap_or(2048) as u32, listener_credit: j.get("listener_credit").and_then(|x| x.as_u64()).map(|x| x as u32) })
    }
}

pub fn gen_case(rng: &mut Rng, first_frame_state_only: bool) -> Case {
    let ctrl_links = rng.range(1, 2) as usize;
    let data_links = rng.range(1, 3) as usize;
    let n = rng.range(2, 14) as usize;
    let mut ops = vec![];
    // which control link declared slot k; control links that are gone, and how
    let mut owner: Vec<usize> = vec![];
    let mut gone: Vec<Option<bool>> = vec![None; ctrl_links];
    // most cases begin with a transaction or two
    if !rng.chance(1, 6) {
        for _ in 0..rng.range(1, 2) {
            let ctrl = rng.below(ctrl_links as u64) as usize;
            owner.push(ctrl);
            ops.push(Op::Declare { ctrl });
        }
    }
    for _ in 0..n {
        // what becomes of the transactions of a control link that was detached but not closed is the
        // implementation's choice (they may be kept for a resuming link): they are not referred to again
        let usable: Vec<usize> = (0..owner.len()).filter(|k| gone[owner[*k]] != Some(false)).collect();
        let pick_txn = |rng: &mut Rng, usable: &Vec<usize>| -> TxnRef {
            if !usable.is_empty() && !rng.chance(1, 25) {
                TxnRef::Slot(*rng.pick(usable))
            } else {
                TxnRef::Unknown
            }
        };
        let op = match rng.below(20) {
            0..=3 => {
                let ctrl = rng.below(ctrl_links as u64) as usize;
                if gone[ctrl].is_none() {
                    owner.push(ctrl);
                }
                Op::Declare { ctrl }
            }
            4..=11 => {
                let txn = if rng.chance(1, 3) { TxnRef::None } else { pick_txn(rng, &usable) };
                let frames = *rng.pick(&[1usize, 1, 1, 2, 3]);
                Op::Post { link: rng.below(data_links as u64) as usize, txn, frames, settled: rng.chance(1, 3), state_on_all: !(first_frame_state_only && rng.chance(1, 2)), abort_first: rng.chance(1, 6) }
            }
            12..=16 => Op::Discharge { ctrl: rng.below(ctrl_links as u64) as usize, txn: pick_txn(rng, &usable), fail: *rng.pick(&[Some(false), Some(false), None, Some(true), Some(true)]) },
            17 | 18 if rng.chance(2, 3) => {
                let ctrl = rng.below(ctrl_links as u64) as usize;
                let closed = rng.chance(2, 3);
                if gone[ctrl].is_none() {
                    gone[ctrl] = Some(closed);
                }
                Op::CtrlGone { ctrl, closed }
            }
            _ if rng.chance(1, 3) => Op::SessionEnd,
            _ if rng.chance(1, 3) => Op::Retire { txn: pick_txn(rng, &usable), first: 9000 + rng.below(50) as u32 },
            _ if rng.chance(1, 2) => {
                // an attempt that is aborted, then (mostly) a plain delivery in several frames on that link
                let link = rng.below(data_links as u64) as usize;
                let txn = if rng.chance(1, 8) { TxnRef::None } else { pick_txn(rng, &usable) };
                ops.push(Op::Aborted { link, txn, more: rng.chance(1, 2) });
                Op::Post { link, txn: TxnRef::None, frames: *rng.pick(&[1usize, 2, 3]), settled: rng.chance(1, 4), state_on_all: true, abort_first: false }
            }
            _ => Op::Post { link: rng.below(data_links as u64) as usize, txn: TxnRef::None, frames: 1, settled: false, state_on_all: true, abort_first: false },
        };
        ops.push(op);
    }
    Case { ctrl_links, data_links, ops, interleave: vec![], repeat_tag: rng.chance(1, 3), listener_window: *rng.pick(&[2048u32, 2048, 4, 6, 16]), listener_credit: None }
}

// ------------------------------------------------------------------------------- the run

#[derive(Debug, Default, Clone)]
pub struct Observed {
    /// per op: what came back (D<slot> / A / RU / R:<condition> / B / V / SE / SE:<condition> / - / ?)
    pub outs: Vec<String>,
    /// after each op: what the application has been handed so far, as link.label in order of arrival
    pub delivered_after: Vec<Vec<(usize, u32)>>,
    /// final
    pub delivered: Vec<(usize, u32)>,
    pub ids: Vec<Vec<u8>>,
    pub notes: Vec<String>,
    /// ops actually issued (the script stops when the session is gone)
    pub issued: usize,
    /// every transfer the script wrote: (index into `outs` of its op, `handle:txn:tag:more:aborted`)
    pub frame_log: Vec<(usize, String)>,
    /// per flow the listener sent while the script waited for an answer: (transfers it had certainly taken in
    /// by then, the next-incoming-id the flow states; the script's first transfer has id 0)
    pub flows: Vec<(u32, u32)>,
    /// per data link, once everything has settled: the deliveries the script began on it, and the link state the
    /// listener's last flow for it stated (delivery-count, link-credit)
    pub link_credit_view: Vec<(u32, Option<(u32, u32)>)>,
}

fn label_body(label: u32, size: usize) -> Vec<u8> {
    let mut v = label.to_be_bytes().to_vec();
    v.extend((0..size).map(|i| (label as usize * 13 + i) as u8));
    v
}

struct Script {
    peer: Peer,
    next_out: u32,
    ctrl_handles: Vec<Option<u32>>,
    data_handles: Vec<u32>,
    /// delivery-count per our sending link (handle -> count)
    tag: u32,
    session_gone: Option<String>,
    /// the op being issued, and per transfer written: (op, what `TxnSession::on_incoming_transfer` looks at)
    cur_op: usize,
    /// transfers written before the op that was last answered began (the listener has taken all of those in),
    /// transfers written before the current op began, and per flow read from the listener: (that bound, the
    /// next-incoming-id it states)
    lower: u32,
    op_start: u32,
    flows: Vec<(u32, u32)>,
    /// the last link state a flow of the listener stated per handle: (delivery-count, link-credit)
    link_flows: std::collections::HashMap<u32, (u32, u32)>,
    /// deliveries begun per handle of ours (first transfers written)
    deliveries: std::collections::HashMap<u32, u32>,
    repeat_tag: bool,
    frame_log: Vec<(usize, String)>,
    txn_names: Vec<Vec<u8>>,
}

impl Script {
    /// `handle:txn:tag:more:aborted` of a transfer about to be written, for the routing model
    fn note(&mut self, t: &fe2o3_amqp_types::performatives::Transfer, op: usize) {
        if t.delivery_id.is_some() {
            *self.deliveries.entry(t.handle.0).or_insert(0) += 1;
        }
        let txn = match &t.state {
            Some(DeliveryState::TransactionalState(st)) => {
                let b: Vec<u8> = st.txn_id.to_vec();
                let k = match self.txn_names.iter().position(|x| *x == b) {
                    Some(k) => k,
                    None => {
                        self.txn_names.push(b);
                        self.txn_names.len() - 1
                    }
                };
                k.to_string()
            }
            _ => "-".to_string(),
        };
        self.frame_log.push((op, format!("{}:{}:{}:{}:{}", t.handle.0, txn, t.delivery_tag.as_ref().map(|b| b.iter().fold(0u64, |a, x| a * 256 + *x as u64).to_string()).unwrap_or_else(|| "-".into()), t.more as u8, t.aborted as u8)));
    }

    /// a delivery that is begun (one frame with `more`, carrying `state`) and aborted by its second frame
    async fn aborted_attempt(&mut self, handle: u32, state: Option<DeliveryState>) -> Result<(), PeerError> {
        self.aborted_attempt_with(handle, state, false).await.map(|_| ())
    }

    async fn aborted_attempt_with(&mut self, handle: u32, state: Option<DeliveryState>, more: bool) -> Result<u32, PeerError> {
        let id = self.next_out;
        self.tag += 1;
        let mut t = transfer(handle, Some(id), Some(self.tag.to_be_bytes().to_vec()), Some(false), true);
        t.state = state;
        self.note(&t, self.cur_op);
        self.peer.send(0, Performative::Transfer(t), &[0x00, 0x53, 0x77, 0xa0, 0x20, 1, 2, 3, 4, 5]).await?;
        self.next_out = self.next_out.wrapping_add(1);
        let mut a = transfer(handle, None, None, None, more);
        a.aborted = true;
        self.note(&a, self.cur_op);
        self.peer.send(0, Performative::Transfer(a), &[]).await?;
        self.next_out = self.next_out.wrapping_add(1);
        Ok(id)
    }

    async fn transfer_msg(&mut self, handle: u32, body: Vec<u8>, frames: usize, settled: bool, state: Option<DeliveryState>, state_on_all: bool) -> Result<u32, PeerError> {
        let n = frames.max(1).min(body.len().max(1));
        let chunk = body.len().div_ceil(n).max(1);
        let pieces: Vec<&[u8]> = if body.is_empty() { vec![&body[..]] } else { body.chunks(chunk).collect() };
        let id = self.next_out;
        self.tag += 1;
        for (i, p) in pieces.iter().enumerate() {
            let first = i == 0;
            let last = i + 1 == pieces.len();
            let mut t = transfer(handle, if first { Some(id) } else { None }, if first || self.repeat_tag { Some(self.tag.to_be_bytes().to_vec()) } else { None }, if first { Some(settled) } else { None }, !last);
            if first || state_on_all {
                t.state = state.clone();
            }
            self.note(&t, self.cur_op);
            self.peer.send(0, Performative::Transfer(t), p).await?;
            self.next_out = self.next_out.wrapping_add(1);
        }
        Ok(id)
    }

    /// two deliveries on two links, frames alternating (A1 B1 A2 B2 ...); ids of both
    async fn transfer_pair(&mut self, ha: u32, body_a: Vec<u8>, hb: u32, body_b: Vec<u8>, frames: usize, settled: (bool, bool), state: (Option<DeliveryState>, Option<DeliveryState>), state_on_all: (bool, bool)) -> Result<(u32, u32), PeerError> {
        let cut = |body: &Vec<u8>| -> Vec<Vec<u8>> {
            let n = frames.max(1).min(body.len().max(1));
            let chunk = body.len().div_ceil(n).max(1);
            if body.is_empty() { vec![vec![]] } else { body.chunks(chunk).map(|c| c.to_vec()).collect() }
        };
        let pa = cut(&body_a);
        let pb = cut(&body_b);
        let mut ids = (0u32, 0u32);
        self.tag += 1;
        let tag_a = self.tag;
        self.tag += 1;
        let tag_b = self.tag;
        for i in 0..pa.len().max(pb.len()) {
            for (which, pieces, h, tag) in [(0, &pa, ha, tag_a), (1, &pb, hb, tag_b)] {
                if let Some(p) = pieces.get(i) {
                    let first = i == 0;
                    let last = i + 1 == pieces.len();
                    let st = if which == 0 { settled.0 } else { settled.1 };
                    let mut t = transfer(h, if first { Some(self.next_out) } else { None }, if first || self.repeat_tag { Some(tag.to_be_bytes().to_vec()) } else { None }, if first { Some(st) } else { None }, !last);
                    if first {
                        if which == 0 { ids.0 = self.next_out } else { ids.1 = self.next_out }
                    }
                    let all = if which == 0 { state_on_all.0 } else { state_on_all.1 };
                    if first || all {
                        t.state = if which == 0 { state.0.clone() } else { state.1.clone() };
                    }
                    self.note(&t, self.cur_op + which);
                    self.peer.send(0, Performative::Transfer(t), p).await?;
                    self.next_out = self.next_out.wrapping_add(1);
                }
            }
        }
        Ok(ids)
    }

    /// reads until a disposition for `id` arrives (or the session ends / time runs out)
    async fn wait_disposition(&mut self, id: u32) -> Option<Disposition> {
        loop {
            match self.peer.recv_frame().await {
                Ok((_, Performative::Disposition(d), _)) => {
                    if d.first <= id && id <= d.last.unwrap_or(d.first) {
                        self.lower = self.op_start;
                        return Some(d);
                    }
                }
                Ok((_, Performative::Flow(f), _)) => {
                    if let Some(n) = f.next_incoming_id {
                        self.flows.push((self.lower, n));
                    }
                    if let (Some(h), Some(dc), Some(c)) = (f.handle.as_ref(), f.delivery_count, f.link_credit) {
                        self.link_flows.insert(h.0, (dc, c));
                    }
                }
                Ok((_, Performative::End(e), _)) => {
                    self.session_gone = Some(e.error.map(|e| format!("{:?}", e.condition)).unwrap_or_else(|| "no-error".into()));
                    let _ = self.peer.send(0, Performative::End(End { error: None }), &[]).await;
                    return None;
                }
                Ok((_, Performative::Detach(d), _)) => {
                    // the listener closed one of the links (e.g. the control link after an error)
                    let _ = self.peer.send(0, Performative::Detach(Detach { handle: d.handle.clone(), closed: d.closed, error: None }), &[]).await;
                    for h in self.ctrl_handles.iter_mut() {
                        if let Some(x) = h {
                            // the listener's handle and ours differ; its detach carries ITS output handle, which we set equal on attach
                            if *x == d.handle.0 {
                                *h = None;
                            }
                        }
                    }
                }
                Ok(_) => {}
                Err(_) => return None,
            }
        }
    }
}

fn msg_bytes(body: Vec<u8>) -> Vec<u8> {
    serde_amqp::to_vec(&Serializable(Message::builder().value(Binary::from(body)).build())).expect("message")
}

pub fn run_case(case: &Case) -> Result<Observed, String> {
    let rt = paused_runtime();
    let case = case.clone();
    rt.block_on(async move {
        let (cio, sio) = tokio::io::duplex(1 << 20);
        let delivered: Arc<Mutex<Vec<(usize, u32)>>> = Arc::new(Mutex::new(vec![]));
        let notes: Arc<Mutex<Vec<String>>> = Arc::new(Mutex::new(vec![]));
        let d2 = delivered.clone();
        let n2 = notes.clone();
        let listener_window = case.listener_window.max(2);
        let listener_credit = case.listener_credit;
        let listener = tokio::spawn(async move {
            let acc = ConnectionAcceptor::new("resource");
            let mut conn = match acc.accept(sio).await {
                Ok(c) => c,
                Err(e) => {
                    n2.lock().unwrap().push(format!("accept: {:?}", e));
                    return;
                }
            };
            let sacc = SessionAcceptor::builder().control_link_acceptor(ControlLinkAcceptor::default()).incoming_window(listener_window).build();
            let mut session = match sacc.accept(&mut conn).await {
                Ok(s) => s,
                Err(e) => {
                    n2.lock().unwrap().push(format!("session accept: {:?}", e));
                    return;
                }
            };
            let lacc = LinkAcceptor::new();
            let mut tasks = vec![];
            loop {
                match tokio::time::timeout(Duration::from_secs(30), lacc.accept(&mut session)).await {
                    Ok(Ok(LinkEndpoint::Receiver(mut r))) => {
                        let d3 = d2.clone();
                        let n3 = n2.clone();
                        tasks.push(tokio::spawn(async move {
                            let link: usize = r.name().trim_start_matches("data").parse().unwrap_or(99);
                            if let Some(c) = listener_credit {
                                let _ = r.set_credit(c).await;
                            }
                            loop {
                                match r.recv::<Value>().await {
                                    Ok(d) => {
                                        let label = match d.body() {
                                            Value::Binary(b) if b.len() >= 4 => u32::from_be_bytes([b[0], b[1], b[2], b[3]]),
                                            _ => u32::MAX,
                                        };
                                        d3.lock().unwrap().push((link, label));
                                        let _ = r.accept(&d).await;
                                    }
                                    Err(e) => {
                                        n3.lock().unwrap().push(format!("recv on data{}: {:?}", link, e));
                                        break;
                                    }
                                }
                            }
                        }));
                    }
                    Ok(Ok(LinkEndpoint::Sender(_))) => {}
                    Ok(Err(e)) => {
                        n2.lock().unwrap().push(format!("link accept: {:?}", e));
                        break;
                    }
                    Err(_) => break,
                }
            }
            for t in tasks {
                let _ = tokio::time::timeout(Duration::from_secs(5), t).await;
            }
            let _ = tokio::time::timeout(Duration::from_millis(200), session.on_end()).await;
            let _ = tokio::time::timeout(Duration::from_millis(200), conn.close()).await;
        });

        let mut obs = Observed::default();
        let mut peer = Peer::new(cio);
        peer.recv_timeout = Duration::from_millis(400);
        let e = |x: PeerError| format!("{:?}", x);
        // connection and session, as a client
        peer.send_header().await.map_err(e)?;
        let _ = peer.recv_header().await.map_err(e)?;
        peer.send(0, Performative::Open(PeerOpen::default().to_open()), &[]).await.map_err(e)?;
        match peer.recv_frame().await.map_err(e)? {
            (_, Performative::Open(_), _) => {}
            (_, other, _) => return Err(format!("expected open, got {}", summarize(&other, 0))),
        }
        peer.send(0, Performative::Begin(Begin { remote_channel: None, next_outgoing_id: 0, incoming_window: 2048, outgoing_window: 2048, handle_max: Handle(u32::MAX), offered_capabilities: None, desired_capabilities: None, properties: None }), &[]).await.map_err(e)?;
        match peer.recv_frame().await.map_err(e)? {
            (_, Performative::Begin(_), _) => {}
            (_, other, _) => return Err(format!("expected begin, got {}", summarize(&other, 0))),
        }
        let mut sc = Script { peer, next_out: 0, ctrl_handles: vec![], data_handles: vec![], tag: 0, session_gone: None, cur_op: 0, lower: 0, op_start: 0, flows: vec![], link_flows: Default::default(), deliveries: Default::default(), repeat_tag: case.repeat_tag, frame_log: vec![], txn_names: vec![] };
        // links: control links first
        let mut handle = 0u32;
        for c in 0..case.ctrl_links {
            let a = Attach { name: format!("ctrl{}", c), handle: Handle(handle), role: Role::Sender, snd_settle_mode: SenderSettleMode::Unsettled, rcv_settle_mode: ReceiverSettleMode::First, source: Some(Box::new(Source::default())), target: Some(Box::new(TargetArchetype::Coordinator(Coordinator::default()))), unsettled: None, incomplete_unsettled: false, initial_delivery_count: Some(0), max_message_size: None, offered_capabilities: None, desired_capabilities: None, properties: None };
            sc.peer.send(0, Performative::Attach(a), &[]).await.map_err(e)?;
            sc.ctrl_handles.push(Some(handle));
            handle += 1;
        }
        for l in 0..case.data_links {
            let a = Attach { name: format!("data{}", l), handle: Handle(handle), role: Role::Sender, snd_settle_mode: SenderSettleMode::Mixed, rcv_settle_mode: ReceiverSettleMode::First, source: Some(Box::new(Source::default())), target: Some(Box::new(TargetArchetype::Target(Target::builder().address(format!("q{}", l)).build()))), unsettled: None, incomplete_unsettled: false, initial_delivery_count: Some(0), max_message_size: None, offered_capabilities: None, desired_capabilities: None, properties: None };
            sc.peer.send(0, Performative::Attach(a), &[]).await.map_err(e)?;
            sc.data_handles.push(handle);
            handle += 1;
        }
        // the listener's attaches and credit
        let want = case.ctrl_links + case.data_links;
        let mut attached = 0;
        let mut credited = 0;
        let mut listener_handle_of: std::collections::HashMap<String, u32> = Default::default();
        for _ in 0..(want * 3 + 4) {
            match sc.peer.recv_frame().await {
                Ok((_, Performative::Attach(a), _)) => {
                    listener_handle_of.insert(a.name.clone(), a.handle.0);
                    attached += 1;
                }
                Ok((_, Performative::Flow(f), _)) => {
                    if f.link_credit.unwrap_or(0) > 0 {
                        credited += 1;
                    }
                    if let (Some(h), Some(dc), Some(c)) = (f.handle.as_ref(), f.delivery_count, f.link_credit) {
                        sc.link_flows.insert(h.0, (dc, c));
                    }
                }
                Ok(_) => {}
                Err(_) => break,
            }
            if attached >= want && credited >= want {
                break;
            }
        }
        if attached < want {
            return Err(format!("only {} of {} links were attached by the listener; notes {:?}", attached, want, notes.lock().unwrap()));
        }
        // the listener numbers its handles itself; a detach from it names ITS handle: remember the mapping
        let listener_ctrl: Vec<u32> = (0..case.ctrl_links).map(|c| *listener_handle_of.get(&format!("ctrl{}", c)).unwrap_or(&u32::MAX)).collect();
        let _ = listener_ctrl;

        let mut label = 0u32;
        let unknown_id: Vec<u8> = vec![0xab; 16];
        let mut skip = false;
        for (op_index, op) in case.ops.iter().enumerate() {
            if sc.session_gone.is_some() {
                break;
            }
            if skip {
                skip = false;
                continue;
            }
            obs.issued += 1;
            sc.cur_op = obs.outs.len();
            sc.op_start = sc.next_out;
            if case.interleave.contains(&op_index) {
                if let (Op::Post { link: la, txn: ta, frames, settled: sa, state_on_all: aa, .. }, Some(Op::Post { link: lb, txn: tb, settled: sb, state_on_all: ab, .. })) = (op, case.ops.get(op_index + 1)) {
                    let ha = sc.data_handles[*la % sc.data_handles.len()];
                    let hb = sc.data_handles[*lb % sc.data_handles.len()];
                    let state_of = |txn: &TxnRef, ids: &Vec<Vec<u8>>| -> Option<DeliveryState> {
                        let b = match txn {
                            TxnRef::None => None,
                            TxnRef::Slot(k) => Some(ids.get(*k).cloned().unwrap_or_else(|| unknown_id.clone())),
                            TxnRef::Unknown => Some(unknown_id.clone()),
                        };
                        b.map(|b| DeliveryState::TransactionalState(TransactionalState { txn_id: TransactionId::from(b), outcome: None }))
                    };
                    let (st_a, st_b) = (state_of(ta, &obs.ids), state_of(tb, &obs.ids));
                    label += 1;
                    let body_a = msg_bytes(label_body(label, 40 * frames));
                    label += 1;
                    let body_b = msg_bytes(label_body(label, 40 * frames));
                    let (ida, idb) = sc.transfer_pair(ha, body_a, hb, body_b, *frames, (*sa, *sb), (st_a.clone(), st_b.clone()), (*aa, *ab)).await.map_err(e)?;
                    let mut outs = vec![];
                    for (id, settled, is_txn) in [(ida, *sa, st_a.is_some()), (idb, *sb, st_b.is_some())] {
                        let o = if settled {
                            sc.peer.recv_timeout = Duration::from_millis(60);
                            let _ = sc.wait_disposition(id).await;
                            sc.peer.recv_timeout = Duration::from_millis(400);
                            match &sc.session_gone {
                                Some(c) => format!("SE:{}", c),
                                None => if is_txn { "B".into() } else { "V".into() },
                            }
                        } else {
                            match sc.wait_disposition(id).await {
                                Some(d) => match d.state {
                                    Some(DeliveryState::TransactionalState(_)) => "B".to_string(),
                                    Some(DeliveryState::Accepted(_)) => "V".to_string(),
                                    other => format!("?{:?}", other),
                                },
                                None => match &sc.session_gone {
                                    Some(c) => format!("SE:{}", c),
                                    None => "?no-answer".into(),
                                },
                            }
                        };
                        outs.push(o);
                    }
                    tokio::time::sleep(Duration::from_millis(30)).await;
                    obs.issued += 1;
                    for o in outs {
                        obs.outs.push(o);
                        obs.delivered_after.push(delivered.lock().unwrap().clone());
                    }
                    skip = true;
                    continue;
                }
            }
            let out = match op {
                Op::Declare { ctrl } => match sc.ctrl_handles.get(*ctrl).copied().flatten() {
                    None => "?".to_string(),
                    Some(h) => {
                        let body = serde_amqp::to_vec(&Serializable(Message::builder().value(Declare { global_id: None }).build())).map_err(|e| e.to_string())?;
                        let id = sc.transfer_msg(h, body, 1, false, None, true).await.map_err(e)?;
                        match sc.wait_disposition(id).await {
                            Some(d) => match d.state {
                                Some(DeliveryState::Declared(Declared { txn_id })) => {
                                    obs.ids.push(txn_id.as_ref().to_vec());
                                    format!("D{}", obs.ids.len() - 1)
                                }
                                Some(DeliveryState::Rejected(Rejected { error })) => format!("R:{}", error.map(|e| format!("{:?}", e.condition)).unwrap_or_default()),
                                other => format!("?{:?}", other),
                            },
                            None => match &sc.session_gone {
                                Some(c) => format!("SE:{}", c),
                                None => "?no-answer".into(),
                            },
                        }
                    }
                },
                Op::Post { link, txn, frames, settled, state_on_all, abort_first } => {
                    label += 1;
                    let h = sc.data_handles[*link % sc.data_handles.len()];
                    let id_bytes: Option<Vec<u8>> = match txn {
                        TxnRef::None => None,
                        TxnRef::Slot(k) => Some(obs.ids.get(*k).cloned().unwrap_or_else(|| unknown_id.clone())),
                        TxnRef::Unknown => Some(unknown_id.clone()),
                    };
                    let state = id_bytes.map(|b| DeliveryState::TransactionalState(TransactionalState { txn_id: TransactionId::from(b), outcome: None }));
                    let body = msg_bytes(label_body(label, 40 * frames));
                    let is_txn = state.is_some();
                    if *abort_first {
                        sc.aborted_attempt(h, state.clone()).await.map_err(e)?;
                    }
                    let id = sc.transfer_msg(h, body, *frames, *settled, state, *state_on_all).await.map_err(e)?;
                    if *settled {
                        // nothing comes back for a settled post unless it is refused
                        sc.peer.recv_timeout = Duration::from_millis(60);
                        let r = sc.wait_disposition(id).await;
                        sc.peer.recv_timeout = Duration::from_millis(400);
                        match (&sc.session_gone, r) {
                            (Some(c), _) => format!("SE:{}", c),
                            (None, _) => if is_txn { "B".into() } else { "V".into() },
                        }
                    } else {
                        match sc.wait_disposition(id).await {
                            Some(d) => match d.state {
                                Some(DeliveryState::TransactionalState(_)) => "B".to_string(),
                                Some(DeliveryState::Accepted(_)) => "V".to_string(),
                                other => format!("?{:?}", other),
                            },
                            None => match &sc.session_gone {
                                Some(c) => format!("SE:{}", c),
                                None => "?no-answer".into(),
                            },
                        }
                    }
                }
                Op::Discharge { ctrl, txn, fail } => match sc.ctrl_handles.get(*ctrl).copied().flatten() {
                    None => "?".to_string(),
                    Some(h) => {
                        let id_bytes = match txn {
                            TxnRef::Slot(k) => obs.ids.get(*k).cloned().unwrap_or_else(|| unknown_id.clone()),
                            _ => unknown_id.clone(),
                        };
                        let body = serde_amqp::to_vec(&Serializable(Message::builder().value(Discharge { txn_id: TransactionId::from(id_bytes), fail: *fail }).build())).map_err(|e| e.to_string())?;
                        let id = sc.transfer_msg(h, body, 1, false, None, true).await.map_err(e)?;
                        match sc.wait_disposition(id).await {
                            Some(d) => match d.state {
                                Some(DeliveryState::Accepted(_)) => "A".to_string(),
                                Some(DeliveryState::Rejected(Rejected { error })) => match error {
                                    Some(e) if format!("{:?}", e.condition).contains("UnknownId") => "RU".to_string(),
                                    other => format!("R:{:?}", other.map(|e| e.condition)),
                                },
                                other => format!("?{:?}", other),
                            },
                            None => match &sc.session_gone {
                                Some(c) => format!("SE:{}", c),
                                None => "?no-answer".into(),
                            },
                        }
                    }
                },
                Op::CtrlGone { ctrl, closed } => match sc.ctrl_handles.get(*ctrl).copied().flatten() {
                    None => "?".to_string(),
                    Some(h) => {
                        sc.peer.send(0, Performative::Detach(Detach { handle: Handle(h), closed: *closed, error: None }), &[]).await.map_err(e)?;
                        sc.ctrl_handles[*ctrl] = None;
                        // the listener answers with its own detach
                        sc.peer.recv_timeout = Duration::from_millis(100);
                        for _ in 0..3 {
                            match sc.peer.recv_frame().await {
                                Ok((_, Performative::Detach(_), _)) => break,
                                Ok((_, Performative::End(en), _)) => {
                                    sc.session_gone = Some(en.error.map(|e| format!("{:?}", e.condition)).unwrap_or_else(|| "no-error".into()));
                                    let _ = sc.peer.send(0, Performative::End(End { error: None }), &[]).await;
                                    break;
                                }
                                Ok(_) => {}
                                Err(_) => break,
                            }
                        }
                        sc.peer.recv_timeout = Duration::from_millis(400);
                        "-".to_string()
                    }
                },
                Op::Retire { txn, first } => {
                    let id_bytes: Vec<u8> = match txn {
                        TxnRef::Slot(k) => obs.ids.get(*k).cloned().unwrap_or_else(|| unknown_id.clone()),
                        _ => unknown_id.clone(),
                    };
                    let st = DeliveryState::TransactionalState(TransactionalState { txn_id: TransactionId::from(id_bytes), outcome: Some(fe2o3_amqp_types::messaging::Outcome::Accepted(fe2o3_amqp_types::messaging::Accepted {})) });
                    let d = Disposition { role: fe2o3_amqp_types::definitions::Role::Receiver, first: *first, last: None, settled: true, state: Some(st), batchable: false };
                    sc.peer.send(0, Performative::Disposition(d), &[]).await.map_err(e)?;
                    // nothing comes back for it unless the session ends over an unknown id
                    sc.peer.recv_timeout = Duration::from_millis(60);
                    let _ = sc.wait_disposition(u32::MAX).await;
                    sc.peer.recv_timeout = Duration::from_millis(400);
                    match &sc.session_gone {
                        Some(c) => format!("SE:{}", c),
                        None => "?".to_string(),
                    }
                }
                Op::Aborted { link, txn, more } => {
                    let h = sc.data_handles[*link % sc.data_handles.len()];
                    let id_bytes: Option<Vec<u8>> = match txn {
                        TxnRef::None => None,
                        TxnRef::Slot(k) => Some(obs.ids.get(*k).cloned().unwrap_or_else(|| unknown_id.clone())),
                        TxnRef::Unknown => Some(unknown_id.clone()),
                    };
                    let state = id_bytes.map(|b| DeliveryState::TransactionalState(TransactionalState { txn_id: TransactionId::from(b), outcome: None }));
                    let is_txn = state.is_some();
                    let id = sc.aborted_attempt_with(h, state, *more).await.map_err(e)?;
                    if is_txn {
                        // the first frame of the attempt is answered like any post (or the session ends over an unknown id)
                        match sc.wait_disposition(id).await {
                            Some(_) => "?".to_string(),
                            None => match &sc.session_gone {
                                Some(c) => format!("SE:{}", c),
                                None => "?no-answer".into(),
                            },
                        }
                    } else {
                        "?".to_string()
                    }
                }
                Op::SessionEnd => {
                    sc.peer.send(0, Performative::End(End { error: None }), &[]).await.map_err(e)?;
                    sc.peer.recv_timeout = Duration::from_millis(200);
                    for _ in 0..6 {
                        match sc.peer.recv_frame().await {
                            Ok((_, Performative::End(_), _)) => break,
                            Ok(_) => {}
                            Err(_) => break,
                        }
                    }
                    sc.session_gone = Some("ended-by-script".into());
                    "-".to_string()
                }
            };
            // let the listener's tasks run before the snapshot
            tokio::time::sleep(Duration::from_millis(30)).await;
            obs.outs.push(out);
            obs.delivered_after.push(delivered.lock().unwrap().clone());
        }
        // the end: close everything politely
        if sc.session_gone.is_none() {
            let _ = sc.peer.send(0, Performative::End(End { error: None }), &[]).await;
            sc.peer.recv_timeout = Duration::from_millis(200);
            for _ in 0..8 {
                match sc.peer.recv_frame().await {
                    Ok((_, Performative::End(_), _)) => break,
                    Ok(_) => {}
                    Err(_) => break,
                }
            }
        }
        tokio::time::sleep(Duration::from_millis(100)).await;
        let _ = sc.peer.close_politely().await;
        sc.peer.recv_timeout = Duration::from_millis(200);
        let _ = sc.peer.recv_frame().await;
        if case.listener_credit.is_some() && sc.session_gone.is_none() {
            // whatever the listener still has to say about its links
            sc.peer.recv_timeout = Duration::from_millis(150);
            let _ = sc.wait_disposition(u32::MAX).await;
            for l in 0..case.data_links {
                let ours = sc.data_handles[l];
                let theirs = listener_handle_of.get(&format!("data{}", l)).copied();
                obs.link_credit_view.push((sc.deliveries.get(&ours).copied().unwrap_or(0), theirs.and_then(|h| sc.link_flows.get(&h).copied())));
            }
        }
        obs.frame_log = std::mem::take(&mut sc.frame_log);
        obs.flows = std::mem::take(&mut sc.flows);
        drop(sc);
        let _ = tokio::time::timeout(Duration::from_secs(60), listener).await;
        obs.delivered = delivered.lock().unwrap().clone();
        obs.notes = notes.lock().unwrap().clone();
        Ok(obs)
    })
}

// ------------------------------------------------------------------------------- oracle and model line

/// the property read directly: (expected outs, expected deliveries per link after each op)
pub fn oracle(case: &Case, issued: usize) -> (Vec<String>, Vec<Vec<(usize, u32)>>) {
    #[derive(Clone, PartialEq)]
    enum T {
        Live,
        Done,
    }
    let mut txns: Vec<(T, usize, Vec<(usize, u32)>)> = vec![]; // state, owning ctrl link, buffered posts
    let mut ctrl_alive = vec![true; case.ctrl_links];
    let mut delivered: Vec<(usize, u32)> = vec![];
    let mut outs = vec![];
    let mut snaps = vec![];
    let mut label = 0u32;
    let mut dead = false;
    for op in case.ops.iter().take(issued) {
        if dead {
            break;
        }
        let out = match op {
            Op::Declare { ctrl } => {
                if ctrl_alive[*ctrl] {
                    txns.push((T::Live, *ctrl, vec![]));
                    format!("D{}", txns.len() - 1)
                } else {
                    "?".into()
                }
            }
            Op::Post { link, txn, .. } => {
                label += 1;
                match txn {
                    TxnRef::None => {
                        delivered.push((*link, label));
                        "V".into()
                    }
                    TxnRef::Slot(k) if *k < txns.len() && txns[*k].0 == T::Live => {
                        txns[*k].2.push((*link, label));
                        "B".into()
                    }
                    _ => {
                        dead = true;
                        "SE".into()
                    }
                }
            }
            Op::Discharge { ctrl, txn, fail } => {
                if !ctrl_alive[*ctrl] {
                    "?".into()
                } else {
                    match txn {
                        TxnRef::Slot(k) if *k < txns.len() && txns[*k].0 == T::Live && txns[*k].1 == *ctrl => {
                            txns[*k].0 = T::Done;
                            if *fail != Some(true) {
                                let posts = txns[*k].2.clone();
                                delivered.extend(posts);
                            }
                            "A".into()
                        }
                        _ => "RU".into(),
                    }
                }
            }
            Op::CtrlGone { ctrl, closed } => {
                if ctrl_alive[*ctrl] {
                    ctrl_alive[*ctrl] = false;
                    // a closed control link rolls its transactions back; a detached one may be resumed, its transactions stay
                    if *closed {
                        for t in txns.iter_mut() {
                            if t.1 == *ctrl {
                                t.0 = T::Done;
                            }
                        }
                    }
                    "-".into()
                } else {
                    "?".into()
                }
            }
            Op::SessionEnd => {
                dead = true;
                "-".into()
            }
            // nothing to see of it under a live transaction (or under none); an unknown or finished id ends the session
            Op::Retire { txn, .. } => match txn {
                TxnRef::Slot(k) if *k < txns.len() && txns[*k].0 == T::Live => "?".into(),
                _ => {
                    dead = true;
                    "SE".into()
                }
            },
            Op::Aborted { txn, .. } => match txn {
                TxnRef::None => "?".into(),
                TxnRef::Slot(k) if *k < txns.len() && txns[*k].0 == T::Live => "?".into(),
                _ => {
                    dead = true;
                    "SE".into()
                }
            },
        };
        outs.push(out);
        snaps.push(delivered.clone());
    }
    (outs, snaps)
}

fn per_link(d: &[(usize, u32)], links: usize) -> Vec<Vec<u32>> {
    (0..links).map(|l| d.iter().filter(|x| x.0 == l).map(|x| x.1).collect()).collect()
}

pub fn model_line(case: &Case, obs: &Observed) -> (String, String) {
    let mut words = vec![];
    let mut label = 0u32;
    let mut ctrl_alive = vec![true; case.ctrl_links];
    let mut words_ops = 0usize;
    for op in case.ops.iter().take(obs.issued) {
        match op {
            Op::Declare { ctrl } => {
                if ctrl_alive[*ctrl] {
                    words.push(format!("d:{}", ctrl));
                }
            }
            Op::Post { link, txn, .. } => {
                label += 1;
                let t = match txn {
                    TxnRef::None => "-".to_string(),
                    TxnRef::Slot(k) if *k < obs.ids.len() => k.to_string(),
                    _ => "999".to_string(),
                };
                words.push(format!("p:{}:{}:{}", t, link, label));
            }
            Op::Discharge { ctrl, txn, fail } => {
                if ctrl_alive[*ctrl] {
                    let t = match txn {
                        TxnRef::Slot(k) if *k < obs.ids.len() => k.to_string(),
                        _ => "999".to_string(),
                    };
                    words.push(format!("x:{}:{}:{}", ctrl, t, match fail {
                        Some(true) => "t",
                        Some(false) => "f",
                        None => "n",
                    }));
                }
            }
            Op::CtrlGone { ctrl, closed } => {
                if ctrl_alive[*ctrl] {
                    ctrl_alive[*ctrl] = false;
                    words.push(format!("{}:{}", if *closed { "g" } else { "h" }, ctrl));
                }
            }
            Op::SessionEnd => words.push("e".into()),
            Op::Retire { .. } => {
                if obs.outs.get(words_ops).map(|o| o.starts_with("SE")).unwrap_or(false) {
                    words.push("p:999:0:0".to_string());
                }
            }
            Op::Aborted { link, .. } => {
                // the model of whole posts knows nothing of attempts; one that named a dead id is a post to it
                if obs.outs.get(words_ops).map(|o| o.starts_with("SE")).unwrap_or(false) {
                    words.push(format!("p:999:{}:0", link));
                }
            }
        }
        words_ops += 1;
    }
    let outs: Vec<String> = obs.outs.iter().filter(|o| *o != "?").map(|o| if o.starts_with("SE") { "SE".to_string() } else { o.clone() }).collect();
    let imp = format!("{} | {}", if outs.is_empty() { "-".into() } else { outs.join(" ") }, if obs.delivered.is_empty() { "-".into() } else { obs.delivered.iter().map(|(l, x)| format!("{}.{}", l, x)).collect::<Vec<_>>().join(" ") });
    (format!("T run {}", words.join(" ")), imp)
}

/// the model's answer lists deliveries in one global order; ours come from several tasks: compare per link
fn canon(line: &str, links: usize) -> String {
    let (outs, del) = line.split_once(" | ").unwrap_or((line, "-"));
    let d: Vec<(usize, u32)> = del.split(' ').filter_map(|w| w.split_once('.')).filter_map(|(l, x)| Some((l.parse().ok()?, x.parse().ok()?))).collect();
    format!("{} | {:?}", outs, per_link(&d, links))
}

pub fn check(case: &Case, obs: &Observed) -> Option<(String, String)> {
    // C07 at a transactional session: the next-incoming-id the listener states counts every transfer it has
    // taken in, withheld under a transaction or not
    for (lower, nii) in &obs.flows {
        if (nii.wrapping_sub(*lower) as i32) < 0 {
            return Some(("next-incoming-id-misses-withheld-transfers".into(), format!("the listener had taken in the transfers 0..{} when it sent a flow stating next-incoming-id {} (incoming-window of its session {}): the transfers it withholds under a transaction are not counted", lower, nii, case.listener_window)));
        }
    }
    // C09 at a transactional session: once every transaction has been discharged and the application has taken
    // what there is, a sender that respects the credit can go on (the judged cases leave no transaction open)
    for (l, (sent, view)) in obs.link_credit_view.iter().enumerate() {
        if let Some((dc, credit)) = view {
            let usable = dc.wrapping_add(*credit).wrapping_sub(*sent) as i32;
            if usable <= 0 {
                return Some(("link-credit-lost-by-rollback".into(), format!("data link {}: the peer has begun {} deliveries on it, the listener's last flow states delivery-count {} and link-credit {} (granted {:?}): a sender that respects the credit has {} left and nothing will ever raise it — the deliveries discarded by a rollback were never counted by the receiving link", l, sent, dc, credit, case.listener_credit, usable)));
            }
        }
    }
    let (want_outs, want_snaps) = oracle(case, obs.issued);
    for i in 0..obs.outs.len().min(want_outs.len()) {
        let got = &obs.outs[i];
        let want = &want_outs[i];
        let got_c = if got.starts_with("SE") { "SE" } else { got.as_str() };
        let what = |op: &Op| -> &'static str {
            match op {
                Op::Declare { .. } => "declare",
                Op::Post { .. } => "post",
                Op::Discharge { .. } => "discharge",
                Op::CtrlGone { .. } => "ctrl-gone",
                Op::SessionEnd => "session-end",
                Op::Aborted { .. } => "aborted-attempt",
                Op::Retire { .. } => "retirement",
            }
        };
        if got_c != want {
            let key = match (&case.ops[i], got_c, want.as_str()) {
                (Op::Post { .. }, "B", "SE") => "post-to-unknown-or-finished-id-accepted".to_string(),
                (Op::Post { .. }, "V", "SE") => "post-to-unknown-or-finished-id-delivered".to_string(),
                (Op::Discharge { .. }, "A", "RU") => "discharge-of-unknown-or-finished-id-accepted".to_string(),
                (Op::Discharge { .. }, "RU", "A") => "discharge-of-live-id-refused".to_string(),
                (op, g, w) => format!("{}:{}-instead-of-{}", what(op), g.chars().take(12).collect::<String>(), w),
            };
            return Some((key, format!("op {} ({:?}): got {} where the property asks for {}; outs {:?}; notes {:?}", i, case.ops[i], got, want, obs.outs, obs.notes)));
        }
        if got == "SE" || got.starts_with("SE:") {
            if matches!(&case.ops[i], Op::Post { .. }) && !got.contains("UnknownId") && got != "SE" {
                return Some(("post-refused-without-the-transaction-error".into(), format!("op {} ({:?}): the session ended with {} instead of amqp:transaction:unknown-id", i, case.ops[i], got)));
            }
        }
        // isolation / atomicity at this point in time
        let got_d = per_link(&obs.delivered_after[i], case.data_links);
        let want_d = per_link(&want_snaps[i], case.data_links);
        if got_d != want_d {
            let multi_first_only = case.ops.iter().take(i + 1).any(|o| matches!(o, Op::Post { frames, state_on_all: false, txn, .. } if *frames > 1 && *txn != TxnRef::None));
            // which way is it off?
            let extra = got_d.iter().zip(want_d.iter()).any(|(g, w)| g.iter().any(|x| !w.contains(x)));
            let key = if extra {
                if matches!(&case.ops[i], Op::Discharge { fail: Some(true), .. }) { "rolled-back-post-delivered" } else { "withheld-post-delivered-before-commit" }
            } else if got_d.iter().zip(want_d.iter()).all(|(g, w)| g.len() == w.len()) {
                "delivered-out-of-order"
            } else {
                "committed-or-plain-post-not-delivered"
            };
            let sfx = if multi_first_only { ":multi-frame-post-with-state-on-first-frame-only" } else { "" };
            return Some((format!("{}{}", key, sfx), format!("after op {} ({:?}) the application had been handed {:?} per link; the property asks for {:?}; outs {:?}; notes {:?}", i, case.ops[i], got_d, want_d, obs.outs, obs.notes)));
        }
    }
    // fresh ids
    for (i, a) in obs.ids.iter().enumerate() {
        if obs.ids[..i].contains(a) {
            return Some(("transaction-id-reused".into(), format!("declare {} returned the id of an earlier declare", i)));
        }
    }
    None
}

// ------------------------------------------------------------------------------- controller side

#[derive(Clone, Debug)]
pub enum COp {
    /// declare; the resource answers with Declared or rejects
    Declare { reject: bool },
    Post { txn: usize, size: usize },
    Commit { txn: usize, reject: bool },
    Rollback { txn: usize, reject: bool },
    /// `discharge(fail)` which the resource rejects, then `discharge(fail)` again, which it accepts: each call
    /// puts a discharge on the wire and reports what the coordinator answered to it
    DischargeTwice { txn: usize, fail: bool },
}

#[derive(Clone, Debug)]
pub struct CCase {
    pub owned: bool,
    pub ops: Vec<COp>,
}

fn ccase_json(c: &CCase) -> J {
    json!({"owned": c.owned, "ops": c.ops.iter().map(|o| format!("{:?}", o)).collect::<Vec<_>>()})
}

pub fn gen_ccase(rng: &mut Rng) -> CCase {
    let owned = rng.chance(1, 3);
    let mut ops = vec![];
    let mut live: Vec<usize> = vec![];
    let mut declared = 0usize;
    for _ in 0..rng.range(2, 10) {
        match rng.below(10) {
            0..=2 => {
                let reject = rng.chance(1, 6);
                ops.push(COp::Declare { reject });
                if !reject {
                    live.push(declared);
                }
                declared += 1;
            }
            3..=6 if !live.is_empty() => ops.push(COp::Post { txn: *rng.pick(&live), size: *rng.pick(&[5usize, 50, 700]) }),
            7 | 8 if !live.is_empty() => {
                let i = rng.below(live.len() as u64) as usize;
                let t = live.remove(i);
                ops.push(match rng.below(5) {
                    0 => COp::DischargeTwice { txn: t, fail: rng.chance(1, 2) },
                    1 | 2 => COp::Commit { txn: t, reject: rng.chance(1, 5) },
                    _ => COp::Rollback { txn: t, reject: rng.chance(1, 5) },
                });
            }
            _ => {}
        }
    }
    CCase { owned, ops }
}

#[derive(Debug, Default)]
pub struct CObserved {
    /// what the API calls returned: ok / err:<…>
    pub results: Vec<String>,
    /// what the scripted resource saw: declare / post:<txn slot or ?>:<frames with state>/<frames> / discharge:<slot>:<fail>
    pub wire: Vec<String>,
    pub notes: Vec<String>,
}

pub fn run_ccase(case: &CCase) -> Result<CObserved, String> {
    let rt = paused_runtime();
    let case = case.clone();
    rt.block_on(async move {
        let (cio, pio) = tokio::io::duplex(1 << 20);
        let c = case.clone();
        let client = tokio::spawn(async move {
            let mut results: Vec<String> = vec![];
            let mut conn = Connection::builder().container_id("controller").max_frame_size(512).open_with_stream(cio).await.map_err(|e| format!("open: {:?}", e))?;
            let mut session = Session::begin(&mut conn).await.map_err(|e| format!("begin: {:?}", e))?;
            let mut sender = Sender::attach(&mut session, "data", "q").await.map_err(|e| format!("attach: {:?}", e))?;
            if c.owned {
                let mut txns: Vec<Option<OwnedTransaction>> = vec![];
                for (i, op) in c.ops.iter().enumerate() {
                    match op {
                        COp::Declare { .. } => match tokio::time::timeout(Duration::from_secs(5), OwnedTransaction::declare(&mut session, format!("ctrl{}", i), None)).await {
                            Ok(Ok(t)) => {
                                txns.push(Some(t));
                                results.push("ok".into());
                            }
                            Ok(Err(e)) => {
                                txns.push(None);
                                results.push(format!("err:{:?}", e));
                            }
                            Err(_) => {
                                txns.push(None);
                                results.push("hang".into());
                            }
                        },
                        COp::Post { txn, size } => match txns.get(*txn).and_then(|t| t.as_ref()) {
                            Some(t) => match tokio::time::timeout(Duration::from_secs(5), t.post(&mut sender, Binary::from(vec![7u8; *size]))).await {
                                Ok(Ok(_)) => results.push("ok".into()),
                                Ok(Err(e)) => results.push(format!("err:{:?}", e)),
                                Err(_) => results.push("hang".into()),
                            },
                            None => results.push("skipped".into()),
                        },
                        COp::Commit { txn, .. } => match txns.get_mut(*txn).and_then(|t| t.take()) {
                            Some(t) => match tokio::time::timeout(Duration::from_secs(5), t.commit()).await {
                                Ok(Ok(_)) => results.push("ok".into()),
                                Ok(Err(e)) => results.push(format!("err:{:?}", e)),
                                Err(_) => results.push("hang".into()),
                            },
                            None => results.push("skipped".into()),
                        },
COp::DischargeTwice { txn, fail } => match txns.get_mut(*txn).and_then(|t| t.take()) {
                            Some(mut t) => {
                                let mut both = vec![];
                                for _ in 0..2 {
                                    both.push(match tokio::time::timeout(Duration::from_secs(5), t.discharge(*fail)).await {
                                        Ok(Ok(_)) => "ok".to_string(),
                                        Ok(Err(e)) => format!("err:{:?}", e),
                                        Err(_) => "hang".to_string(),
                                    });
                                }
                                results.push(both.join("+"));
                            }
                            None => results.push("skipped".into()),
                        },
                        COp::Rollback { txn, .. } => match txns.get_mut(*txn).and_then(|t| t.take()) {
                            Some(t) => match tokio::time::timeout(Duration::from_secs(5), t.rollback()).await {
                                Ok(Ok(_)) => results.push("ok".into()),
                                Ok(Err(e)) => results.push(format!("err:{:?}", e)),
                                Err(_) => results.push("hang".into()),
                            },
                            None => results.push("skipped".into()),
                        },
                    }
                }
                drop(txns);
            } else {
                let controller = Controller::attach(&mut session, "ctrl").await.map_err(|e| format!("controller: {:?}", e))?;
                {
                    let mut txns: Vec<Option<Transaction>> = vec![];
                    for op in c.ops.iter() {
                        match op {
                            COp::Declare { .. } => match tokio::time::timeout(Duration::from_secs(5), Transaction::declare(&controller, None)).await {
                                Ok(Ok(t)) => {
                                    txns.push(Some(t));
                                    results.push("ok".into());
                                }
                                Ok(Err(e)) => {
                                    txns.push(None);
                                    results.push(format!("err:{:?}", e));
                                }
                                Err(_) => {
                                    txns.push(None);
                                    results.push("hang".into());
                                }
                            },
                            COp::Post { txn, size } => match txns.get(*txn).and_then(|t| t.as_ref()) {
                                Some(t) => match tokio::time::timeout(Duration::from_secs(5), t.post(&mut sender, Binary::from(vec![7u8; *size]))).await {
                                    Ok(Ok(_)) => results.push("ok".into()),
                                    Ok(Err(e)) => results.push(format!("err:{:?}", e)),
                                    Err(_) => results.push("hang".into()),
                                },
                                None => results.push("skipped".into()),
                            },
                            COp::Commit { txn, .. } => match txns.get_mut(*txn).and_then(|t| t.take()) {
                                Some(t) => match tokio::time::timeout(Duration::from_secs(5), t.commit()).await {
                                    Ok(Ok(_)) => results.push("ok".into()),
                                    Ok(Err(e)) => results.push(format!("err:{:?}", e)),
                                    Err(_) => results.push("hang".into()),
                                },
                                None => results.push("skipped".into()),
                            },
COp::DischargeTwice { txn, fail } => match txns.get_mut(*txn).and_then(|t| t.take()) {
                                Some(mut t) => {
                                    let mut both = vec![];
                                    for _ in 0..2 {
                                        both.push(match tokio::time::timeout(Duration::from_secs(5), t.discharge(*fail)).await {
                                            Ok(Ok(_)) => "ok".to_string(),
                                            Ok(Err(e)) => format!("err:{:?}", e),
                                            Err(_) => "hang".to_string(),
                                        });
                                    }
                                    results.push(both.join("+"));
                                }
                                None => results.push("skipped".into()),
                            },
                            COp::Rollback { txn, .. } => match txns.get_mut(*txn).and_then(|t| t.take()) {
                                Some(t) => match tokio::time::timeout(Duration::from_secs(5), t.rollback()).await {
                                    Ok(Ok(_)) => results.push("ok".into()),
                                    Ok(Err(e)) => results.push(format!("err:{:?}", e)),
                                    Err(_) => results.push("hang".into()),
                                },
                                None => results.push("skipped".into()),
                            },
                        }
                    }
                    // what is left is rolled back when dropped: not judged here
                    for t in txns.into_iter().flatten() {
                        let _ = tokio::time::timeout(Duration::from_secs(2), t.rollback()).await;
                    }
                }
                let _ = tokio::time::timeout(Duration::from_millis(500), controller.close()).await;
            }
            let _ = tokio::time::timeout(Duration::from_millis(500), sender.close()).await;
            let _ = tokio::time::timeout(Duration::from_millis(500), session.end()).await;
            let _ = tokio::time::timeout(Duration::from_millis(500), conn.close()).await;
            Ok::<_, String>(results)
        });
        let mut obs = CObserved::default();
        let mut peer = Peer::new(pio);
        peer.recv_timeout = Duration::from_millis(800);
        let e = |x: PeerError| format!("{:?}", x);
        peer.accept_open(&PeerOpen { max_frame_size: 512, ..PeerOpen::default() }).await.map_err(e)?;
        peer.accept_begin(0, 0, 2048, 2048).await.map_err(e)?;
        // the scripted resource: answers attaches, grants credit, answers control messages as the case says
        let mut declared: Vec<Vec<u8>> = vec![];
        let mut decl_answers: Vec<bool> = case.ops.iter().filter_map(|o| if let COp::Declare { reject } = o { Some(*reject) } else { None }).collect();
        decl_answers.reverse();
        let mut slot_of_declare: Vec<Option<usize>> = vec![]; // per declare op: its index among the accepted ones
        let mut discharge_answers: std::collections::HashMap<usize, bool> = Default::default();
        let mut reject_once: std::collections::HashSet<usize> = Default::default();
        // the k-th declare OP maps to slot: only accepted declares create a slot, in order
        {
            let mut acc = 0usize;
            for o in &case.ops {
                if let COp::Declare { reject } = o {
                    if *reject {
                        slot_of_declare.push(None);
                    } else {
                        slot_of_declare.push(Some(acc));
                        acc += 1;
                    }
                }
            }
            for o in &case.ops {
                match o {
                    COp::Commit { txn, reject } | COp::Rollback { txn, reject } => {
                        if let Some(Some(s)) = slot_of_declare.get(*txn) {
                            discharge_answers.insert(*s, *reject);
                        }
                    }
                    COp::DischargeTwice { txn, .. } => {
                        if let Some(Some(s)) = slot_of_declare.get(*txn) {
                            reject_once.insert(*s);
                        }
                    }
                    _ => {}
                }
            }
        }
        let mut ctrl_handles: std::collections::HashSet<u32> = Default::default();
        let mut ours_of: std::collections::HashMap<u32, u32> = Default::default(); // the client's handle -> ours
        let mut next_handle = 10u32;
        let mut partial: std::collections::HashMap<u32, (Vec<u8>, u32, usize, usize, Option<Vec<u8>>, bool)> = Default::default(); // handle -> (payload, delivery id, frames with state, frames, txn id of first frame, settled)
        let mut frames_total = 0u32;
        loop {
            match peer.recv_frame().await {
                Ok((_, Performative::Attach(a), _)) => {
                    let is_ctrl = matches!(a.target.as_deref(), Some(TargetArchetype::Coordinator(_)));
                    if is_ctrl {
                        ctrl_handles.insert(a.handle.0);
                    } else {
                        ctrl_handles.remove(&a.handle.0);
                    }
                    ours_of.insert(a.handle.0, next_handle);
                    let ours = Attach { name: a.name.clone(), handle: Handle(next_handle), role: Role::Receiver, snd_settle_mode: a.snd_settle_mode.clone(), rcv_settle_mode: ReceiverSettleMode::First, source: a.source.clone(), target: a.target.clone(), unsettled: None, incomplete_unsettled: false, initial_delivery_count: None, max_message_size: None, offered_capabilities: None, desired_capabilities: None, properties: None };
                    next_handle += 1;
                    let _ = peer.send(0, Performative::Attach(ours.clone()), &[]).await;
                    let f = Flow { next_incoming_id: Some(frames_total), incoming_window: 2048, next_outgoing_id: 0, outgoing_window: 2048, handle: Some(ours.handle.clone()), delivery_count: Some(a.initial_delivery_count.unwrap_or(0)), link_credit: Some(100), available: None, drain: false, echo: false, properties: None };
                    let _ = peer.send(0, Performative::Flow(f), &[]).await;
                    // remember which of OUR handles belongs to the client's handle
                    partial.remove(&a.handle.0);
                }
                Ok((_, Performative::Transfer(t), payload)) => {
                    frames_total += 1;
                    let h = t.handle.0;
                    let entry = partial.entry(h).or_insert((vec![], t.delivery_id.unwrap_or(0), 0, 0, None, t.settled.unwrap_or(false)));
                    if entry.3 == 0 {
                        entry.1 = t.delivery_id.unwrap_or(0);
                        entry.5 = t.settled.unwrap_or(false);
                        if let Some(DeliveryState::TransactionalState(s)) = &t.state {
                            entry.4 = Some(s.txn_id.as_ref().to_vec());
                        }
                    }
                    entry.0.extend_from_slice(&payload);
                    entry.3 += 1;
                    if matches!(&t.state, Some(DeliveryState::TransactionalState(_))) {
                        entry.2 += 1;
                    }
                    if t.more {
                        continue;
                    }
                    let (body, id, with_state, nframes, txn_id, settled) = partial.remove(&h).unwrap();
                    let disp = |state: DeliveryState| Disposition { role: Role::Receiver, first: id, last: None, settled: true, state: Some(state), batchable: false };
                    if ctrl_handles.contains(&h) {
                        // a control message
                        let v: Result<fe2o3_amqp_types::messaging::message::__private::Deserializable<Message<Value>>, _> = serde_amqp::from_slice(&body);
                        let described = format!("{:?}", v.as_ref().map(|m| &m.0.body));
                        if described.contains("Code(49)") || described.contains("amqp:declare:list") {
                            obs.wire.push("declare".into());
                            let reject = decl_answers.pop().unwrap_or(false);
                            if reject {
                                let err = fe2o3_amqp_types::definitions::Error::new(fe2o3_amqp_types::definitions::AmqpError::NotImplemented, None, None);
                                let _ = peer.send(0, Performative::Disposition(disp(DeliveryState::Rejected(Rejected { error: Some(err) }))), &[]).await;
                            } else {
                                let idb: Vec<u8> = vec![declared.len() as u8 + 1; 8];
                                declared.push(idb.clone());
                                let _ = peer.send(0, Performative::Disposition(disp(DeliveryState::Declared(Declared { txn_id: TransactionId::from(idb) }))), &[]).await;
                            }
                        } else {
                            // discharge: txn-id and fail out of the described list
                            match discharge_fields(&body) {
                                Some((txn_id, fail)) => {
                                    let slot = declared.iter().position(|x| x.as_slice() == txn_id.as_slice());
                                    obs.wire.push(format!("discharge:{}:{:?}", slot.map(|s| s.to_string()).unwrap_or("?".into()), fail));
                                    let reject = slot.and_then(|s| discharge_answers.get(&s).copied()).unwrap_or(false) || slot.map(|s| reject_once.remove(&s)).unwrap_or(false);
                                    if reject {
                                        let err = fe2o3_amqp_types::definitions::Error::new(fe2o3_amqp_types::transaction::TransactionError::Rollback, None, None);
                                        let _ = peer.send(0, Performative::Disposition(disp(DeliveryState::Rejected(Rejected { error: Some(err) }))), &[]).await;
                                    } else {
                                        let _ = peer.send(0, Performative::Disposition(disp(DeliveryState::Accepted(Accepted {}))), &[]).await;
                                    }
                                }
                                None => obs.notes.push(format!("control message not understood: {}", described)),
                            }
                        }
                    } else {
                        let slot = txn_id.as_ref().and_then(|t| declared.iter().position(|x| x == t));
                        obs.wire.push(format!("post:{}:{}/{}", match (&txn_id, slot) {
                            (None, _) => "-".to_string(),
                            (Some(_), Some(s)) => s.to_string(),
                            (Some(_), None) => "?".to_string(),
                        }, with_state, nframes));
                        if !settled {
                            let st = match txn_id {
                                Some(t) => DeliveryState::TransactionalState(TransactionalState { txn_id: TransactionId::from(t), outcome: Some(Outcome::Accepted(Accepted {})) }),
                                None => DeliveryState::Accepted(Accepted {}),
                            };
                            let _ = peer.send(0, Performative::Disposition(disp(st)), &[]).await;
                        }
                    }
                }
                Ok((_, Performative::Detach(d), _)) => {
                    let ours = ours_of.remove(&d.handle.0).unwrap_or(d.handle.0 + 10);
                    ctrl_handles.remove(&d.handle.0);
                    let _ = peer.send(0, Performative::Detach(Detach { handle: Handle(ours), closed: d.closed, error: None }), &[]).await;
                }
                Ok((_, Performative::End(_), _)) => {
                    let _ = peer.send(0, Performative::End(End { error: None }), &[]).await;
                }
                Ok((_, Performative::Close(_), _)) => {
                    let _ = peer.close_politely().await;
                    break;
                }
                Ok(_) => {}
                Err(PeerError::Timeout) => {
                    if client.is_finished() {
                        break;
                    }
                }
                Err(_) => break,
            }
        }
        drop(peer);
        match tokio::time::timeout(Duration::from_secs(120), client).await {
            Ok(Ok(Ok(r))) => obs.results = r,
            Ok(Ok(Err(e))) => return Err(e),
            other => return Err(format!("client: {:?}", other.map(|_| ()))),
        }
        Ok(obs)
    })
}

/// (txn-id, fail) of a message whose body is an amqp-value holding a discharge
fn discharge_fields(body: &[u8]) -> Option<(Vec<u8>, Option<bool>)> {
    let m: fe2o3_amqp_types::messaging::message::__private::Deserializable<Message<Value>> = serde_amqp::from_slice(body).ok()?;
    match m.0.body {
        Value::Described(d) => {
            let code_ok = format!("{:?}", d.descriptor).contains("50") || format!("{:?}", d.descriptor).contains("discharge");
            if !code_ok {
                return None;
            }
            match d.value {
                Value::List(l) => {
                    let id = match l.first()? {
                        Value::Binary(b) => b.to_vec(),
                        _ => return None,
                    };
                    let fail = match l.get(1) {
                        Some(Value::Bool(b)) => Some(*b),
                        _ => None,
                    };
                    Some((id, fail))
                }
                _ => None,
            }
        }
        _ => None,
    }
}

pub fn check_ccase(case: &CCase, obs: &CObserved) -> Option<(String, String)> {
    // what should have been on the wire, and what the calls should have returned
    let mut want_wire: Vec<String> = vec![];
    let mut want_results: Vec<&str> = vec![];
    let mut slot_of: Vec<Option<usize>> = vec![];
    let mut acc = 0usize;
    for op in &case.ops {
        match op {
            COp::Declare { reject } => {
                want_wire.push("declare".into());
                want_results.push(if *reject { "err" } else { "ok" });
                if *reject {
                    slot_of.push(None);
                } else {
                    slot_of.push(Some(acc));
                    acc += 1;
                }
            }
            COp::Post { txn, .. } => match slot_of.get(*txn).copied().flatten() {
                Some(s) => {
                    want_wire.push(format!("post:{}", s));
                    want_results.push("ok");
                }
                None => want_results.push("skipped"),
            },
            COp::Commit { txn, reject } | COp::Rollback { txn, reject } => match slot_of.get(*txn).copied().flatten() {
                Some(s) => {
                    let fail = matches!(op, COp::Rollback { .. });
                    want_wire.push(format!("discharge:{}:{}", s, fail));
                    want_results.push(if *reject { "err" } else { "ok" });
                }
                None => want_results.push("skipped"),
            },
            COp::DischargeTwice { txn, fail } => match slot_of.get(*txn).copied().flatten() {
                Some(s) => {
                    want_wire.push(format!("discharge:{}:{}", s, fail));
                    want_wire.push(format!("discharge:{}:{}", s, fail));
                    want_results.push("err+ok");
                }
                None => want_results.push("skipped"),
            },
        }
    }
    // the wire: trailing discharges of what was left over are not judged
    let got_wire: Vec<String> = obs.wire.iter().map(|w| {
        if let Some(rest) = w.strip_prefix("discharge:") {
            let mut it = rest.split(':');
            let s = it.next().unwrap_or("?");
            let f = it.next().unwrap_or("");
            format!("discharge:{}:{}", s, f.contains("true"))
        } else if let Some(rest) = w.strip_prefix("post:") {
            format!("post:{}", rest.split(':').next().unwrap_or("?"))
        } else {
            w.clone()
        }
    }).collect();
    // what the resource saw must be what the calls ask for, in order; in between, a transaction that was dropped
    // undischarged (after a rejected discharge, or at the end) may be rolled back once more
    let mut gi = 0usize;
    for (i, w) in want_wire.iter().enumerate() {
        loop {
            match got_wire.get(gi) {
                Some(g) if g == w => {
                    gi += 1;
                    break;
                }
                Some(g) if g.starts_with("discharge:") && g.ends_with(":true") => gi += 1,
                other => {
                    let key = if w.starts_with("discharge") { "controller:wrong-discharge-on-the-wire" } else if w.starts_with("post") { "controller:post-without-its-transaction-id" } else { "controller:wire-differs" };
                    return Some((key.into(), format!("the {}-th thing the calls ask for is {}, the resource saw {:?} at that point; wire {:?}; results {:?}; notes {:?}", i, w, other, obs.wire, obs.results, obs.notes)));
                }
            }
        }
    }
    for g in &got_wire[gi..] {
        if !(g.starts_with("discharge:") && g.ends_with(":true")) {
            return Some(("controller:wire-differs".into(), format!("the resource saw {} which no call asked for; wire {:?}; results {:?}", g, obs.wire, obs.results)));
        }
    }
    // every frame of a transactional post carries the state
    for w in &obs.wire {
        if let Some(rest) = w.strip_prefix("post:") {
            let mut it = rest.split(':');
            let slot = it.next().unwrap_or("");
            let frac = it.next().unwrap_or("");
            if slot != "-" {
                if let Some((a, b)) = frac.split_once('/') {
                    if a != b {
                        return Some(("controller:continuation-frames-without-transactional-state".into(), format!("a transactional post of {} frames carried the state on {} of them; wire {:?}", b, a, obs.wire)));
                    }
                }
            }
        }
    }
    for (i, w) in want_results.iter().enumerate() {
        let g = obs.results.get(i).map(|s| s.as_str()).unwrap_or("missing");
        let ok = match *w {
            "ok" => g == "ok",
            "err" => g.starts_with("err"),
            "skipped" => g == "skipped",
            "err+ok" => g.starts_with("err") && g.ends_with("+ok"),
            _ => false,
        };
        if !ok {
            let key = if g == "hang" { "controller:call-hangs" } else if *w == "err+ok" { "controller:discharge-reports-without-asking-the-coordinator" } else if *w == "err" { "controller:rejected-outcome-reported-as-success" } else { "controller:accepted-outcome-reported-as-failure" };
            return Some((key.into(), format!("call {} ({:?}) returned {} where {} was expected; results {:?}; wire {:?}", i, case.ops[i], g, w, obs.results, obs.wire)));
        }
    }
    None
}

// ------------------------------------------------------------------------------- main

pub fn main(opts: &Opts) {
    let prop = if opts.property.is_empty() { "C18".to_string() } else { opts.property.clone() };
    let mut report = Report::new(
        &prop,
        "resource: 2..14 operations of a scripted controller against a real listener with 1..2 control links and 1..3 data links: declares, posts (plain and under a declared / unknown / finished \
         transaction, settled and not, in 1..3 frames), discharges (commit, rollback, fail unset; of live, unknown, finished ids; through the declaring or the other control link), control-link \
         detach / close, session end; what the receiving application has been handed is sampled after every operation; controller: 2..10 API calls (Transaction on a shared Controller or \
         OwnedTransaction) against a scripted resource that accepts or rejects declares and discharges; non-trivial = a case with at least one transactional post and one discharge or \
         control-link loss; distinct by hash of the case",
    );
    if let Some(path) = &opts.replay {
        let j: J = serde_json::from_str(&std::fs::read_to_string(path).expect("read")).expect("json");
        if let Some(case) = j.get("resource").and_then(Case::from_json) {
            let r = run_case(&case);
            println!("{:?}", r);
            match r {
                Ok(obs) => match check(&case, &obs) {
                    Some((k, d)) => {
                        println!("REPLAY: property violated [{}]: {}", k, d);
                        std::process::exit(1);
                    }
                    None => {
                        println!("REPLAY: property holds on this scenario");
                        std::process::exit(0);
                    }
                },
                Err(e) => {
                    println!("REPLAY: scenario failed: {}", e);
                    std::process::exit(1);
                }
            }
        }
        std::process::exit(2);
    }
    let mut rng = Rng::new(opts.seed ^ 0xc18);
    let mut lines: Vec<String> = vec![];
    let mut imp: Vec<String> = vec![];
    let mut cases_of_line: Vec<J> = vec![];
    let mut links_of_line: Vec<usize> = vec![];
    let mut corpus: Vec<Case> = vec![];
    if let Ok(rd) = std::fs::read_dir("/verif/corpus/C18") {
        let mut files: Vec<_> = rd.filter_map(|e| e.ok()).map(|e| e.path()).collect();
        files.sort();
        for f in files {
            if let Ok(j) = serde_json::from_str::<J>(&std::fs::read_to_string(&f).unwrap_or_default()) {
                if let Some(c) = j.get("case").and_then(|c| c.get("resource")).and_then(Case::from_json) {
                    corpus.push(c);
                }
            }
        }
    }
    report.count_n("corpus_cases", corpus.len() as u64);
    // two links posting multi-frame deliveries under one transaction with their frames alternating on the wire
    for frames in [2usize, 3] {
        for (all_a, all_b) in [(false, false), (true, false), (false, true), (true, true)] {
            for settled in [false, true] {
                for fail in [Some(false), Some(true)] {
                    corpus.push(Case {
                        ctrl_links: 1,
                        data_links: 2,
                        ops: vec![
                            Op::Declare { ctrl: 0 },
                            Op::Post { link: 0, txn: TxnRef::Slot(0), frames, settled, state_on_all: all_a, abort_first: false },
                            Op::Post { link: 1, txn: TxnRef::Slot(0), frames, settled, state_on_all: all_b, abort_first: false },
                            Op::Post { link: 1, txn: TxnRef::None, frames: 1, settled: false, state_on_all: true, abort_first: false },
                            Op::Discharge { ctrl: 0, txn: TxnRef::Slot(0), fail },
                            Op::Post { link: 0, txn: TxnRef::None, frames: 2, settled: false, state_on_all: true, abort_first: false },
                        ],
                        interleave: vec![1],
                        repeat_tag: frames == 3 && all_a,
                        listener_window: 2048,
                        listener_credit: None,
                    });
                }
            }
        }
    }
    // a transactional delivery that is aborted, then a plain delivery in several frames on the same link
    for more in [false, true] {
        for frames in [1usize, 2, 3] {
            for fail in [Some(false), Some(true)] {
                for plain_first in [false, true] {
                    let mut ops = vec![Op::Declare { ctrl: 0 }];
                    if plain_first {
                        ops.push(Op::Post { link: 0, txn: TxnRef::Slot(0), frames: 2, settled: false, state_on_all: false, abort_first: false });
                    }
                    ops.push(Op::Aborted { link: 0, txn: TxnRef::Slot(0), more });
                    ops.push(Op::Post { link: 0, txn: TxnRef::None, frames, settled: false, state_on_all: true, abort_first: false });
                    ops.push(Op::Discharge { ctrl: 0, txn: TxnRef::Slot(0), fail });
                    ops.push(Op::Post { link: 0, txn: TxnRef::None, frames: 2, settled: false, state_on_all: true, abort_first: false });
                    corpus.push(Case { ctrl_links: 1, data_links: 1, ops, interleave: vec![], repeat_tag: plain_first && frames == 2, listener_window: if more { 4 } else { 2048 }, listener_credit: None });
                }
            }
        }
    }
    if prop == "C09" {
        corpus.clear();
        for fail in [Some(false), Some(true)] {
            for (credit, posts, frames) in [(4u32, 4usize, 1usize), (4, 4, 2), (6, 3, 1), (6, 6, 1), (10, 10, 1)] {
                let mut ops = vec![Op::Declare { ctrl: 0 }];
                for _ in 0..posts {
                    ops.push(Op::Post { link: 0, txn: TxnRef::Slot(0), frames, settled: false, state_on_all: true, abort_first: false });
                }
                ops.push(Op::Discharge { ctrl: 0, txn: TxnRef::Slot(0), fail });
                corpus.push(Case { ctrl_links: 1, data_links: 1, ops, interleave: vec![], repeat_tag: false, listener_window: 2048, listener_credit: Some(credit) });
            }
        }
        // the controller's link is closed without a discharge: the same, by another road
        let mut ops = vec![Op::Declare { ctrl: 0 }];
        for _ in 0..4 {
            ops.push(Op::Post { link: 0, txn: TxnRef::Slot(0), frames: 1, settled: false, state_on_all: true, abort_first: false });
        }
        ops.push(Op::CtrlGone { ctrl: 0, closed: true });
        corpus.push(Case { ctrl_links: 1, data_links: 1, ops, interleave: vec![], repeat_tag: false, listener_window: 2048, listener_credit: Some(4) });
    }
    let mut route_lines: Vec<String> = vec![];
    let mut route_want: Vec<Vec<char>> = vec![];
    let mut route_cases: Vec<J> = vec![];
    let n: u64 = if prop == "C09" { 0 } else if opts.thorough() { 4000 } else { 300 };
    for k in 0..(n + corpus.len() as u64) {
        let case = if (k as usize) < corpus.len() { corpus[k as usize].clone() } else { gen_case(&mut rng, k % 4 == 3) };
        if !case.interleave.is_empty() {
            report.count("cases_with_alternating_frames_of_two_links");
        }
        report.evaluations += 1;
        report.count_n("ops_retirement", case.ops.iter().filter(|o| matches!(o, Op::Retire { .. })).count() as u64);
        report.count_n("ops_aborted_attempt", case.ops.iter().filter(|o| matches!(o, Op::Aborted { .. })).count() as u64);
        report.count_n("ops_aborted_attempt_abort_frame_with_more", case.ops.iter().filter(|o| matches!(o, Op::Aborted { more: true, .. })).count() as u64);
        if case.repeat_tag {
            report.count("cases_whose_continuation_transfers_repeat_the_tag");
        }
        let has_txn_post = case.ops.iter().any(|o| matches!(o, Op::Post { txn: TxnRef::Slot(_), .. }));
        let has_end = case.ops.iter().any(|o| matches!(o, Op::Discharge { .. } | Op::CtrlGone { .. }));
        if has_txn_post && has_end {
            report.nontrivial_case(fnv(&case.to_json().to_string()));
        }
        match run_case(&case) {
            Ok(obs) => {
                for o in &obs.outs {
                    report.count(match o.chars().next() {
                        Some('D') => "declared",
                        Some('A') => "discharge_accepted",
                        Some('R') => "discharge_rejected",
                        Some('B') => "post_withheld",
                        Some('V') => "post_delivered",
                        Some('S') => "session_ended_with_error",
                        _ => "other",
                    });
                }
                report.count_n("listener_flows_judged_for_next_incoming_id", obs.flows.len() as u64);
                report.count_n("link_credit_views_judged_after_discharge", obs.link_credit_view.len() as u64);
                if k < 3 {
                    report.sample(json!({"resource": case.to_json(), "outs": obs.outs}));
                }
                if let Some((key, desc)) = check(&case, &obs) {
                    report.finding(Finding { kind: "violation", key: format!("resource:{}", key), description: desc, replay: json!({"property": prop, "module": "txn", "resource": case.to_json()}) });
                }
                let (l, i) = model_line(&case, &obs);
                lines.push(l);
                imp.push(i);
                cases_of_line.push(case.to_json());
                links_of_line.push(case.data_links);
                // the routing model: per transfer written, withheld (under which transaction) or handed on.  What
                // can be seen of that from outside is per delivery: a post that was answered with a transactional
                // outcome had all its frames withheld, one that was answered with `accepted` (or delivered at once)
                // none; only runs in which the session stayed up are looked at (the model takes every id for live)
                if !obs.frame_log.is_empty() && !obs.outs.iter().any(|o| o.starts_with("SE") || o.starts_with('?') && o.len() > 1) {
                    let mut want = vec![];
                    for (op, _) in &obs.frame_log {
                        let is_attempt = matches!(case.ops.get(*op), Some(Op::Aborted { txn, .. }) if *txn != TxnRef::None);
                        let plain_attempt = matches!(case.ops.get(*op), Some(Op::Aborted { txn: TxnRef::None, .. }));
                        want.push(match obs.outs.get(*op).map(|x| x.as_str()) {
                            Some("B") => 'W',
                            Some("V") => 'D',
                            // an aborted attempt under a live transaction is withheld; declare / discharge messages are plain
                            _ if is_attempt => 'W',
                            _ if plain_attempt => 'D',
                            Some(o) if o.starts_with('D') || o == "A" || o.starts_with('R') => 'D',
                            _ => '?',
                        });
                    }
                    route_lines.push(format!("T route {}", obs.frame_log.iter().map(|x| x.1.clone()).collect::<Vec<_>>().join(" ")));
                    route_want.push(want);
                    route_cases.push(case.to_json());
                }
            }
            Err(e) => report.finding(Finding { kind: "violation", key: "resource:scenario-failed".into(), description: e, replay: json!({"property": prop, "module": "txn", "resource": case.to_json()}) }),
        }
    }
    // fixed cases first: a rejected discharge followed by another call (the dropped transaction is rolled back
    // in between: fixed c301b9c, its answer was taken for the outcome of the next call)
    let fixed: Vec<CCase> = vec![
        CCase { owned: false, ops: vec![COp::Declare { reject: false }, COp::Rollback { txn: 0, reject: true }, COp::Declare { reject: false }] },
        CCase { owned: false, ops: vec![COp::Declare { reject: false }, COp::Post { txn: 0, size: 700 }, COp::Commit { txn: 0, reject: true }, COp::Declare { reject: false }, COp::Post { txn: 1, size: 5 }, COp::Commit { txn: 1, reject: false }] },
        CCase { owned: true, ops: vec![COp::Declare { reject: false }, COp::Post { txn: 0, size: 700 }, COp::Commit { txn: 0, reject: false }, COp::Declare { reject: true }, COp::Declare { reject: false }, COp::Rollback { txn: 2, reject: false }] },
    ];
    let nc: u64 = if opts.thorough() { 2000 } else { 200 };
    for k in 0..(nc + fixed.len() as u64) {
        let case = if (k as usize) < fixed.len() { fixed[k as usize].clone() } else { gen_ccase(&mut rng) };
        report.evaluations += 1;
        match run_ccase(&case) {
            Ok(obs) => {
                report.count_n("controller_calls", obs.results.len() as u64);
                if k < 2 {
                    report.sample(json!({"controller": ccase_json(&case), "wire": obs.wire, "results": obs.results}));
                }
                if let Some((key, desc)) = check_ccase(&case, &obs) {
                    report.finding(Finding { kind: "violation", key, description: desc, replay: json!({"property": prop, "module": "txn", "controller": ccase_json(&case)}) });
                }
            }
            Err(e) => report.finding(Finding { kind: "violation", key: "controller:scenario-failed".into(), description: e, replay: json!({"property": prop, "module": "txn", "controller": ccase_json(&case)}) }),
        }
    }
    if driver_available() {
        match run_driver(&lines) {
            Ok(model) => {
                report.model_used = true;
                report.model_lines = model.len() as u64;
                let mut bad = 0;
                for i in 0..model.len().min(imp.len()) {
                    if canon(&model[i], links_of_line[i]) != canon(&imp[i], links_of_line[i]) {
                        if bad == 0 {
                            report.finding(Finding { kind: "disagreement", key: "model-vs-implementation".into(), description: format!("{} -> implementation [{}] model [{}]", lines[i], imp[i], model[i]), replay: json!({"property": prop, "module": "txn", "resource": cases_of_line[i], "line": lines[i], "implementation": imp[i], "model": model[i]}) });
                        }
                        bad += 1;
                    }
                }
                report.count_n("lines_disagreeing_with_model", bad);
            }
            Err(e) => report.notes.push(format!("model driver failed: {}", e)),
        }
        match run_driver(&route_lines) {
            Ok(model) => {
                report.model_lines += model.len() as u64;
                let mut bad = 0u64;
                let mut frames = 0u64;
                let mut withheld = 0u64;
                for i in 0..model.len().min(route_want.len()) {
                    let got: Vec<char> = model[i].split(' ').map(|w| w.chars().next().unwrap_or('?')).collect();
                    let want = &route_want[i];
                    frames += want.len() as u64;
                    withheld += want.iter().filter(|c| **c == 'W').count() as u64;
                    let differs = got.len() != want.len() || got.iter().zip(want.iter()).any(|(g, w)| *w != '?' && g != w);
                    if differs {
                        if bad == 0 {
                            report.finding(Finding { kind: "disagreement", key: "route-model-vs-implementation".into(), description: format!("{} -> the model routes the transfers [{}], the outcomes the peer saw say [{}] (W = withheld under a transaction, D = handed to the link)", route_lines[i], model[i], want.iter().collect::<String>()), replay: json!({"property": prop, "module": "txn", "resource": route_cases[i], "line": route_lines[i], "model": model[i], "implementation": want.iter().collect::<String>()}) });
                        }
                        bad += 1;
                    }
                }
                report.count_n("route_lines_compared", model.len() as u64);
                report.count_n("route_frames_compared", frames);
                report.count_n("route_frames_withheld", withheld);
                report.count_n("route_lines_disagreeing_with_model", bad);
            }
            Err(e) => report.notes.push(format!("model driver failed on the route lines: {}", e)),
        }
    } else {
        report.notes.push("model driver not available: correspondence skipped".into());
    }
    report.write(&opts.report);
    println!("txn: {} cases, {} non-trivial, {} findings", report.evaluations, report.nontrivial.len(), report.findings.len());
}
