//! Shared plumbing: deterministic PRNG, Lean driver process, report file.

use std::collections::BTreeMap;
use std::io::{BufRead, BufReader, Write};
use std::process::{Child, Command, Stdio};

use serde_json::{json, Value as J};

/// splitmix64 — every random choice of a run derives from one state
#[derive(Clone)]
pub struct Rng(pub u64);

impl Rng {
    pub fn new(seed: u64) -> Self {
        Rng(seed ^ 0x9E37_79B9_7F4A_7C15)
    }
    pub fn next(&mut self) -> u64 {
        self.0 = self.0.wrapping_add(0x9E37_79B9_7F4A_7C15);
        let mut z = self.0;
        z = (z ^ (z >> 30)).wrapping_mul(0xBF58_476D_1CE4_E5B9);
        z = (z ^ (z >> 27)).wrapping_mul(0x94D0_49BB_1331_11EB);
        z ^ (z >> 31)
    }
    pub fn below(&mut self, n: u64) -> u64 {
        if n == 0 {
            0
        } else {
            self.next() % n
        }
    }
    pub fn range(&mut self, lo: u64, hi_incl: u64) -> u64 {
        lo + self.below(hi_incl - lo + 1)
    }
    pub fn chance(&mut self, num: u64, den: u64) -> bool {
        self.below(den) < num
    }
    pub fn pick<'a, T>(&mut self, xs: &'a [T]) -> &'a T {
        &xs[self.below(xs.len() as u64) as usize]
    }
    pub fn fork(&mut self) -> Rng {
        Rng(self.next())
    }
}

/// The Lean model driver (`lean/.lake/build/bin/driver`) as a batch function:
/// all lines in, all lines out.
pub fn run_driver(lines: &[String]) -> Result<Vec<String>, String> {
    let path = std::env::var("VERIF_DRIVER").unwrap_or_else(|_| "/verif/lean/.lake/build/bin/driver".to_string());
    let mut child: Child = Command::new(&path)
        .stdin(Stdio::piped())
        .stdout(Stdio::piped())
        .stderr(Stdio::inherit())
        .spawn()
        .map_err(|e| format!("cannot start model driver {}: {}", path, e))?;
    let mut stdin = child.stdin.take().unwrap();
    let input = lines.join("\n") + "\n";
    let writer = std::thread::spawn(move || {
        let _ = stdin.write_all(input.as_bytes());
    });
    let stdout = child.stdout.take().unwrap();
    let mut out = Vec::with_capacity(lines.len());
    for l in BufReader::new(stdout).lines() {
        out.push(l.map_err(|e| e.to_string())?);
    }
    let _ = writer.join();
    let status = child.wait().map_err(|e| e.to_string())?;
    if !status.success() {
        return Err(format!("model driver exited with {}", status));
    }
    if out.len() != lines.len() {
        return Err(format!("model driver answered {} lines for {} inputs", out.len(), lines.len()));
    }
    Ok(out)
}

pub fn driver_available() -> bool {
    let path = std::env::var("VERIF_DRIVER").unwrap_or_else(|_| "/verif/lean/.lake/build/bin/driver".to_string());
    std::env::var("VERIF_NO_MODEL").is_err() && std::path::Path::new(&path).exists()
}

/// A property violation found on the implementation, or a model/implementation disagreement.
#[derive(Clone, Debug)]
pub struct Finding {
    /// `violation` (implementation breaks the property) or `disagreement` (model ≠ implementation)
    pub kind: &'static str,
    /// stable key identifying the failing input class (matched against known_findings.txt)
    pub key: String,
    pub description: String,
    /// self-contained replay (input / op sequence / both outputs)
    pub replay: J,
}

#[derive(Default)]
pub struct Report {
    pub property: String,
    pub evaluations: u64,
    pub nontrivial: std::collections::BTreeSet<u64>,
    pub rule: String,
    pub samples: Vec<J>,
    pub distribution: BTreeMap<String, u64>,
    pub findings: Vec<Finding>,
    pub model_lines: u64,
    pub model_used: bool,
    pub notes: Vec<String>,
    pub extra: BTreeMap<String, J>,
}

impl Report {
    pub fn new(property: &str, rule: &str) -> Self {
        Report {
            property: property.to_string(),
            rule: rule.to_string(),
            ..Default::default()
        }
    }
    pub fn count(&mut self, key: &str) {
        *self.distribution.entry(key.to_string()).or_insert(0) += 1;
    }
    pub fn count_n(&mut self, key: &str, n: u64) {
        *self.distribution.entry(key.to_string()).or_insert(0) += n;
    }
    pub fn sample(&mut self, s: J) {
        if self.samples.len() < 6 {
            self.samples.push(s);
        }
    }
    pub fn nontrivial_case(&mut self, hash: u64) {
        self.nontrivial.insert(hash);
    }
    pub fn finding(&mut self, f: Finding) {
        // keep one finding per key (the first, which is the smallest after shrinking order)
        if !self.findings.iter().any(|g| g.key == f.key && g.kind == f.kind) {
            self.findings.push(f);
        }
    }
    pub fn to_json(&self) -> J {
        json!({
            "property": self.property,
            "evaluations": self.evaluations,
            "distinct_nontrivial": self.nontrivial.len(),
            "rule": self.rule,
            "samples": self.samples,
            "distribution": self.distribution,
            "model_lines": self.model_lines,
            "model_used": self.model_used,
            "notes": self.notes,
            "extra": self.extra,
            "findings": self.findings.iter().map(|f| json!({
                "kind": f.kind, "key": f.key, "description": f.description, "replay": f.replay
            })).collect::<Vec<_>>(),
        })
    }
    pub fn write(&self, path: &str) {
        std::fs::write(path, serde_json::to_string_pretty(&self.to_json()).unwrap()).expect("write report");
    }
}

pub fn fnv(s: &str) -> u64 {
    let mut h: u64 = 0xcbf29ce484222325;
    for b in s.bytes() {
        h ^= b as u64;
        h = h.wrapping_mul(0x100000001b3);
    }
    h
}

pub fn hex(bs: &[u8]) -> String {
    let mut s = String::with_capacity(bs.len() * 2);
    for b in bs {
        s.push_str(&format!("{:02x}", b));
    }
    s
}

pub fn unhex(s: &str) -> Option<Vec<u8>> {
    if s.len() % 2 != 0 {
        return None;
    }
    (0..s.len() / 2).map(|i| u8::from_str_radix(&s[2 * i..2 * i + 2], 16).ok()).collect()
}

/// Options common to every sub-command
pub struct Opts {
    pub tier: String,
    pub seed: u64,
    pub report: String,
    pub replay: Option<String>,
    /// property id the run is made for (a module may serve several)
    pub property: String,
}

impl Opts {
    pub fn thorough(&self) -> bool {
        self.tier == "thorough"
    }
}

/// delta-debugging style shrinking of an operation list: remove chunks while `fails` stays true
pub fn shrink_list<T: Clone>(ops: &[T], fails: &mut dyn FnMut(&[T]) -> bool) -> Vec<T> {
    let mut cur: Vec<T> = ops.to_vec();
    let mut chunk = cur.len() / 2;
    while chunk >= 1 {
        let mut i = 0;
        let mut progressed = false;
        while i + chunk <= cur.len() {
            let mut cand = cur.clone();
            cand.drain(i..i + chunk);
            if fails(&cand) {
                cur = cand;
                progressed = true;
            } else {
                i += chunk;
            }
        }
        if !progressed || chunk == 1 {
            if chunk == 1 && !progressed {
                break;
            }
        }
        chunk = if chunk > 1 { chunk / 2 } else if progressed { 1 } else { 0 };
        if chunk == 0 {
            break;
        }
    }
    cur
}
