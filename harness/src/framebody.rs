//! C06 — what the frame decoder makes of one frame: `frames::amqp::FrameDecoder::decode` on
//! `header ++ performative ++ payload`.  Oracle (from the property: the peer recovers exactly the frames
//! written): the channel, the performative and — for a transfer — exactly the bytes that follow the
//! performative come back, whatever those bytes look like; a body-less frame is the empty frame.
//! Correspondence: the model `Amqp.FrameBody.decodeFrame` on the same bytes (`G frame <hex>`), also on
//! frames cut short and on frames with a damaged header.

use bytes::BytesMut;
use fe2o3_amqp::frames::amqp::{Frame, FrameBody, FrameDecoder};
use fe2o3_amqp_types::performatives::Performative;
use serde_json::json;
use tokio_util::codec::Decoder;

use crate::common::*;
use crate::typed::{show_tv, Gen, Tree};

fn body_perf(b: FrameBody) -> (Option<Performative>, Option<Vec<u8>>) {
    match b {
        FrameBody::Open(p) => (Some(Performative::Open(p)), None),
        FrameBody::Begin(p) => (Some(Performative::Begin(p)), None),
        FrameBody::Attach(p) => (Some(Performative::Attach(p)), None),
        FrameBody::Flow(p) => (Some(Performative::Flow(p)), None),
        FrameBody::Transfer { performative, payload } => (Some(Performative::Transfer(performative)), Some(payload.to_vec())),
        FrameBody::Disposition(p) => (Some(Performative::Disposition(p)), None),
        FrameBody::Detach(p) => (Some(Performative::Detach(p)), None),
        FrameBody::End(p) => (Some(Performative::End(p)), None),
        FrameBody::Close(p) => (Some(Performative::Close(p)), None),
        FrameBody::Empty => (None, None),
    }
}

fn hexd(b: &[u8]) -> String {
    if b.is_empty() {
        ".".into()
    } else {
        hex(b)
    }
}

/// the implementation's answer in the driver's words
fn decode_real(frame: &[u8]) -> String {
    let mut src = BytesMut::from(frame);
    let r = std::panic::catch_unwind(std::panic::AssertUnwindSafe(|| FrameDecoder {}.decode(&mut src)));
    match r {
        Err(_) => "panic".into(),
        Ok(Err(_)) => "ERR".into(),
        Ok(Ok(None)) => "NONE".into(),
        Ok(Ok(Some(Frame { channel, body }))) => match body_perf(body) {
            (None, _) => format!("F {} empty", channel),
            (Some(p), Some(payload)) => format!("F {} T {} {}", channel, show_tv(&p.tv()), hexd(&payload)),
            (Some(p), None) => format!("F {} O {}", channel, show_tv(&p.tv())),
        },
    }
}

pub fn main(opts: &Opts) {
    let mut report = Report::new("C06", "FrameDecoder::decode on header ++ performative ++ payload for generated performatives of all nine kinds, payloads of every shape (empty, random, another performative's encoding), frames cut short and frames with a damaged header; judged against what was written and compared with the model Amqp.FrameBody");
    let mut rng = Rng::new(opts.seed ^ 0xf4a3eb0d);
    let n = if opts.thorough() { 8000 } else { 1200 };
    let prev_hook = std::panic::take_hook();
    std::panic::set_hook(Box::new(|_| {}));
    let mut lines = vec![];
    let mut expect: Vec<(String, bool, serde_json::Value)> = vec![];
    for k in 0..n {
        let perf = if rng.chance(2, 5) { Performative::Transfer(Gen::generate(&mut rng, 2)) } else { Performative::generate(&mut rng, 2) };
        let Ok(enc) = serde_amqp::to_vec(&perf) else { continue };
        let ch = match rng.below(4) {
            0 => 0u16,
            1 => 65535,
            _ => rng.next() as u16,
        };
        let is_transfer = matches!(perf, Performative::Transfer(_));
        let tail: Vec<u8> = match rng.below(5) {
            0 => vec![],
            1 => serde_amqp::to_vec(&Performative::generate(&mut rng, 1)).unwrap_or_default(),
            2 => vec![0x00, 0x53, 0x14, 0xc0],
            _ => {
                let l = rng.below(40) as usize;
                (0..l).map(|_| rng.next() as u8).collect()
            }
        };
        let mut frame = vec![2u8, 0, (ch >> 8) as u8, ch as u8];
        frame.extend_from_slice(&enc);
        frame.extend_from_slice(&tail);
        report.evaluations += 1;
        report.count(if is_transfer { "transfer" } else { "other" });
        if !tail.is_empty() {
            report.nontrivial_case(fnv(&hex(&frame)));
        }
        let replay = json!({"property": "C06", "module": "framebody", "frame": hex(&frame), "performative": format!("{:?}", perf).chars().take(300).collect::<String>(), "tail": hex(&tail)});
        let got = decode_real(&frame);
        let want = if is_transfer { format!("F {} T {} {}", ch, show_tv(&perf.tv()), hexd(&tail)) } else { format!("F {} O {}", ch, show_tv(&perf.tv())) };
        if got != want {
            let key = if is_transfer { "frame-decoded-differs:transfer" } else { "frame-decoded-differs:other" };
            report.finding(Finding { kind: "violation", key: key.into(), description: format!("the frame {} (channel {}, a {} followed by {} bytes) decodes to `{}`; written was `{}`", hex(&frame), ch, if is_transfer { "transfer" } else { "performative" }, tail.len(), got.chars().take(400).collect::<String>(), want.chars().take(400).collect::<String>()), replay: replay.clone() });
        }
        lines.push(format!("G frame {}", hex(&frame)));
        expect.push((got, true, replay.clone()));
        // the same performative as a peer may write it (descriptor by name, trailing nulls kept, defaults written
        // out, wider or narrower constructors): the payload still begins where the performative ends
        if k % 2 == 0 {
            let regs = crate::typed::registry();
            let mut note = vec![];
            let mut r = rng.fork();
            let tree = crate::typed::spec_tree(&perf.tv(), &regs, Some(&mut r), &mut note);
            let mut choices = String::new();
            let mut modelled = true;
            let vb = crate::specenc::ref_enc(&tree, &mut r, &mut choices, &mut modelled);
            let zero_width = !modelled && ["!41", "!42", "!43", "!44"].iter().any(|m| choices.contains(m));
            if !zero_width {
                let mut vf = vec![2u8, 0, (ch >> 8) as u8, ch as u8];
                vf.extend_from_slice(&vb);
                vf.extend_from_slice(&tail);
                report.evaluations += 1;
                report.count(if is_transfer { "transfer-as-a-peer-writes-it" } else { "other-as-a-peer-writes-it" });
                report.nontrivial_case(fnv(&hex(&vf)));
                let got = decode_real(&vf);
                if got != want {
                    let key = if is_transfer { "frame-decoded-differs:transfer-variant" } else { "frame-decoded-differs:other-variant" };
                    report.finding(Finding { kind: "violation", key: key.into(), description: format!("the frame {} (channel {}, the performative written with the choices {} and followed by {} bytes) decodes to `{}`; written was `{}`", hex(&vf), ch, note.join(","), tail.len(), got.chars().take(400).collect::<String>(), want.chars().take(400).collect::<String>()), replay: json!({"property": "C06", "module": "framebody", "frame": hex(&vf), "choices": note, "tail": hex(&tail)}) });
                }
                if modelled {
                    lines.push(format!("G frame {}", hex(&vf)));
                    expect.push((got, true, replay.clone()));
                }
            }
        }
        // the same frame cut short, and with one header octet changed
        if k % 3 == 0 {
            let cut = rng.below(frame.len() as u64) as usize;
            let f2 = frame[..cut].to_vec();
            report.evaluations += 1;
            report.count("cut-short");
            lines.push(format!("G frame {}", if f2.is_empty() { "-".to_string() } else { hex(&f2) }));
            expect.push((decode_real(&f2), false, json!({"property": "C06", "module": "framebody", "frame": hex(&f2)})));
            let mut f3 = frame.clone();
            let i = rng.below(2) as usize;
            f3[i] = *rng.pick(&[0u8, 1, 2, 3, 255]);
            report.evaluations += 1;
            report.count("header-damaged");
            lines.push(format!("G frame {}", hex(&f3)));
            expect.push((decode_real(&f3), false, json!({"property": "C06", "module": "framebody", "frame": hex(&f3)})));
        }
    }
    // the empty frame on a few channels
    for ch in [0u16, 1, 255, 256, 65535] {
        let frame = vec![2u8, 0, (ch >> 8) as u8, ch as u8];
        report.evaluations += 1;
        let got = decode_real(&frame);
        if got != format!("F {} empty", ch) {
            report.finding(Finding { kind: "violation", key: "empty-frame-not-empty".into(), description: format!("the body-less frame on channel {} decodes to `{}`", ch, got), replay: json!({"property": "C06", "module": "framebody", "frame": hex(&frame)}) });
        }
        lines.push(format!("G frame {}", hex(&frame)));
        expect.push((got, true, json!({"frame": hex(&frame)})));
    }
    std::panic::set_hook(prev_hook);
    if driver_available() {
        match run_driver(&lines) {
            Ok(out) => {
                report.model_used = true;
                report.model_lines = out.len() as u64;
                for ((line, g), (want, strict, rp)) in lines.iter().zip(out.iter()).zip(expect.iter()) {
                    let model_refuses = g == "refused" || g == "undecodable";
                    let real_refuses = want == "ERR";
                    let same = if *strict {
                        g == want
                    } else if model_refuses || real_refuses {
                        // damaged input: the typed decoder of the implementation is more lenient than the model in
                        // documented ways (a composite cut short reads as one with absent fields); header-level
                        // refusals must coincide
                        if g == "refused" && !real_refuses {
                            false
                        } else {
                            report.count(if model_refuses && real_refuses { "damaged:both-refuse" } else if model_refuses { "damaged:implementation-only-accepts" } else { "damaged:model-only-accepts" });
                            true
                        }
                    } else {
                        report.count("damaged:both-accept");
                        g == want
                    };
                    if !same || g == "panic" || want == "panic" {
                        report.finding(Finding { kind: "disagreement", key: "framebody-model".into(), description: format!("{}: model `{}`, implementation `{}`", line, g.chars().take(300).collect::<String>(), want.chars().take(300).collect::<String>()), replay: json!({"line": line, "model": g, "implementation": want, "case": rp}) });
                    }
                }
            }
            Err(e) => report.notes.push(format!("model driver failed: {}", e)),
        }
    } else {
        report.notes.push("model driver not available: correspondence not run".into());
    }
    report.write(&opts.report);
    println!("framebody: {} cases, {} non-trivial, {} findings", report.evaluations, report.nontrivial.len(), report.findings.len());
}
