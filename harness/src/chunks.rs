//! C01 / C10 / C20 — the reader over the payloads of a delivery's frames (`util::ByteReader`,
//! `Vec<Payload>::into_reader()`) and the byte iterator over them.  Oracle (from the property: what is
//! decoded does not depend on how the delivery was cut): every `read` copies the next bytes of the
//! concatenation and reports how many, `read_exact` fails exactly when too few are left, the iterator
//! yields the concatenation; a value / message decoded from the chunks equals the one decoded from the
//! concatenation, for every cut.  Correspondence: the model `Amqp.Chunks` on the same chunks and sizes
//! (`O read …`, `O exact …`, `O iter …`).

use bytes::Bytes;
use fe2o3_amqp::verif;
use fe2o3_amqp_types::messaging::{message::__private::Deserializable, Body, Message};
use serde::Deserialize;
use serde_amqp::Value;
use serde_json::json;

use crate::common::*;

fn chunk_word(c: &[u8]) -> String {
    if c.is_empty() {
        ".".into()
    } else {
        hex(c)
    }
}

fn chunks_word(cs: &[Vec<u8>]) -> String {
    if cs.is_empty() {
        "-".into()
    } else {
        cs.iter().map(|c| chunk_word(c)).collect::<Vec<_>>().join(",")
    }
}

fn payloads(cs: &[Vec<u8>]) -> Vec<Bytes> {
    cs.iter().map(|c| Bytes::from(c.clone())).collect()
}

/// cuts `data` at random places into 1..=max pieces (empty pieces allowed)
fn cut(rng: &mut Rng, data: &[u8], max: usize) -> Vec<Vec<u8>> {
    let n = 1 + rng.below(max as u64) as usize;
    let mut at: Vec<usize> = (0..n - 1).map(|_| rng.below(data.len() as u64 + 1) as usize).collect();
    at.sort();
    let mut out = vec![];
    let mut prev = 0;
    for a in at {
        out.push(data[prev..a].to_vec());
        prev = a;
    }
    out.push(data[prev..].to_vec());
    out
}

pub fn main(opts: &Opts) {
    let pid = if opts.property.is_empty() { "C10".to_string() } else { opts.property.clone() };
    let mut report = Report::new(&pid, "ByteReader over random chunk lists: sequences of read / read_exact with random destination sizes and the byte iterator, judged against the concatenation of the chunks and compared with the model Amqp.Chunks; values and messages decoded from every kind of cut of their encoding compared with the decoding of the whole");
    let mut rng = Rng::new(opts.seed ^ 0xc4a2c5);
    let n = if opts.thorough() { 30000 } else { 3000 };
    let mut lines = vec![];
    let mut expect: Vec<(String, serde_json::Value)> = vec![];
    for k in 0..n {
        let nch = match rng.below(8) {
            0 => 0,
            1 => 1,
            _ => 1 + rng.below(6) as usize,
        };
        let cs: Vec<Vec<u8>> = (0..nch)
            .map(|_| {
                let l = match rng.below(5) {
                    0 => 0,
                    1 => 1,
                    _ => rng.below(12) as usize,
                };
                (0..l).map(|_| rng.next() as u8).collect()
            })
            .collect();
        let concat: Vec<u8> = cs.concat();
        let nreads = 1 + rng.below(6) as usize;
        let sizes: Vec<usize> = (0..nreads)
            .map(|_| match rng.below(6) {
                0 => 0,
                1 => 1,
                2 => concat.len(),
                3 => concat.len() + 1 + rng.below(3) as usize,
                _ => rng.below(concat.len() as u64 + 3) as usize,
            })
            .collect();
        report.evaluations += 1;
        if nch >= 2 && cs.iter().any(|c| c.is_empty()) || k % 2 == 0 {
            report.nontrivial_case(fnv(&format!("{:?}{:?}", cs, sizes)));
        }
        let replay = json!({"property": pid, "module": "chunks", "chunks": cs.iter().map(|c| hex(c)).collect::<Vec<_>>(), "sizes": sizes});
        // --- read
        let (got, lens) = verif::chunk_reader_reads(payloads(&cs), &sizes);
        let mut pos = 0usize;
        let mut words = vec![];
        for ((bytes, count), n) in got.iter().zip(sizes.iter()) {
            let want = &concat[pos..(pos + n).min(concat.len())];
            if bytes.as_slice() != want || *count != want.len() {
                report.finding(Finding { kind: "violation", key: "chunk-read-is-not-the-concatenation".into(), description: format!("chunks {} read with destinations {:?}: a read of {} bytes at offset {} copied {} and returned {}, the concatenation has {} there", chunks_word(&cs), sizes, n, pos, chunk_word(bytes), count, chunk_word(want)), replay: replay.clone() });
            }
            pos += want.len();
            words.push(format!("{}/{}", chunk_word(bytes), count));
        }
        if lens.iter().sum::<usize>() != concat.len() - pos {
            report.finding(Finding { kind: "violation", key: "chunk-read-loses-bytes".into(), description: format!("chunks {} after reads {:?}: {} bytes left in the chunks, {} expected", chunks_word(&cs), sizes, lens.iter().sum::<usize>(), concat.len() - pos), replay: replay.clone() });
        }
        lines.push(format!("O read {} {}", chunks_word(&cs), sizes.iter().map(|s| s.to_string()).collect::<Vec<_>>().join(" ")));
        expect.push((format!("{} [{}]", words.join(" "), lens.iter().map(|l| l.to_string()).collect::<Vec<_>>().join(",")), replay.clone()));
        // --- read_exact
        let got = verif::chunk_reader_read_exact(payloads(&cs), &sizes);
        let mut pos = 0usize;
        let mut words = vec![];
        for (r, n) in got.iter().zip(sizes.iter()) {
            let enough = pos + n <= concat.len();
            match r {
                Some(bytes) => {
                    if !enough || bytes.as_slice() != &concat[pos..pos + n] {
                        report.finding(Finding { kind: "violation", key: "chunk-read-exact-is-not-the-concatenation".into(), description: format!("chunks {} read_exact {:?}: {} bytes at offset {} gave {}", chunks_word(&cs), sizes, n, pos, chunk_word(bytes)), replay: replay.clone() });
                    }
                    pos += n;
                    words.push(chunk_word(bytes));
                }
                None => {
                    if enough {
                        report.finding(Finding { kind: "violation", key: "chunk-read-exact-fails-with-enough-bytes".into(), description: format!("chunks {} read_exact {:?}: {} bytes at offset {} failed although {} are left", chunks_word(&cs), sizes, n, pos, concat.len() - pos), replay: replay.clone() });
                    }
                    words.push("E".into());
                }
            }
        }
        lines.push(format!("O exact {} {}", chunks_word(&cs), sizes.iter().map(|s| s.to_string()).collect::<Vec<_>>().join(" ")));
        expect.push((words.join(" "), replay.clone()));
        // --- iterator
        let (fwd, bwd, len) = verif::chunk_byte_iterator(&payloads(&cs));
        let mut rev = concat.clone();
        rev.reverse();
        if fwd != concat || bwd != rev || len != concat.len() {
            report.finding(Finding { kind: "violation", key: "chunk-iterator-is-not-the-concatenation".into(), description: format!("chunks {}: forward {}, backward {}, len {}", chunks_word(&cs), chunk_word(&fwd), chunk_word(&bwd), len), replay: replay.clone() });
        }
        lines.push(format!("O iter {}", chunks_word(&cs)));
        expect.push((format!("{} #{}", chunk_word(&fwd), len), replay));
    }
    // --- whole values and messages decoded from every kind of cut
    let nv = if opts.thorough() { 4000 } else { 400 };
    for k in 0..nv {
        let v = crate::codec::gen_value(&mut rng, 3, false);
        let Ok(enc) = serde_amqp::to_vec(&v) else { continue };
        let whole: Result<Value, _> = serde_amqp::from_slice(&enc);
        let cuts: Vec<Vec<Vec<u8>>> = vec![
            enc.iter().map(|b| vec![*b]).collect(),
            cut(&mut rng, &enc, 2),
            cut(&mut rng, &enc, 5),
            cut(&mut rng, &enc, 12),
        ];
        for cs in cuts {
            report.evaluations += 1;
            report.count("value-from-chunks");
            let reader = verif::chunk_reader(payloads(&cs));
            let mut de = serde_amqp::de::Deserializer::new(reader);
            let got = std::panic::catch_unwind(std::panic::AssertUnwindSafe(|| Value::deserialize(&mut de)));
            let same = match (&whole, &got) {
                (Ok(a), Ok(Ok(b))) => a == b,
                (Err(_), Ok(Err(_))) => true,
                _ => false,
            };
            if !same {
                report.finding(Finding { kind: "violation", key: "decoded-from-chunks-differs".into(), description: format!("{} cut as {}: from the whole {:?}, from the chunks {:?}", hex(&enc), chunks_word(&cs), whole.as_ref().map(|_| "a value").map_err(|e| e.to_string()), got.as_ref().map(|r| r.as_ref().map(|_| "another value").map_err(|e| e.to_string())).map_err(|_| "panic")), replay: json!({"property": pid, "module": "chunks", "encoding": hex(&enc), "chunks": cs.iter().map(|c| hex(c)).collect::<Vec<_>>()}) });
            }
            if k % 4 == 0 {
                report.nontrivial_case(fnv(&chunks_word(&cs)));
            }
        }
    }
    let nm = if opts.thorough() { 600 } else { 120 };
    for _ in 0..nm {
        let case = crate::delivery::gen_case(&mut rng, false);
        for k in 0..case.sizes.len().min(3) {
            if case.sizes[k] > 6000 {
                continue;
            }
            let m = crate::delivery::message_of(&case, k);
            let enc = serde_amqp::to_vec(&fe2o3_amqp_types::messaging::message::__private::Serializable(m.clone())).expect("encode");
            for max in [2usize, 4, 9] {
                let cs = cut(&mut rng, &enc, max);
                report.evaluations += 1;
                report.count("message-from-chunks");
                let reader = verif::chunk_reader(payloads(&cs));
                let mut de = serde_amqp::de::Deserializer::new(reader);
                let got = std::panic::catch_unwind(std::panic::AssertUnwindSafe(|| Deserializable::<Message<Body<Value>>>::deserialize(&mut de).map(|d| d.0)));
                let ok = matches!(&got, Ok(Ok(g)) if *g == m);
                if !ok {
                    report.finding(Finding { kind: "violation", key: "message-from-chunks-differs".into(), description: format!("a message of {} bytes cut into pieces of {:?} bytes is not decoded to the message that was encoded: {:?}", enc.len(), cs.iter().map(|c| c.len()).collect::<Vec<_>>(), got.as_ref().map(|r| r.as_ref().map(|_| "another message").map_err(|e| e.to_string())).map_err(|_| "panic")), replay: json!({"property": pid, "module": "chunks", "encoding": hex(&enc), "chunks": cs.iter().map(|c| c.len()).collect::<Vec<_>>()}) });
                }
            }
        }
    }
    if driver_available() {
        match run_driver(&lines) {
            Ok(got) => {
                report.model_used = true;
                report.model_lines = got.len() as u64;
                for ((line, g), (want, rp)) in lines.iter().zip(got.iter()).zip(expect.iter()) {
                    if g != want {
                        report.finding(Finding { kind: "disagreement", key: "chunks-model".into(), description: format!("{}: model `{}`, implementation `{}`", line, g, want), replay: json!({"line": line, "model": g, "implementation": want, "case": rp}) });
                    }
                }
            }
            Err(e) => report.notes.push(format!("model driver failed: {}", e)),
        }
    } else {
        report.notes.push("model driver not available: correspondence not run".into());
    }
    report.write(&opts.report);
    println!("chunks: {} cases, {} non-trivial, {} findings", report.evaluations, report.nontrivial.len(), report.findings.len());
}
