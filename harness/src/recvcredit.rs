//! C09 — receiver link credit.  A real `Receiver` (client side, public API) is
//! attached to a scripted sender peer; flows are observed on the wire.

use std::time::Duration;

use fe2o3_amqp::link::RecvError;
use fe2o3_amqp::link::receiver::CreditMode;
use fe2o3_amqp::link::delivery::DeliveryInfo;
use fe2o3_amqp::{Connection, Receiver, Session};
use fe2o3_amqp_types::definitions::{Handle, ReceiverSettleMode, Role};
use fe2o3_amqp_types::performatives::{Disposition, Flow, Performative};
use serde_amqp::Value;
use serde_json::{json, Value as J};

use crate::common::*;
use crate::peer::*;

#[derive(Clone, Debug, PartialEq)]
pub enum Op {
    InFlow { dc: Option<u32>, echo: bool },
    Arrive { more: bool, aborted: bool },
    Recv,
    /// `recv::<String>()` on a delivery whose body is a binary: the delivery cannot be decoded as what the
    /// application asked for, is reported as such, and has been received all the same
    RecvWrong,
    Dispose(u32),
    SetCredit(u32),
    Drain,
    /// (Manual mode, no credit outstanding, nothing queued) detach without closing and resume; the sender
    /// answers the second attach with this initial delivery-count
    Resume { idc: u32 },
}

#[derive(Clone, Debug, PartialEq)]
pub struct Case {
    pub idc: u32,
    /// Some(n) = Auto(n), None = Manual
    pub auto: Option<u32>,
    pub ops: Vec<Op>,
    /// bit k mod 64: the k-th delivery is sent settled by the sender
    pub settled: u64,
}

fn o(x: Option<u32>) -> i64 {
    x.map(|v| v as i64).unwrap_or(-1)
}

impl Op {
    fn line(&self) -> String {
        match self {
            Op::InFlow { dc, echo } => format!("R inflow {} {}", o(*dc), *echo as u8),
            Op::Arrive { more, aborted } => format!("R arrive {} {}", *more as u8, *aborted as u8),
            Op::Recv => "R recv".into(),
            Op::RecvWrong => "R recvbad".into(),
            Op::Dispose(k) => format!("R dispose {}", k),
            Op::SetCredit(c) => format!("R setcredit {}", c),
            Op::Drain => "R drain".into(),
            Op::Resume { idc } => format!("R resume {}", idc),
        }
    }
}

impl Case {
    pub fn lines(&self) -> Vec<String> {
        let mode = match self.auto {
            Some(n) => format!("a{}", n),
            None => "m".into(),
        };
        let mut v = vec![format!("R init {} {}", self.idc, mode)];
        if let Some(n) = self.auto {
            v.push(format!("R setcredit {}", n));
        }
        v.extend(self.ops.iter().map(|x| x.line()));
        v
    }
    pub fn to_json(&self) -> J {
        json!({"initial_delivery_count": self.idc, "auto": self.auto, "settled": self.settled, "ops": self.ops.iter().map(|x| x.line()).collect::<Vec<_>>()})
    }
    pub fn from_json(j: &J) -> Option<Case> {
        let mut ops = vec![];
        for l in j.get("ops")?.as_array()? {
            let ws: Vec<&str> = l.as_str()?.split_whitespace().collect();
            let num = |s: &str| s.parse::<i64>().ok();
            ops.push(match ws.as_slice() {
                ["R", "inflow", a, b] => Op::InFlow { dc: if num(a)? < 0 { None } else { Some(num(a)? as u32) }, echo: *b == "1" },
                ["R", "arrive", a, b] => Op::Arrive { more: *a == "1", aborted: *b == "1" },
                ["R", "recv"] => Op::Recv,
                ["R", "recvbad"] => Op::RecvWrong,
                ["R", "dispose", k] => Op::Dispose(num(k)? as u32),
                ["R", "setcredit", c] => Op::SetCredit(num(c)? as u32),
                ["R", "drain"] => Op::Drain,
                ["R", "resume", a] => Op::Resume { idc: num(a)? as u32 },
                _ => return None,
            });
        }
        Some(Case { idc: j.get("initial_delivery_count")?.as_u64()? as u32, auto: j.get("auto").and_then(|x| x.as_u64()).map(|x| x as u32), ops, settled: j.get("settled").and_then(|x| x.as_u64()).unwrap_or(0) })
    }
}

/// link flow seen on the wire
#[derive(Clone, Debug, PartialEq)]
pub struct WireFlow {
    pub dc: Option<u32>,
    pub credit: Option<u32>,
    pub drain: bool,
    pub echo: bool,
}

#[derive(Clone, Debug)]
pub struct StepOut {
    pub flows: Vec<WireFlow>,
    /// D / L / N / X…
    pub event: Option<String>,
    pub credit: u32,
}

async fn drain_wire(peer: &mut Peer) -> Vec<WireFlow> {
    let mut flows = vec![];
    let saved = peer.recv_timeout;
    peer.recv_timeout = Duration::from_millis(20);
    loop {
        match peer.recv().await {
            Ok(Incoming::Frame { performative: Performative::Flow(f), .. }) => {
                if f.handle.is_some() {
                    flows.push(WireFlow { dc: f.delivery_count, credit: f.link_credit, drain: f.drain, echo: f.echo });
                }
            }
            Ok(_) => {}
            Err(_) => break,
        }
    }
    peer.recv_timeout = saved;
    flows
}

/// Runs the case; returns one StepOut per model line (init, [setcredit], ops…); stops early
/// after a transfer-limit violation or an unexpected error.
pub fn run_impl(case: &Case) -> Result<Vec<StepOut>, String> {
    let rt = paused_runtime();
    rt.block_on(async {
        let (cio, pio) = tokio::io::duplex(1 << 20);
        let mut peer = Peer::new(pio);
        let mode = match case.auto {
            Some(n) => CreditMode::Auto(n),
            None => CreditMode::Manual,
        };
        let client = tokio::spawn(async move {
            let mut conn = Connection::builder().container_id("c09").open_with_stream(cio).await.map_err(|e| format!("open: {:?}", e))?;
            let mut session = Session::begin(&mut conn).await.map_err(|e| format!("begin: {:?}", e))?;
            let receiver = Receiver::builder()
                .name("c09-receiver")
                .source("q")
                .credit_mode(mode)
                .auto_accept(false)
                .attach(&mut session)
                .await
                .map_err(|e| format!("attach: {:?}", e))?;
            Ok::<_, String>((conn, session, receiver))
        });
        peer.accept_open(&PeerOpen::default()).await.map_err(|e| format!("peer open: {:?}", e))?;
        peer.accept_begin(0, 0, 2048, 2048).await.map_err(|e| format!("peer begin: {:?}", e))?;
        peer.accept_attach(0, 0, Some(case.idc), ReceiverSettleMode::First).await.map_err(|e| format!("peer attach: {:?}", e))?;
        let mut outs = vec![];
        // init line
        let initial_flows = drain_wire(&mut peer).await;
        let (_conn, _session, mut receiver) = client.await.map_err(|e| format!("join: {:?}", e))??;
        outs.push(StepOut { flows: vec![], event: None, credit: if case.auto.is_some() { 0 } else { receiver.credit() } });
        if case.auto.is_some() {
            outs.push(StepOut { flows: initial_flows, event: None, credit: receiver.credit() });
        }

        let mut peer_noi: u32 = 0; // transfer frames sent by the peer
        let mut peer_dc: u32 = case.idc; // the sender's delivery-count
        let mut next_delivery_id: u32 = 0;
        let mut in_delivery = false;
        let mut frame_in_delivery = 0usize;
        let mut msg: Vec<u8> = vec![];
        let mut undisposed: Vec<DeliveryInfo> = vec![];
        for op in &case.ops {
            let mut event = None;
            match op {
                Op::InFlow { dc, echo } => {
                    if let Some(d) = dc {
                        peer_dc = *d;
                    }
                    let f = Flow {
                        next_incoming_id: Some(0),
                        incoming_window: 2048,
                        next_outgoing_id: peer_noi,
                        outgoing_window: 2048,
                        handle: Some(Handle(0)),
                        delivery_count: *dc,
                        link_credit: Some(0),
                        available: None,
                        drain: false,
                        echo: *echo,
                        properties: None,
                    };
                    peer.send(0, Performative::Flow(f), &[]).await.map_err(|e| format!("{:?}", e))?;
                }
                Op::Arrive { more, aborted } => {
                    if !in_delivery {
                        msg = message_bytes(next_delivery_id as u64 + 1, 24);
                        frame_in_delivery = 0;
                    }
                    // three chunks at most; the last frame carries the rest
                    let chunk: Vec<u8> = if *aborted {
                        vec![]
                    } else if *more {
                        let k = (msg.len() / 3).max(1).min(msg.len());
                        msg.drain(..k).collect()
                    } else {
                        std::mem::take(&mut msg)
                    };
                    let mut t = transfer(0, None, None, None, *more);
                    if !in_delivery {
                        t.delivery_id = Some(next_delivery_id);
                        t.delivery_tag = Some(next_delivery_id.to_be_bytes().to_vec().into());
                        t.settled = Some((case.settled >> (next_delivery_id % 64)) & 1 == 1);
                    } else {
                        t.message_format = None;
                    }
                    t.aborted = *aborted;
                    peer.send(0, Performative::Transfer(t), &chunk).await.map_err(|e| format!("{:?}", e))?;
                    peer_noi = peer_noi.wrapping_add(1);
                    frame_in_delivery += 1;
                    let _ = frame_in_delivery;
                    in_delivery = *more && !*aborted;
                    if !in_delivery {
                        next_delivery_id = next_delivery_id.wrapping_add(1);
                        if !*aborted {
                            peer_dc = peer_dc.wrapping_add(1);
                        }
                    }
                }
                Op::Recv => {
                    match tokio::time::timeout(Duration::from_millis(50), receiver.recv::<Value>()).await {
                        Err(_) => event = Some("N".to_string()),
                        Ok(Ok(d)) => {
                            undisposed.push(DeliveryInfo::from(&d));
                            event = Some("D".to_string());
                        }
                        Ok(Err(RecvError::TransferLimitExceeded)) => event = Some("L".to_string()),
                        Ok(Err(e)) => event = Some(format!("X {:?}", e).replace(' ', "_")),
                    }
                }
                Op::RecvWrong => {
                    match tokio::time::timeout(Duration::from_millis(50), receiver.recv::<String>()).await {
                        Err(_) => event = Some("N".to_string()),
                        Ok(Ok(_)) => event = Some("X_a_binary_body_decoded_as_a_string".to_string()),
                        Ok(Err(RecvError::MessageDecode(e))) => {
                            // the error carries what the application needs to dispose of the delivery
                            undisposed.push(e.info);
                            event = Some("M".to_string());
                        }
                        Ok(Err(RecvError::TransferLimitExceeded)) => event = Some("L".to_string()),
                        Ok(Err(e)) => event = Some(format!("X {:?}", e).replace(' ', "_")),
                    }
                }
                Op::Dispose(k) => {
                    let k = (*k as usize).min(undisposed.len());
                    if k == 1 {
                        let info = undisposed.remove(undisposed.len() / 2);
                        receiver.accept(info).await.map_err(|e| format!("accept: {:?}", e))?;
                    } else {
                        // an arbitrary (not necessarily contiguous) subset, out of order
                        let mut batch = vec![];
                        for i in 0..k {
                            let idx = (i * 7) % undisposed.len();
                            batch.push(undisposed.remove(idx));
                        }
                        receiver.accept_all(batch).await.map_err(|e| format!("accept_all: {:?}", e))?;
                    }
                }
                Op::SetCredit(c) => receiver.set_credit(*c).await.map_err(|e| format!("set_credit: {:?}", e))?,
                Op::Drain => receiver.drain().await.map_err(|e| format!("drain: {:?}", e))?,
                Op::Resume { idc } => {
                    let det = tokio::spawn(async move { receiver.detach().await });
                    loop {
                        match peer.recv_frame().await {
                            Ok((_, Performative::Detach(_), _)) => {
                                peer.send(0, Performative::Detach(fe2o3_amqp_types::performatives::Detach { handle: Handle(0), closed: false, error: None }), &[]).await.map_err(|e| format!("{:?}", e))?;
                                break;
                            }
                            Ok(_) => {}
                            Err(e) => return Err(format!("no detach from the receiver: {:?}", e)),
                        }
                    }
                    let detached = det.await.map_err(|e| format!("join: {:?}", e))?.map_err(|(_, e)| format!("detach: {:?}", e))?;
                    let res = tokio::spawn(async move { detached.resume().await });
                    peer.accept_attach(0, 0, Some(*idc), ReceiverSettleMode::First).await.map_err(|e| format!("peer re-attach: {:?}", e))?;
                    receiver = match res.await.map_err(|e| format!("join: {:?}", e))? {
                        Ok(fe2o3_amqp::link::receiver::ResumingReceiver::Complete(r)) | Ok(fe2o3_amqp::link::receiver::ResumingReceiver::IncompleteUnsettled(r)) | Ok(fe2o3_amqp::link::receiver::ResumingReceiver::Resume(r)) => r,
                        Err(e) => return Err(format!("resume: {:?}", e.kind)),
                    };
                    peer_dc = *idc;
                }
            }
            let flows = drain_wire(&mut peer).await;
            let stop = matches!(event.as_deref(), Some(e) if e.starts_with('L') || e.starts_with('X'));
            outs.push(StepOut { flows, event, credit: receiver.credit() });
            if stop {
                break;
            }
        }
        let _ = peer_dc;
        Ok(outs)
    })
}

pub fn render_impl(outs: &[StepOut]) -> Vec<String> {
    outs.iter()
        .map(|s| {
            let mut parts: Vec<String> = s.flows.iter().map(|f| format!("F {} {} {} {}", o(f.dc), o(f.credit), f.drain as u8, f.echo as u8)).collect();
            if let Some(e) = &s.event {
                parts.push(e.clone());
            }
            format!("{} # {}", parts.join(";"), s.credit)
        })
        .collect()
}

/// the property, on the wire and at the API, without the model
pub fn check_property(case: &Case, outs: &[StepOut]) -> Option<(String, String)> {
    let skip = if case.auto.is_some() { 2 } else { 1 };
    // wire-level accounting: the sender's delivery-count as last stated + deliveries arrived since
    let mut ghost: u32 = case.idc;
    let mut queued: u32 = 0; // complete deliveries arrived, not yet handed out
    let mut credit_spec: u32 = 0;
    let mut in_delivery = false;
    let mut undisposed: u32 = 0;
    if let Some(n) = case.auto {
        match outs.get(1).map(|o| o.flows.as_slice()) {
            Some([f]) if f.credit == Some(n) && f.dc == Some(case.idc) => credit_spec = n,
            other => return Some(("initial-credit-flow".into(), format!("Auto({}) attach: flows {:?}", n, other))),
        }
    }
    for (i, op) in case.ops.iter().enumerate() {
        let o = match outs.get(i + skip) {
            Some(o) => o,
            None => break,
        };
        match op {
            Op::InFlow { dc, echo } => {
                if let Some(d) = dc {
                    ghost = *d;
                }
                if *echo != (o.flows.len() == 1) || o.flows.len() > 1 {
                    return Some(("echo".into(), format!("op {} ({}): flows {:?}", i, op.line(), o.flows)));
                }
            }
            Op::Arrive { more, aborted } => {
                if !*more && !*aborted {
                    ghost = ghost.wrapping_add(1);
                    queued += 1;
                }
                in_delivery = *more && !*aborted;
                let _ = in_delivery;
                if !o.flows.is_empty() {
                    return Some(("unexpected-flow".into(), format!("op {} ({}): {:?}", i, op.line(), o.flows)));
                }
            }
            Op::Recv => match o.event.as_deref() {
                Some("D") => {
                    if queued == 0 {
                        return Some(("delivery-from-nothing".into(), format!("op {}: a delivery was returned although none was complete", i)));
                    }
                    if credit_spec == 0 {
                        return Some(("accepted-beyond-credit".into(), format!("op {}: delivery handed out although all issued credit was used", i)));
                    }
                    credit_spec -= 1;
                    queued -= 1;
                    undisposed += 1;
                }
                Some("L") => {
                    if credit_spec > 0 {
                        return Some(("rejected-within-credit".into(), format!("op {}: transfer-limit-exceeded with {} credit left", i, credit_spec)));
                    }
                    return None; // the link is closed by the error; nothing more to check
                }
                Some("N") => {
                    if queued > 0 {
                        return Some(("delivery-withheld".into(), format!("op {}: recv returned nothing with {} complete deliveries queued", i, queued)));
                    }
                }
                other => return Some(("recv-error".into(), format!("op {}: {:?}", i, other))),
            },
            Op::RecvWrong => match o.event.as_deref() {
                Some("M") => {
                    if queued == 0 {
                        return Some(("delivery-from-nothing".into(), format!("op {}: a decode error was reported although no delivery was complete", i)));
                    }
                    if credit_spec == 0 {
                        return Some(("accepted-beyond-credit".into(), format!("op {}: delivery handed out although all issued credit was used", i)));
                    }
                    // received, though the application could not read it: it has used a credit
                    credit_spec -= 1;
                    queued -= 1;
                    undisposed += 1;
                }
                Some("L") => {
                    if credit_spec > 0 {
                        return Some(("rejected-within-credit".into(), format!("op {}: transfer-limit-exceeded with {} credit left", i, credit_spec)));
                    }
                    return None;
                }
                Some("N") => {
                    if queued > 0 {
                        return Some(("delivery-withheld".into(), format!("op {}: recv returned nothing with {} complete deliveries queued", i, queued)));
                    }
                }
                other => return Some(("recv-error".into(), format!("op {}: {:?}", i, other))),
            },
            Op::Dispose(k) => {
                undisposed = undisposed.saturating_sub(*k);
            }
            Op::SetCredit(_) | Op::Drain => {}
            Op::Resume { idc } => {
                ghost = *idc;
            }
        }
        for f in &o.flows {
            // every flow reports delivery-count = last learnt + arrived since - still queued
            let expect = ghost.wrapping_sub(queued);
            if f.dc != Some(expect) {
                return Some((
                    "flow-delivery-count".into(),
                    format!("op {} ({}): flow reports delivery-count {:?}; the sender's is {} with {} deliveries still queued for the application", i, op.line(), f.dc, ghost, queued),
                ));
            }
            if f.credit != Some(o.credit) {
                return Some(("flow-credit".into(), format!("op {} ({}): flow grants {:?} but the receiver holds {}", i, op.line(), f.credit, o.credit)));
            }
            if !matches!(op, Op::InFlow { .. }) {
                credit_spec = f.credit.unwrap_or(0);
            }
        }
        if o.credit != credit_spec {
            return Some(("credit-api".into(), format!("op {} ({}): credit() = {} but issued-minus-used = {}", i, op.line(), o.credit, credit_spec)));
        }
        match (op, case.auto) {
            (Op::SetCredit(c), _) => {
                if !matches!(o.flows.as_slice(), [f] if f.credit == Some(*c) && !f.drain) {
                    return Some(("set-credit-flow".into(), format!("op {}: {:?}", i, o.flows)));
                }
            }
            _ => {}
        }
        // replenishment (Auto mode, no manual interference): once everything handed out has
        // been disposed of, credit must be available
        if let Some(n) = case.auto {
            let manual_ops = case.ops[..=i].iter().any(|x| matches!(x, Op::SetCredit(_) | Op::Drain));
            if n >= 1 && !manual_ops && undisposed == 0 && o.credit == 0 {
                return Some(("stall".into(), format!("op {} ({}): Auto({}) receiver has no credit although the application holds no undisposed delivery", i, op.line(), n)));
            }
        }
    }
    None
}

pub fn gen_case(rng: &mut Rng, max_ops: u64) -> Case {
    let idc = match rng.below(4) {
        0 => 0,
        1 => (u32::MAX as u64 - rng.range(0, 6)) as u32,
        2 => rng.next() as u32,
        _ => rng.range(0, 100) as u32,
    };
    let auto = if rng.chance(2, 3) { Some(*rng.pick(&[1u32, 2, 3, 4, 5, 8])) } else { None };
    let mut ops = vec![];
    if auto.is_none() {
        ops.push(Op::SetCredit(rng.range(1, 6) as u32));
    }
    let n = rng.range(2, max_ops);
    let mut sent: u32 = 0; // complete deliveries sent
    let mut received: u32 = 0;
    let mut undisposed: u32 = 0;
    let mut in_delivery = false;
    let respectful = rng.chance(4, 5);
    let mut credit_guess: i64 = auto.map(|x| x as i64).unwrap_or(3);
    let mut dc_now = idc;
    for _ in 0..n {
        let r = rng.below(100);
        if in_delivery {
            // continue the delivery
            if rng.chance(1, 12) {
                ops.push(Op::Arrive { more: false, aborted: true });
                in_delivery = false;
            } else {
                let more = rng.chance(1, 3);
                ops.push(Op::Arrive { more, aborted: false });
                in_delivery = more;
                if !more {
                    sent += 1;
                    dc_now = dc_now.wrapping_add(1);
                    credit_guess -= 1;
                }
            }
            continue;
        }
        if r < 35 {
            if respectful && credit_guess <= 0 {
                ops.push(Op::Recv);
                if received < sent {
                    received += 1;
                    undisposed += 1;
                }
                continue;
            }
            let more = rng.chance(1, 4);
            ops.push(Op::Arrive { more, aborted: false });
            in_delivery = more;
            if !more {
                sent += 1;
                dc_now = dc_now.wrapping_add(1);
                credit_guess -= 1;
            }
        } else if r < 62 {
            ops.push(if rng.chance(1, 5) { Op::RecvWrong } else { Op::Recv });
            if received < sent {
                received += 1;
                undisposed += 1;
            }
        } else if r < 82 {
            if undisposed > 0 {
                let k = if rng.chance(2, 3) { 1 } else { rng.range(1, undisposed as u64) as u32 };
                ops.push(Op::Dispose(k));
                undisposed -= k;
                if let Some(a) = auto {
                    credit_guess = credit_guess.max(a as i64 / 2); // rough
                }
            }
        } else if r < 92 {
            // the sender states its delivery-count (honest), sometimes asks for an echo
            ops.push(Op::InFlow { dc: if rng.chance(4, 5) { Some(dc_now) } else { None }, echo: rng.chance(1, 2) });
        } else if r < 97 {
            let c = rng.range(0, 6) as u32;
            ops.push(Op::SetCredit(c));
            credit_guess = c as i64;
        } else {
            ops.push(Op::Drain);
        }
    }
    let settled = match rng.below(3) {
        0 => 0,
        1 => u64::MAX,
        _ => rng.next(),
    };
    Case { idc, auto, ops, settled }
}

fn evaluate(case: &Case) -> (Vec<StepOut>, Option<(String, String)>) {
    match run_impl(case) {
        Ok(outs) => {
            let v = check_property(case, &outs);
            (outs, v)
        }
        Err(e) => (vec![], Some(("harness-error".into(), e))),
    }
}

/// "re-issues credit early enough that a sender who respects credit can deliver an arbitrarily long
/// stream without stalling": a real Receiver in Auto(n) — with auto-accept or with the application
/// accepting each delivery, on a session whose link-to-session queue holds `buffer` frames — against
/// a scripted sender that sends `total` deliveries, each only when the credit it was last told
/// allows it.  Returns (deliveries the application received, deliveries the sender could send).
pub fn run_stream(auto_n: u32, buffer: usize, auto_accept: bool, total: u32, idc: u32, second: bool) -> Result<(u32, u32), String> {
    run_stream_with(auto_n, buffer, auto_accept, total, idc, second, false, 1)
}

/// `sender_settled`: the sender sends its deliveries settled; `batch`: the application acknowledges
/// `batch` deliveries at a time with accept_all (never more than the credit it grants)
pub fn run_stream_with(auto_n: u32, buffer: usize, auto_accept: bool, total: u32, idc: u32, second: bool, sender_settled: bool, batch: usize) -> Result<(u32, u32), String> {
    let rt = paused_runtime();
    rt.block_on(async move {
        let (cio, pio) = tokio::io::duplex(1 << 20);
        let mut peer = Peer::new(pio);
        let client = tokio::spawn(async move {
            let mut conn = Connection::builder().container_id("c09s").open_with_stream(cio).await.map_err(|e| format!("open: {:?}", e))?;
            let mut session = Session::builder().buffer_size(buffer).begin(&mut conn).await.map_err(|e| format!("begin: {:?}", e))?;
            let mut receiver = Receiver::builder()
                .name("c09-stream")
                .source("q")
                .credit_mode(CreditMode::Auto(auto_n))
                .auto_accept(auto_accept)
                .receiver_settle_mode(if second { ReceiverSettleMode::Second } else { ReceiverSettleMode::First })
                .attach(&mut session)
                .await
                .map_err(|e| format!("attach: {:?}", e))?;
            let mut got = 0u32;
            let batch = batch.max(1).min(auto_n as usize);
            let mut held: Vec<DeliveryInfo> = vec![];
            while got < total {
                match tokio::time::timeout(Duration::from_secs(3), receiver.recv::<Value>()).await {
                    Err(_) => {
                        if held.is_empty() {
                            break;
                        }
                        receiver.accept_all(std::mem::take(&mut held)).await.map_err(|e| format!("accept_all: {:?}", e))?;
                    }
                    Ok(Err(e)) => return Err(format!("recv: {:?}", e)),
                    Ok(Ok(d)) => {
                        got += 1;
                        if !auto_accept {
                            if batch <= 1 {
                                receiver.accept(&d).await.map_err(|e| format!("accept: {:?}", e))?;
                            } else {
                                held.push(DeliveryInfo::from(&d));
                                if held.len() >= batch {
                                    receiver.accept_all(std::mem::take(&mut held)).await.map_err(|e| format!("accept_all: {:?}", e))?;
                                }
                            }
                        }
                    }
                }
            }
            Ok::<_, String>((got, conn, session, receiver))
        });
        peer.accept_open(&PeerOpen::default()).await.map_err(|e| format!("peer open: {:?}", e))?;
        peer.accept_begin(0, 0, 100_000, 100_000).await.map_err(|e| format!("peer begin: {:?}", e))?;
        peer.accept_attach(0, 0, Some(idc), if second { ReceiverSettleMode::Second } else { ReceiverSettleMode::First }).await.map_err(|e| format!("peer attach: {:?}", e))?;
        let mut dc = idc; // the sender's delivery-count
        let mut limit = idc; // delivery-count up to which it may send (serial arithmetic)
        let mut sent = 0u32;
        peer.recv_timeout = Duration::from_millis(1500);
        'outer: while sent < total {
            // credit left?
            if limit.wrapping_sub(dc) as i32 > 0 {
                let msg = message_bytes(sent as u64 + 1, 16);
                let t = transfer(0, Some(sent), Some(sent.to_be_bytes().to_vec()), Some(sender_settled), false);
                peer.send(0, Performative::Transfer(t), &msg).await.map_err(|e| format!("{:?}", e))?;
                dc = dc.wrapping_add(1);
                sent += 1;
                continue;
            }
            // wait for more credit (answering dispositions in mode second on the way)
            loop {
                match peer.recv().await {
                    Ok(Incoming::Frame { performative: Performative::Flow(f), .. }) => {
                        if f.handle.is_some() {
                            if let (Some(d), Some(c)) = (f.delivery_count, f.link_credit) {
                                limit = d.wrapping_add(c);
                                continue 'outer;
                            }
                        }
                    }
                    Ok(Incoming::Frame { performative: Performative::Disposition(d), .. }) => {
                        if second && !d.settled {
                            let echo = Disposition { role: Role::Sender, first: d.first, last: d.last, settled: true, state: d.state.clone(), batchable: false };
                            let _ = peer.send(0, Performative::Disposition(echo), &[]).await;
                        }
                    }
                    Ok(_) => {}
                    Err(_) => break 'outer, // no credit for 1.5 virtual seconds: the stream has stalled
                }
            }
        }
        // keep settling while the application catches up
        peer.recv_timeout = Duration::from_millis(500);
        loop {
            match peer.recv().await {
                Ok(Incoming::Frame { performative: Performative::Disposition(d), .. }) => {
                    if second && !d.settled {
                        let echo = Disposition { role: Role::Sender, first: d.first, last: d.last, settled: true, state: d.state.clone(), batchable: false };
                        let _ = peer.send(0, Performative::Disposition(echo), &[]).await;
                    }
                }
                Ok(_) => {}
                Err(_) => break,
            }
        }
        let (got, _c, _s, _r) = client.await.map_err(|e| format!("join: {:?}", e))??;
        Ok((got, sent))
    })
}

pub fn main(opts: &Opts) {
    let mut report = Report::new(
        "C09",
        "a real Receiver (public API, Auto(n)/Manual, auto_accept off) against a scripted sender over an in-memory pipe: random \
         histories of arriving transfer frames (1-3 frames per delivery, aborts, within / beyond credit), sender flows stating \
         its delivery-count, recv, accept / accept_all in arbitrary order, set_credit, drain; flows read off the wire; \
         non-trivial = at least one top-up or echo flow and three deliveries; distinct by hash of the op list",
    );
    if let Some(path) = &opts.replay {
        let j: J = serde_json::from_str(&std::fs::read_to_string(path).expect("read replay")).expect("json");
        if let Some(c) = j.get("stream") {
            let g = |k: &str| c.get(k).and_then(|x| x.as_u64()).unwrap_or(0);
            let b = |k: &str| c.get(k).and_then(|x| x.as_bool()).unwrap_or(false);
            let r = run_stream_with(g("auto") as u32, g("buffer") as usize, b("auto_accept"), g("total") as u32, g("idc") as u32, b("second"), b("sender_settled"), g("batch").max(1) as usize);
            println!("{:?}", r);
            match r {
                Ok((got, _)) if got as u64 == g("total") => {
                    println!("REPLAY: property holds on this scenario");
                    std::process::exit(0);
                }
                _ => {
                    println!("REPLAY: property violated [stream-stalls]");
                    std::process::exit(1);
                }
            }
        }
        let case = Case::from_json(j.get("case").unwrap_or(&j)).expect("case");
        let (outs, v) = evaluate(&case);
        for (l, o) in case.lines().iter().zip(render_impl(&outs)) {
            println!("{:<28} => {}", l, o);
        }
        match v {
            Some((k, d)) => {
                println!("REPLAY: property violated [{}]: {}", k, d);
                std::process::exit(1);
            }
            None => {
                println!("REPLAY: property holds on this history");
                std::process::exit(0);
            }
        }
    }
    let n_cases: u64 = if opts.thorough() { 6000 } else { 500 };
    let max_ops: u64 = if opts.thorough() { 60 } else { 30 };
    let mut rng = Rng::new(opts.seed);
    let mut all_lines = vec![];
    let mut impl_lines = vec![];
    let mut cases = vec![];
    let mut spans = vec![];
    let mut corpus: Vec<Case> = vec![];
    if let Ok(rd) = std::fs::read_dir("/verif/corpus/C09") {
        let mut paths: Vec<_> = rd.filter_map(|e| e.ok()).map(|e| e.path()).collect();
        paths.sort();
        for p in paths {
            if let Ok(t) = std::fs::read_to_string(&p) {
                if let Ok(j) = serde_json::from_str::<J>(&t) {
                    if let Some(c) = Case::from_json(j.get("case").unwrap_or(&j)) {
                        corpus.push(c);
                    }
                }
            }
        }
    }
    report.count_n("corpus_cases", corpus.len() as u64);
    // detach without closing, resume: the second attach of the sender carries another initial delivery-count
    for (idc1, idc2) in [(100u32, 500u32), (7, 0), (0, u32::MAX - 1), (3, 3)] {
        for k in [1usize, 3] {
            let mut ops = vec![Op::SetCredit(k as u32)];
            for _ in 0..k {
                ops.push(Op::Arrive { more: false, aborted: false });
            }
            for _ in 0..k {
                ops.push(Op::Recv);
            }
            for _ in 0..k {
                ops.push(Op::Dispose(1));
            }
            ops.push(Op::Resume { idc: idc2 });
            ops.extend([Op::SetCredit(5), Op::Arrive { more: false, aborted: false }, Op::Arrive { more: true, aborted: false }, Op::Arrive { more: false, aborted: false }, Op::Recv, Op::Recv, Op::SetCredit(4), Op::Dispose(2), Op::SetCredit(2)]);
            corpus.push(Case { idc: idc1, auto: None, ops, settled: if k == 1 { 0 } else { u64::MAX } });
        }
    }
    let total = corpus.len() as u64 + n_cases;
    for k in 0..total {
        let case = if (k as usize) < corpus.len() { corpus[k as usize].clone() } else { gen_case(&mut rng, max_ops) };
        let (outs, v) = evaluate(&case);
        report.evaluations += 1;
        for op in &case.ops {
            report.count(match op {
                Op::InFlow { .. } => "op_inflow",
                Op::Arrive { aborted: true, .. } => "op_arrive_aborted",
                Op::Arrive { more: true, .. } => "op_arrive_more",
                Op::Arrive { .. } => "op_arrive_last",
                Op::Recv => "op_recv",
                Op::RecvWrong => "op_recv_undecodable",
                Op::Dispose(1) => "op_dispose_one",
                Op::Dispose(_) => "op_dispose_batch",
                Op::SetCredit(_) => "op_set_credit",
                Op::Drain => "op_drain",
                Op::Resume { .. } => "op_detach_and_resume",
            });
        }
        let flows: usize = outs.iter().map(|o| o.flows.len()).sum();
        let delivered = outs.iter().filter(|o| o.event.as_deref() == Some("D")).count();
        if outs.iter().any(|o| o.event.as_deref() == Some("L")) {
            report.count("cases_with_transfer_limit_exceeded");
        }
        report.count_n("flows_observed", flows as u64);
        report.count_n("deliveries", delivered as u64);
        if flows >= 2 && delivered >= 3 {
            report.nontrivial_case(fnv(&case.lines().join("|")));
        }
        if k % (total / 4).max(1) == 0 {
            report.sample(case.to_json());
        }
        if let Some((key, _)) = v {
            let mut fails = |ops: &[Op]| {
                let c = Case { ops: ops.to_vec(), ..case.clone() };
                matches!(evaluate(&c).1, Some((k2, _)) if k2 == key)
            };
            let small = Case { ops: shrink_list(&case.ops, &mut fails), ..case.clone() };
            let (souts, sv) = evaluate(&small);
            report.finding(Finding {
                kind: "violation",
                key: key.clone(),
                description: sv.map(|x| x.1).unwrap_or_default(),
                replay: json!({"property": "C09", "module": "recvcredit", "seed": opts.seed, "case": small.to_json(), "implementation": render_impl(&souts)}),
            });
        }
        let il = render_impl(&outs);
        let ml: Vec<String> = case.lines().into_iter().take(il.len()).collect();
        spans.push((all_lines.len(), il.len()));
        all_lines.extend(ml);
        impl_lines.extend(il);
        cases.push(case);
    }
    if driver_available() {
        match run_driver(&all_lines) {
            Ok(model) => {
                report.model_used = true;
                report.model_lines = model.len() as u64;
                let mut reported = 0;
                for (ci, case) in cases.iter().enumerate() {
                    let (s, n) = spans[ci];
                    if let Some(off) = (s..s + n).find(|&i| model[i] != impl_lines[i]) {
                        if reported == 0 {
                            let differs = |c: &Case| -> Option<(Vec<String>, Vec<String>)> {
                                let il = render_impl(&run_impl(c).ok()?);
                                let lines: Vec<String> = c.lines().into_iter().take(il.len()).collect();
                                let ml = run_driver(&lines).ok()?;
                                if ml != il {
                                    Some((il, ml))
                                } else {
                                    None
                                }
                            };
                            let mut fails = |ops: &[Op]| differs(&Case { ops: ops.to_vec(), ..case.clone() }).is_some();
                            let small = Case { ops: shrink_list(&case.ops, &mut fails), ..case.clone() };
                            let (il, ml) = differs(&small).unwrap_or_default();
                            report.finding(Finding {
                                kind: "disagreement",
                                key: "model-vs-implementation".into(),
                                description: format!("model and implementation differ (first at line {} of case {})", off - s, ci),
                                replay: json!({"property": "C09", "module": "recvcredit", "case": small.to_json(), "implementation": il, "model": ml}),
                            });
                        }
                        reported += 1;
                    }
                }
                report.count_n("cases_disagreeing_with_model", reported);
            }
            Err(e) => report.notes.push(format!("model driver failed: {}", e)),
        }
    } else {
        report.notes.push("model driver not available: correspondence skipped".into());
    }
    // streams: credit is re-issued in time, whatever the queue between link and session holds
    let mut streams: Vec<(u32, usize, bool, u32, bool, bool, usize)> = vec![];
    for &n in &[1u32, 2, 3, 7, 50] {
        for &b in &[1usize, 2, 3, 2048] {
            for &aa in &[true, false] {
                streams.push((n, b, aa, *rng.pick(&[0u32, 5, u32::MAX - 2]), rng.chance(1, 3), false, 1));
            }
            // the sender settles its deliveries itself / the application acknowledges in batches
            streams.push((n, b, false, *rng.pick(&[0u32, 5, u32::MAX - 2]), false, true, 2));
            streams.push((n, b, false, 0, rng.chance(1, 3), false, 3));
            streams.push((n, b, true, 0, false, true, 1));
        }
    }
    for (n, b, aa, idc, second, sender_settled, batch) in streams {
        let total = 3 * n + 5;
        report.evaluations += 1;
        report.count("stream_cases");
        report.nontrivial_case(fnv(&format!("stream{}/{}/{}/{}/{}/{}/{}", n, b, aa, idc, second, sender_settled, batch)));
        let replay = json!({"property": "C09", "module": "recvcredit", "stream": {"auto": n, "buffer": b, "auto_accept": aa, "idc": idc, "second": second, "total": total, "sender_settled": sender_settled, "batch": batch}});
        match run_stream_with(n, b, aa, total, idc, second, sender_settled, batch) {
            Ok((got, sent)) => {
                if got < total {
                    report.finding(Finding {
                        kind: "violation",
                        key: "stream-stalls".into(),
                        description: format!(
                            "Auto({}) receiver (auto-accept {}, rcv-settle-mode {}, session buffer_size {}, initial delivery-count {}, sender-settled {}, acknowledged {} at a time): a sender that respects credit could send only {} of {} deliveries and the application received {}: credit was not re-issued",
                            n, aa, if second { "second" } else { "first" }, b, idc, sender_settled, batch, sent, total, got
                        ),
                        replay,
                    });
                }
            }
            Err(e) => report.finding(Finding { kind: "violation", key: "stream-scenario-failed".into(), description: e, replay }),
        }
    }
    report.write(&opts.report);
    println!("recvcredit: {} cases, {} non-trivial, {} findings", report.evaluations, report.nontrivial.len(), report.findings.len());
}
