//! C15 — a misbehaving peer.  A real client (connection, session, one sender, one receiver) is
//! set up against a scripted peer that then sends one hostile item — raw bytes that are not a
//! frame, frames with a bad header, undecodable or hostile bodies, performatives that violate
//! the protocol — and afterwards behaves: it answers every close, end and detach.  The client
//! then uses and tears down everything it holds.  Nothing may panic, hang, or cost more than
//! the frame justifies; fatal violations must become visible to the application.

use std::sync::atomic::{AtomicU64, Ordering};
use std::time::{Duration, Instant};

use fe2o3_amqp::link::delivery::Sendable;
use fe2o3_amqp::link::receiver::CreditMode;
use fe2o3_amqp::link::sender::Sender;
use fe2o3_amqp::{Connection, Receiver, Session};
use fe2o3_amqp_types::definitions::{Handle, ReceiverSettleMode, Role};
use fe2o3_amqp_types::messaging::Message;
use fe2o3_amqp_types::performatives::{Attach, Begin, Close, Detach, Disposition, End, Flow, Open, Performative};
use serde_amqp::Value;
use serde_json::{json, Value as J};

use crate::codec::tracked;
use crate::common::*;
use crate::peer::*;

pub static PANICS: AtomicU64 = AtomicU64::new(0);

pub fn install_panic_counter() {
    let prev = std::panic::take_hook();
    std::panic::set_hook(Box::new(move |info| {
        PANICS.fetch_add(1, Ordering::SeqCst);
        if std::env::var_os("VERIF_TRACE").is_some() {
            prev(info);
        }
    }));
}

#[derive(Clone, Debug, PartialEq)]
pub enum Item {
    /// bytes written as they are (hex), after which the stream continues normally
    Raw(Vec<u8>),
    /// a frame with the given header bytes (doff, type, channel) and body (hex)
    Frame { doff: u8, ftype: u8, channel: u16, body: Vec<u8> },
    /// protocol violations with well-formed frames
    TransferBeyondCredit(u32),
    TransfersBeyondWindow(u32),
    DispositionHugeRange,
    DispositionUnknown,
    FlowUnattached,
    TransferUnattached,
    DuplicateAttach,
    AttachHandleInUse,
    FrameOnUnmappedChannel,
    SecondBegin,
    /// a begin that claims to answer a session the endpoint never began (remote-channel it never allocated)
    BeginUnknownRemoteChannel(u16),
    /// a begin of the peer's own on a fresh channel (a client does not accept sessions)
    BeginFromPeer,
    EndUnmapped,
    SecondOpen,
    DetachUnattached,
    TransferToSender,
    AttachHugeHandle,
    /// an attach naming an attached link on a handle another attached link is using
    AttachRebind,
    /// first frame of the connection is not an open: 0 close, 1 begin, 2 empty, 3 garbage
    FirstFrameNotOpen(u8),
    /// a legal flow of a kind peers seldom send: an echo request to our sender (0, 2: without delivery-count), to
    /// our receiver (1, 3: without any link state), 4 a session flow with echo
    UnusualFlow(u8),
    /// nothing hostile (control)
    Nothing,
}

impl Item {
    pub fn to_json(&self) -> J {
        match self {
            Item::Raw(b) => json!({"raw": hex(b)}),
            Item::Frame { doff, ftype, channel, body } => json!({"frame": [doff, ftype, channel, hex(body)]}),
            Item::TransferBeyondCredit(n) => json!({"transfer_beyond_credit": n}),
            Item::TransfersBeyondWindow(n) => json!({"transfers_beyond_window": n}),
            Item::FirstFrameNotOpen(k) => json!({"first_frame_not_open": k}),
            Item::BeginUnknownRemoteChannel(c) => json!({"begin_unknown_remote_channel": c}),
            Item::UnusualFlow(k) => json!({"unusual_flow": k}),
            other => json!({"violation": format!("{:?}", other)}),
        }
    }
    pub fn from_json(j: &J) -> Option<Item> {
        if let Some(r) = j.get("raw").and_then(|x| x.as_str()) {
            return Some(Item::Raw(unhex(r)?));
        }
        if let Some(f) = j.get("frame").and_then(|x| x.as_array()) {
            return Some(Item::Frame { doff: f.first()?.as_u64()? as u8, ftype: f.get(1)?.as_u64()? as u8, channel: f.get(2)?.as_u64()? as u16, body: unhex(f.get(3)?.as_str()?)? });
        }
        if let Some(n) = j.get("transfer_beyond_credit").and_then(|x| x.as_u64()) {
            return Some(Item::TransferBeyondCredit(n as u32));
        }
        if let Some(n) = j.get("transfers_beyond_window").and_then(|x| x.as_u64()) {
            return Some(Item::TransfersBeyondWindow(n as u32));
        }
        if let Some(n) = j.get("first_frame_not_open").and_then(|x| x.as_u64()) {
            return Some(Item::FirstFrameNotOpen(n as u8));
        }
        if let Some(n) = j.get("begin_unknown_remote_channel").and_then(|x| x.as_u64()) {
            return Some(Item::BeginUnknownRemoteChannel(n as u16));
        }
        if let Some(n) = j.get("unusual_flow").and_then(|x| x.as_u64()) {
            return Some(Item::UnusualFlow(n as u8));
        }
        let v = j.get("violation")?.as_str()?;
        Some(match v {
            "DispositionHugeRange" => Item::DispositionHugeRange,
            "DispositionUnknown" => Item::DispositionUnknown,
            "FlowUnattached" => Item::FlowUnattached,
            "TransferUnattached" => Item::TransferUnattached,
            "DuplicateAttach" => Item::DuplicateAttach,
            "AttachHandleInUse" => Item::AttachHandleInUse,
            "FrameOnUnmappedChannel" => Item::FrameOnUnmappedChannel,
            "SecondBegin" => Item::SecondBegin,
            "BeginFromPeer" => Item::BeginFromPeer,
            "EndUnmapped" => Item::EndUnmapped,
            "SecondOpen" => Item::SecondOpen,
            "DetachUnattached" => Item::DetachUnattached,
            "TransferToSender" => Item::TransferToSender,
            "AttachHugeHandle" => Item::AttachHugeHandle,
            "AttachRebind" => Item::AttachRebind,
            "Nothing" => Item::Nothing,
            _ => return None,
        })
    }
    /// must the application get to know (some later call fails, or the handle reports an error)?
    pub fn fatal(&self) -> bool {
        !matches!(self, Item::Nothing | Item::UnusualFlow(_) | Item::DispositionUnknown | Item::DispositionHugeRange | Item::Frame { doff: 2, ftype: 0, .. })
    }
}

#[derive(Clone, Debug, Default)]
pub struct Observed {
    pub panics: u64,
    /// (operation, "ok" | "err:<…>" | "TIMEOUT")
    pub ops: Vec<(String, String)>,
    pub allocated: u64,
    pub largest: u64,
    pub real_ms: u64,
    pub setup_failed: Option<String>,
    pub trace: Vec<String>,
}

fn frame_bytes(doff: u8, ftype: u8, channel: u16, body: &[u8]) -> Vec<u8> {
    let mut out = vec![];
    out.extend_from_slice(&((body.len() as u32 + 8).to_be_bytes()));
    out.push(doff);
    out.push(ftype);
    out.extend_from_slice(&channel.to_be_bytes());
    out.extend_from_slice(body);
    out
}

/// the polite part of the peer: answers close / end / detach (and begin / attach) for `dur`
async fn polite(peer: &mut Peer, dur: Duration) {
    let t0 = tokio::time::Instant::now();
    loop {
        let left = dur.saturating_sub(t0.elapsed());
        if left.is_zero() {
            return;
        }
        peer.recv_timeout = left;
        match peer.recv().await {
            Ok(Incoming::Frame { channel, performative, .. }) => match performative {
                Performative::Close(_) => {
                    let _ = peer.send(0, Performative::Close(Close { error: None }), &[]).await;
                }
                Performative::End(_) => {
                    let _ = peer.send(channel, Performative::End(End { error: None }), &[]).await;
                }
                Performative::Detach(d) => {
                    let _ = peer.send(channel, Performative::Detach(Detach { handle: Handle(20 + d.handle.0), closed: d.closed, error: None }), &[]).await;
                }
                Performative::Begin(_) => {
                    let b = Begin { remote_channel: Some(channel), next_outgoing_id: 0, incoming_window: 100, outgoing_window: 100, handle_max: Handle(100), offered_capabilities: None, desired_capabilities: None, properties: None };
                    let _ = peer.send(channel, Performative::Begin(b), &[]).await;
                }
                _ => {}
            },
            Ok(Incoming::Empty { .. }) => {}
            Err(PeerError::Timeout) => return,
            Err(_) => {
                // undecodable or closed: keep draining time
                tokio::time::sleep(Duration::from_millis(10)).await;
                if t0.elapsed() >= dur {
                    return;
                }
            }
        }
    }
}

pub fn run(item: &Item) -> Observed {
    let item = item.clone();
    let t_real = Instant::now();
    let panics0 = PANICS.load(Ordering::SeqCst);
    let (mut obs, allocated, largest) = tracked(|| {
        let rt = paused_runtime();
        rt.block_on(async move {
            let mut obs = Observed::default();
            let (cio, pio) = tokio::io::duplex(1 << 20);
            let mut peer = Peer::new(pio);
            // -- the connection's first frame is not an open
            if let Item::FirstFrameNotOpen(k) = item {
                let client = tokio::spawn(async move { Connection::builder().container_id("c15").open_with_stream(cio).await.map(|_| ()) });
                let _ = peer.recv_header().await;
                let _ = peer.send_header().await;
                peer.recv_timeout = Duration::from_millis(50);
                let _ = peer.recv().await; // the client's open
                match k {
                    0 => {
                        let _ = peer.send(0, Performative::Close(Close { error: None }), &[]).await;
                    }
                    1 => {
                        let b = Begin { remote_channel: None, next_outgoing_id: 0, incoming_window: 1, outgoing_window: 1, handle_max: Handle(1), offered_capabilities: None, desired_capabilities: None, properties: None };
                        let _ = peer.send(0, Performative::Begin(b), &[]).await;
                    }
                    2 => {
                        let _ = peer.send_empty().await;
                    }
                    _ => {
                        let _ = peer.send_raw(&frame_bytes(2, 0, 0, &[0x00, 0x53, 0x7f, 0x45])).await;
                    }
                }
                let pt = tokio::spawn(async move {
                    polite(&mut peer, Duration::from_secs(20)).await;
                    peer
                });
                let r = tokio::time::timeout(Duration::from_secs(10), client).await;
                obs.ops.push(("open".into(), match r {
                    Err(_) => "TIMEOUT".into(),
                    Ok(Ok(Ok(()))) => "ok".into(),
                    Ok(Ok(Err(e))) => format!("err:{:?}", e).chars().take(80).collect(),
                    Ok(Err(_)) => "err:task-panicked".into(),
                }));
                pt.abort();
                return obs;
            }
            // -- regular set-up
            let client = tokio::spawn(async move {
                let mut conn = Connection::builder().container_id("c15").open_with_stream(cio).await.map_err(|e| format!("open: {:?}", e))?;
                let mut session = Session::begin(&mut conn).await.map_err(|e| format!("begin: {:?}", e))?;
                let sender = Sender::builder().name("s").target("q").attach(&mut session).await.map_err(|e| format!("attach s: {:?}", e))?;
                let receiver = Receiver::builder().name("r").source("q").credit_mode(CreditMode::Manual).attach(&mut session).await.map_err(|e| format!("attach r: {:?}", e))?;
                Ok::<_, String>((conn, session, sender, receiver))
            });
            let setup = async {
                peer.accept_open(&PeerOpen::default()).await.map_err(|e| format!("{:?}", e))?;
                peer.accept_begin(0, 0, 100, 100).await.map_err(|e| format!("{:?}", e))?;
                // sender "s" (handle 0) and receiver "r" (handle 1)
                for _ in 0..2 {
                    let (_, p, _) = peer.recv_frame().await.map_err(|e| format!("{:?}", e))?;
                    if let Performative::Attach(a) = p {
                        let sender = matches!(a.role, Role::Sender);
                        let ours = Attach { name: a.name.clone(), handle: Handle(20 + a.handle.0), role: if sender { Role::Receiver } else { Role::Sender }, snd_settle_mode: a.snd_settle_mode.clone(), rcv_settle_mode: ReceiverSettleMode::First, source: a.source.clone(), target: a.target.clone(), unsettled: None, incomplete_unsettled: false, initial_delivery_count: if sender { None } else { Some(0) }, max_message_size: None, offered_capabilities: None, desired_capabilities: None, properties: None };
                        peer.send(0, Performative::Attach(ours), &[]).await.map_err(|e| format!("{:?}", e))?;
                        if sender {
                            let f = Flow { next_incoming_id: Some(0), incoming_window: 100, next_outgoing_id: 0, outgoing_window: 100, handle: Some(Handle(20 + a.handle.0)), delivery_count: Some(0), link_credit: Some(10), available: None, drain: false, echo: false, properties: None };
                            peer.send(0, Performative::Flow(f), &[]).await.map_err(|e| format!("{:?}", e))?;
                        }
                    }
                }
                Ok::<(), String>(())
            };
            if let Err(e) = setup.await {
                obs.setup_failed = Some(e);
                return obs;
            }
            let (mut conn, mut session, mut sender, mut receiver) = match tokio::time::timeout(Duration::from_secs(5), client).await {
                Ok(Ok(Ok(x))) => x,
                other => {
                    obs.setup_failed = Some(format!("{:?}", other.map(|x| x.map(|y| y.map(|_| ())))));
                    return obs;
                }
            };
            // the receiver grants 2 credits
            let _ = receiver.set_credit(2).await;
            peer.recv_timeout = Duration::from_millis(20);
            let _ = peer.recv().await;
            // -- the hostile item
            let msg = message_bytes(1, 4);
            let tr = |handle: u32, id: u32| transfer(handle, Some(id), Some(vec![id as u8]), Some(true), false);
            match &item {
                Item::Raw(b) => {
                    let _ = peer.send_raw(b).await;
                }
                Item::Frame { doff, ftype, channel, body } => {
                    let _ = peer.send_raw(&frame_bytes(*doff, *ftype, *channel, body)).await;
                }
                Item::TransferBeyondCredit(n) => {
                    for k in 0..(2 + n) {
                        let _ = peer.send(0, Performative::Transfer(tr(21, k)), &msg).await;
                    }
                }
                Item::TransfersBeyondWindow(n) => {
                    // the client's incoming-window is what its begin said (default 5000 here is not reached cheaply):
                    // send well-formed transfers far beyond the link credit instead of the window
                    for k in 0..*n {
                        let _ = peer.send(0, Performative::Transfer(tr(21, k)), &msg).await;
                    }
                }
                Item::DispositionHugeRange => {
                    let d = Disposition { role: Role::Receiver, first: 0, last: Some(u32::MAX), settled: true, state: None, batchable: false };
                    let _ = peer.send(0, Performative::Disposition(d), &[]).await;
                    let d = Disposition { role: Role::Sender, first: 1, last: Some(0), settled: false, state: None, batchable: false };
                    let _ = peer.send(0, Performative::Disposition(d), &[]).await;
                }
                Item::DispositionUnknown => {
                    let d = Disposition { role: Role::Receiver, first: 77, last: Some(99), settled: false, state: None, batchable: false };
                    let _ = peer.send(0, Performative::Disposition(d), &[]).await;
                }
                Item::FlowUnattached => {
                    let f = Flow { next_incoming_id: Some(0), incoming_window: 100, next_outgoing_id: 0, outgoing_window: 100, handle: Some(Handle(99)), delivery_count: Some(0), link_credit: Some(1), available: None, drain: false, echo: true, properties: None };
                    let _ = peer.send(0, Performative::Flow(f), &[]).await;
                }
                Item::UnusualFlow(k) => {
                    let (handle, dc, credit, drain, echo) = match k {
                        0 => (Some(Handle(20)), Some(0), Some(10), false, true),
                        1 => (Some(Handle(21)), Some(0), Some(0), false, true),
                        2 => (Some(Handle(20)), None, Some(10), false, true),
                        3 => (Some(Handle(21)), None, None, false, true),
                        _ => (None, None, None, false, true),
                    };
                    let f = Flow { next_incoming_id: Some(0), incoming_window: 100, next_outgoing_id: 0, outgoing_window: 100, handle, delivery_count: dc, link_credit: credit, available: None, drain, echo, properties: None };
                    let _ = peer.send(0, Performative::Flow(f), &[]).await;
                }
                Item::TransferUnattached => {
                    let _ = peer.send(0, Performative::Transfer(tr(99, 0)), &msg).await;
                }
                Item::DuplicateAttach | Item::AttachHandleInUse | Item::AttachHugeHandle | Item::AttachRebind => {
                    let a = Attach {
                        name: if item == Item::DuplicateAttach || item == Item::AttachRebind { "s".into() } else { "other".into() },
                        handle: Handle(match item {
                            Item::AttachHugeHandle => u32::MAX,
                            Item::DuplicateAttach => 30,
                            _ => 21,
                        }),
                        role: Role::Sender,
                        snd_settle_mode: Default::default(),
                        rcv_settle_mode: ReceiverSettleMode::First,
                        source: Some(Box::new(Default::default())),
                        target: Some(Box::new(fe2o3_amqp_types::messaging::Target::default().into())),
                        unsettled: None,
                        incomplete_unsettled: false,
                        initial_delivery_count: Some(0),
                        max_message_size: None,
                        offered_capabilities: None,
                        desired_capabilities: None,
                        properties: None,
                    };
                    let _ = peer.send(0, Performative::Attach(a), &[]).await;
                }
                Item::FrameOnUnmappedChannel => {
                    let f = Flow { next_incoming_id: Some(0), incoming_window: 100, next_outgoing_id: 0, outgoing_window: 100, handle: None, delivery_count: None, link_credit: None, available: None, drain: false, echo: false, properties: None };
                    let _ = peer.send(9, Performative::Flow(f), &[]).await;
                }
                Item::SecondBegin => {
                    let b = Begin { remote_channel: Some(0), next_outgoing_id: 0, incoming_window: 100, outgoing_window: 100, handle_max: Handle(10), offered_capabilities: None, desired_capabilities: None, properties: None };
                    let _ = peer.send(0, Performative::Begin(b), &[]).await;
                }
                Item::BeginUnknownRemoteChannel(c) => {
                    let b = Begin { remote_channel: Some(*c), next_outgoing_id: 0, incoming_window: 100, outgoing_window: 100, handle_max: Handle(10), offered_capabilities: None, desired_capabilities: None, properties: None };
                    let _ = peer.send(3, Performative::Begin(b), &[]).await;
                }
                Item::BeginFromPeer => {
                    let b = Begin { remote_channel: None, next_outgoing_id: 0, incoming_window: 100, outgoing_window: 100, handle_max: Handle(10), offered_capabilities: None, desired_capabilities: None, properties: None };
                    let _ = peer.send(4, Performative::Begin(b), &[]).await;
                }
                Item::EndUnmapped => {
                    let _ = peer.send(9, Performative::End(End { error: None }), &[]).await;
                }
                Item::SecondOpen => {
                    let o = Open { container_id: "again".into(), hostname: None, max_frame_size: 512.into(), channel_max: 0.into(), idle_time_out: Some(0), outgoing_locales: None, incoming_locales: None, offered_capabilities: None, desired_capabilities: None, properties: None };
                    let _ = peer.send(0, Performative::Open(o), &[]).await;
                }
                Item::DetachUnattached => {
                    let _ = peer.send(0, Performative::Detach(Detach { handle: Handle(99), closed: true, error: None }), &[]).await;
                }
                Item::TransferToSender => {
                    let _ = peer.send(0, Performative::Transfer(tr(20, 0)), &msg).await;
                }
                Item::FirstFrameNotOpen(_) | Item::Nothing => {}
            }
            // -- from now on the peer is polite
            let pt = tokio::spawn(async move {
                polite(&mut peer, Duration::from_secs(120)).await;
                peer
            });
            macro_rules! op {
                ($name:expr, $fut:expr) => {{
                    let r = tokio::time::timeout(Duration::from_secs(10), $fut).await;
                    obs.ops.push(($name.to_string(), match r {
                        Err(_) => "TIMEOUT".to_string(),
                        Ok(Ok(_)) => "ok".to_string(),
                        Ok(Err(e)) => format!("err:{}", e).chars().take(90).collect(),
                    }));
                }};
            }
            tokio::time::sleep(Duration::from_millis(20)).await;
            op!("send", async { sender.send(Sendable::builder().message(Message::from(Value::Bool(true))).settled(true).build()).await.map_err(|e| format!("{:?}", e)) });
            // what the receiver has got, without waiting for more than is there
            let mut got = 0;
            loop {
                match tokio::time::timeout(Duration::from_millis(50), receiver.recv::<Value>()).await {
                    Ok(Ok(d)) => {
                        got += 1;
                        let _ = receiver.accept(&d).await;
                        if got > 1000 {
                            break;
                        }
                    }
                    Ok(Err(e)) => {
                        obs.ops.push(("recv".into(), format!("err:{:?}", e).chars().take(90).collect()));
                        break;
                    }
                    Err(_) => break,
                }
            }
            obs.ops.push(("received".into(), format!("n={}", got)));
            op!("close sender", async { sender.close().await.map_err(|e| format!("{:?}", e)) });
            op!("close receiver", async { receiver.close().await.map_err(|e| format!("{:?}", e)) });
            op!("end session", async { session.end().await.map_err(|e| format!("{:?}", e)) });
            op!("close connection", async { conn.close().await.map_err(|e| format!("{:?}", e)) });
            if let Ok(Ok(p)) = tokio::time::timeout(Duration::from_millis(10), async {
                pt.abort();
                pt.await
            })
            .await
            {
                obs.trace = p.trace_lines();
            }
            obs
        })
    });
    obs.allocated = allocated;
    obs.largest = largest;
    obs.real_ms = t_real.elapsed().as_millis() as u64;
    obs.panics = PANICS.load(Ordering::SeqCst) - panics0;
    obs
}

pub fn check(item: &Item, obs: &Observed) -> Option<(String, String)> {
    let tag = match item {
        Item::Raw(_) => "raw-bytes".to_string(),
        Item::Frame { doff, ftype, body, .. } => format!("frame(doff={},type={},body={}B)", doff, ftype, body.len()),
        Item::FirstFrameNotOpen(k) => format!("first-frame-not-open({})", ["close", "begin", "empty", "garbage"].get(*k as usize).unwrap_or(&"?")),
        other => format!("{:?}", other).split('(').next().unwrap_or("").to_string(),
    };
    if let Some(e) = &obs.setup_failed {
        return Some(("scenario-failed".into(), e.clone()));
    }
    if obs.panics > 0 {
        return Some((format!("panic:{}", tag), format!("{} panic(s) in the endpoint's tasks; operations afterwards: {:?}", obs.panics, obs.ops)));
    }
    if let Some((name, _)) = obs.ops.iter().find(|(_, r)| r == "TIMEOUT") {
        return Some((format!("blocks-forever:{}:{}", tag, name), format!("`{}` did not return within 10 virtual seconds although the peer answers every close, end and detach; operations: {:?}", name, obs.ops)));
    }
    let size = match item {
        Item::Raw(b) => b.len(),
        Item::Frame { body, .. } => body.len() + 8,
        _ => 4096,
    } as u64;
    if obs.allocated > 64 * size + 24_000_000 || obs.largest > 16 * size + 8_000_000 {
        return Some((format!("work-out-of-proportion:{}", tag), format!("{} bytes allocated (largest single allocation {}) for an item of {} bytes", obs.allocated, obs.largest, size)));
    }
    if obs.real_ms > 5000 {
        return Some((format!("work-out-of-proportion:{}", tag), format!("{} ms of real time", obs.real_ms)));
    }
    if item.fatal() && !matches!(item, Item::FirstFrameNotOpen(_)) {
        // something the application does afterwards must fail
        if !obs.ops.iter().any(|(_, r)| r.starts_with("err:")) {
            return Some((format!("violation-not-visible:{}", tag), format!("every later operation succeeded: {:?}", obs.ops)));
        }
    }
    if let Item::FirstFrameNotOpen(_) = item {
        if obs.ops.first().map(|(_, r)| r.as_str()) == Some("ok") {
            return Some((format!("violation-not-visible:{}", tag), "open() succeeded".into()));
        }
    }
    if *item == Item::Nothing && obs.ops.iter().any(|(_, r)| r.starts_with("err:")) {
        return Some(("control-case-failed".into(), format!("{:?}", obs.ops)));
    }
    None
}

fn deep_nest(n: usize) -> Vec<u8> {
    // described list (transfer descriptor) whose first field is a list nested n deep
    let mut v = vec![0x00, 0x53, 0x14, 0xd0];
    let inner_len = 4 + n * 9 + 1;
    v.extend_from_slice(&(inner_len as u32).to_be_bytes());
    v.extend_from_slice(&1u32.to_be_bytes());
    for k in 0..n {
        v.push(0xd0);
        v.extend_from_slice(&(((n - k - 1) * 9 + 4 + 1) as u32).to_be_bytes());
        v.extend_from_slice(&1u32.to_be_bytes());
    }
    v.push(0x40);
    v
}

/// a close whose error info holds `pad` empty lists and then a list nested `n` deep
fn padded_nest(pad: usize, n: usize) -> Vec<u8> {
    // close(error(condition, description = null, info = { "k": [ list0 x pad, nested chain ] }))
    let mut chain = vec![];
    for k in 0..n {
        chain.push(0xd0);
        chain.extend_from_slice(&(((n - k - 1) * 9 + 4 + 1) as u32).to_be_bytes());
        chain.extend_from_slice(&1u32.to_be_bytes());
    }
    chain.push(0x40);
    let mut list = vec![0xd0];
    list.extend_from_slice(&((4 + pad + chain.len()) as u32).to_be_bytes());
    list.extend_from_slice(&((pad + 1) as u32).to_be_bytes());
    list.extend(std::iter::repeat(0x45).take(pad));
    list.extend_from_slice(&chain);
    let mut map = vec![0xd1];
    map.extend_from_slice(&((4 + 3 + list.len()) as u32).to_be_bytes());
    map.extend_from_slice(&2u32.to_be_bytes());
    map.extend_from_slice(&[0xa3, 0x01, b'k']);
    map.extend_from_slice(&list);
    let cond = b"amqp:internal-error";
    let mut err_fields = vec![0xa3, cond.len() as u8];
    err_fields.extend_from_slice(cond);
    err_fields.push(0x40);
    err_fields.extend_from_slice(&map);
    let mut err = vec![0x00, 0x53, 0x1d, 0xd0];
    err.extend_from_slice(&((4 + err_fields.len()) as u32).to_be_bytes());
    err.extend_from_slice(&3u32.to_be_bytes());
    err.extend_from_slice(&err_fields);
    let mut v = vec![0x00, 0x53, 0x18, 0xd0];
    v.extend_from_slice(&((4 + err.len()) as u32).to_be_bytes());
    v.extend_from_slice(&1u32.to_be_bytes());
    v.extend_from_slice(&err);
    v
}

/// `run` on a thread of its own with a real-time limit: an endpoint that spins without yielding (a loop
/// with no await point) blocks its runtime thread for ever and no virtual-time timeout can fire; the
/// thread is then abandoned and the item reported
pub fn run_guarded(item: &Item) -> Option<Observed> {
    let (tx, rx) = std::sync::mpsc::channel();
    let it = item.clone();
    let spawned = std::thread::Builder::new().stack_size(32 << 20).spawn(move || {
        let _ = tx.send(run(&it));
    });
    if spawned.is_err() {
        return Some(run(item));
    }
    rx.recv_timeout(Duration::from_secs(40)).ok()
}

pub fn gen_item(rng: &mut Rng) -> Item {
    match rng.below(24) {
        0 => {
            // a "frame" whose length field is below the header size
            let n = rng.below(8) as u32;
            let mut b = n.to_be_bytes().to_vec();
            b.extend((0..n.saturating_sub(4)).map(|_| rng.next() as u8));
            Item::Raw(b)
        }
        1 => {
            // length field only / header cut short (the frame codec hands over 0..3 bytes)
            let n = rng.range(4, 7) as u32;
            let mut b = n.to_be_bytes().to_vec();
            b.extend((0..n - 4).map(|_| rng.next() as u8));
            Item::Raw(b)
        }
        2 => {
            // length far beyond anything sent
            let n = *rng.pick(&[0x00ff_ffffu32, 0x7fff_ffff, 0xffff_ffff, 300_000]);
            let mut b = n.to_be_bytes().to_vec();
            b.extend([2u8, 0, 0, 0]);
            Item::Raw(b)
        }
        3 => Item::Frame { doff: *rng.pick(&[0u8, 1, 3, 4, 255]), ftype: 0, channel: 0, body: vec![] },
        4 => Item::Frame { doff: 2, ftype: *rng.pick(&[1u8, 2, 127, 255]), channel: 0, body: vec![0x00, 0x53, 0x13, 0x45] },
        5 => Item::Frame { doff: 2, ftype: 0, channel: 0, body: (0..rng.range(1, 40)).map(|_| rng.next() as u8).collect() },
        6 => Item::Frame { doff: 2, ftype: 0, channel: 0, body: if rng.chance(1, 2) { deep_nest(*rng.pick(&[10usize, 200, 5000])) } else { padded_nest(*rng.pick(&[3usize, 200, 2000]), *rng.pick(&[100usize, 130, 300, 2000])) } },
        7 => {
            // a list32 claiming 4 GiB of content / 2^32-1 elements
            let mut body = vec![0x00, 0x53, 0x14, 0xd0];
            body.extend_from_slice(&0xffff_fff0u32.to_be_bytes());
            body.extend_from_slice(&0xffff_ffffu32.to_be_bytes());
            Item::Frame { doff: 2, ftype: 0, channel: 0, body }
        }
        8 => Item::TransferBeyondCredit(rng.range(1, 5) as u32),
        9 => Item::TransfersBeyondWindow(*rng.pick(&[50u32, 500])),
        10 => Item::DispositionHugeRange,
        11 => Item::DispositionUnknown,
        12 => Item::FlowUnattached,
        13 => Item::TransferUnattached,
        14 => Item::DuplicateAttach,
        15 => Item::AttachHandleInUse,
        16 => Item::FrameOnUnmappedChannel,
        17 => rng.pick(&[Item::SecondBegin, Item::EndUnmapped, Item::SecondOpen, Item::BeginFromPeer, Item::BeginUnknownRemoteChannel(1), Item::BeginUnknownRemoteChannel(7), Item::BeginUnknownRemoteChannel(65535)]).clone(),
        18 => rng.pick(&[Item::DetachUnattached, Item::TransferToSender, Item::AttachHugeHandle, Item::AttachRebind]).clone(),
        19 => Item::FirstFrameNotOpen(rng.below(4) as u8),
        21 | 22 => Item::UnusualFlow(rng.below(5) as u8),
        20 => {
            // a truncated but otherwise valid performative
            let full = Peer::encode_frame(0, &Performative::End(End { error: None }), &[]);
            let cut = rng.range(9, full.len() as u64 - 1) as usize;
            let body = full[8..cut].to_vec();
            Item::Frame { doff: 2, ftype: 0, channel: 0, body }
        }
        _ => Item::Nothing,
    }
}

pub fn main(opts: &Opts) {
    install_panic_counter();
    let mut report = Report::new(
        "C15",
        "a client with a session, a sender and a receiver against a peer that sends one hostile item and then behaves: raw byte strings with a \
         length field of 0..7 or beyond 2^31, frame headers with every kind of bad doff / type, random, truncated, 5000-deep and 4-GiB-claiming \
         bodies, and well-formed frames that violate the protocol (beyond credit, huge and unknown disposition ranges, unattached handles, \
         duplicate and colliding attaches, unmapped channels, begin / end / open out of turn, a begin for a remote-channel never allocated, a begin of the peer's own, a first frame that is not an open); afterwards the \
         client sends, receives, closes both links, ends the session and closes the connection under a 10-virtual-second limit each, with \
         panics, allocation and real time measured; non-trivial = every case but the control; distinct by hash of the item",
    );
    if let Some(path) = &opts.replay {
        let j: J = serde_json::from_str(&std::fs::read_to_string(path).expect("read")).expect("json");
        if let Some(b) = j.get("burst") {
            let g = |k: &str| b.get(k).and_then(|x| x.as_u64()).unwrap_or(1) as usize;
            let (held, burst) = (g("held"), g("burst"));
            match flow_burst(held, burst, g("conn_buf"), g("sess_buf")) {
                Ok((got, trace)) => {
                    for l in trace {
                        println!("{}", l);
                    }
                    println!("REPLAY: {} of {} transfers written{}", got, held, if got < held { ": property violated [wedged-by-a-burst-of-flows]" } else { ": property holds on this scenario" });
                    std::process::exit(if got < held { 1 } else { 0 });
                }
                Err(e) => {
                    println!("REPLAY: scenario failed: {}", e);
                    std::process::exit(1);
                }
            }
        }
        if let Some(item) = j.get("item").and_then(Item::from_json) {
            std::env::set_var("VERIF_TRACE", "1");
            let obs = match run_guarded(&item) {
                Some(o) => o,
                None => {
                    println!("REPLAY: property violated [endpoint-spins-or-blocks]: the scenario did not come back within 40 s of real time");
                    std::process::exit(1);
                }
            };
            for l in &obs.trace {
                println!("{}", l);
            }
            println!("panics {} allocated {} largest {} real {} ms\nops {:?}\nsetup {:?}", obs.panics, obs.allocated, obs.largest, obs.real_ms, obs.ops, obs.setup_failed);
            match check(&item, &obs) {
                Some((k, d)) => {
                    println!("REPLAY: property violated [{}]: {}", k, d);
                    std::process::exit(1);
                }
                None => {
                    println!("REPLAY: property holds on this scenario");
                    std::process::exit(0);
                }
            }
        }
        std::process::exit(2);
    }
    let mut rng = Rng::new(opts.seed ^ 0xc15);
    let mut corpus: Vec<Item> = vec![];
    if let Ok(rd) = std::fs::read_dir("/verif/corpus/C15") {
        let mut paths: Vec<_> = rd.filter_map(|e| e.ok().map(|e| e.path())).collect();
        paths.sort();
        for p in paths {
            if let Ok(txt) = std::fs::read_to_string(&p) {
                if let Ok(j) = serde_json::from_str::<J>(&txt) {
                    if let Some(c) = j.get("item").and_then(Item::from_json) {
                        corpus.push(c);
                    }
                }
            }
        }
    }
    report.count_n("corpus_cases", corpus.len() as u64);
    let n = if opts.thorough() { 6000 } else { 500 };
    let mut stuck = 0;
    for k in 0..(n + corpus.len() as u64) {
        let item = if (k as usize) < corpus.len() { corpus[k as usize].clone() } else { gen_item(&mut rng) };
        let obs = match run_guarded(&item) {
            Some(o) => o,
            None => {
                report.evaluations += 1;
                stuck += 1;
                report.finding(Finding { kind: "violation", key: "endpoint-spins-or-blocks".into(), description: format!("after {:?} the endpoint's own calls (close / end / detach, sends) did not come back within 40 s of real time: a task is busy without yielding", item), replay: json!({"property": "C15", "module": "hostile", "item": item.to_json()}) });
                if stuck >= 2 {
                    break;
                }
                continue;
            }
        };
        report.evaluations += 1;
        if item != Item::Nothing {
            report.nontrivial_case(fnv(&item.to_json().to_string()));
        }
        report.count(&format!("kind_{}", format!("{:?}", item).split(|c| c == '(' || c == ' ').next().unwrap_or("")));
        if k % (n / 4).max(1) == 0 {
            report.sample(item.to_json());
        }
        if let Some((key, desc)) = check(&item, &obs) {
            report.finding(Finding { kind: "violation", key, description: desc, replay: json!({"property": "C15", "module": "hostile", "item": item.to_json(), "ops": format!("{:?}", obs.ops)}) });
        }
    }
    // frame bodies nested beyond any stack are decoded in a child process (the exit status is the verdict)
    crate::codec::deep_nesting_probes(&mut report, "C15");
    flow_bursts(&mut rng, opts, &mut report);
    header_correspondence(&mut rng, opts, &mut report);
    report.write(&opts.report);
    println!("hostile: {} cases, {} non-trivial, {} findings", report.evaluations, report.nontrivial.len(), report.findings.len());
    // abandoned threads, if any, end with the process
    std::process::exit(0);
}

/// a peer that floods an endpoint whose queues are small: it keeps its window shut while the client
/// piles up transfers, then opens it with one flow followed at once by a burst of further flows.  The
/// client must write every transfer (neither engine may wait for the other for ever).
fn flow_burst(held: usize, burst: usize, conn_buf: usize, sess_buf: usize) -> Result<(usize, Vec<String>), String> {
    let rt = paused_runtime();
    rt.block_on(async move {
        let (cio, pio) = tokio::io::duplex(1 << 20);
        let mut peer = Peer::new(pio);
        let client = tokio::spawn(async move {
            let mut conn = Connection::builder().container_id("burst").buffer_size(conn_buf).open_with_stream(cio).await.map_err(|e| format!("open: {:?}", e))?;
            let mut session = Session::builder().buffer_size(sess_buf).begin(&mut conn).await.map_err(|e| format!("begin: {:?}", e))?;
            let mut sender = Sender::builder().name("burst").target("q").sender_settle_mode(fe2o3_amqp_types::definitions::SenderSettleMode::Settled).attach(&mut session).await.map_err(|e| format!("attach: {:?}", e))?;
            for k in 0..held {
                match tokio::time::timeout(Duration::from_secs(5), sender.send(format!("m{}", k))).await {
                    Ok(Ok(_)) => {}
                    other => return Err(format!("send {}: {:?}", k, other.map(|r| r.map(|_| ())))),
                }
            }
            tokio::time::sleep(Duration::from_secs(30)).await;
            let _ = tokio::time::timeout(Duration::from_secs(5), sender.close()).await;
            let _ = tokio::time::timeout(Duration::from_secs(5), session.end()).await;
            let _ = tokio::time::timeout(Duration::from_secs(5), conn.close()).await;
            Ok::<(), String>(())
        });
        peer.accept_open(&PeerOpen::default()).await.map_err(|e| format!("{:?}", e))?;
        let (_, begin) = peer.accept_begin(0, 0, 0, 2048).await.map_err(|e| format!("{:?}", e))?;
        let _ = peer.accept_attach(0, 9, None, ReceiverSettleMode::First).await.map_err(|e| format!("{:?}", e))?;
        let grant = Flow { next_incoming_id: Some(begin.next_outgoing_id), incoming_window: 0, next_outgoing_id: 0, outgoing_window: 2048, handle: Some(Handle(9)), delivery_count: Some(0), link_credit: Some(10_000), available: None, drain: false, echo: false, properties: None };
        peer.send(0, Performative::Flow(grant), &[]).await.map_err(|e| format!("{:?}", e))?;
        // let the client pile its transfers up behind the shut window
        tokio::time::sleep(Duration::from_millis(500)).await;
        // one write: the flow that opens the window and the burst behind it
        let mut bytes = vec![];
        for _ in 0..(1 + burst) {
            let f = Flow { next_incoming_id: Some(begin.next_outgoing_id), incoming_window: 100_000, next_outgoing_id: 0, outgoing_window: 2048, handle: None, delivery_count: None, link_credit: None, available: None, drain: false, echo: false, properties: None };
            bytes.extend_from_slice(&Peer::encode_frame(0, &Performative::Flow(f), &[]));
        }
        peer.send_raw(&bytes).await.map_err(|e| format!("{:?}", e))?;
        let mut got = 0usize;
        peer.recv_timeout = Duration::from_secs(5);
        while got < held {
            match peer.recv().await {
                Ok(Incoming::Frame { performative: Performative::Transfer(_), .. }) => got += 1,
                Ok(_) => {}
                Err(_) => break,
            }
        }
        client.abort();
        Ok((got, peer.trace_lines().into_iter().rev().take(12).rev().collect()))
    })
}

fn flow_bursts(rng: &mut Rng, opts: &Opts, report: &mut Report) {
    let n = if opts.thorough() { 60 } else { 8 };
    for k in 0..n {
        let (held, burst, cb, sb) = if k == 0 { (64usize, 16usize, 1usize, 1usize) } else { (rng.range(2, 80) as usize, rng.range(0, 40) as usize, *rng.pick(&[1usize, 2, 8]), *rng.pick(&[1usize, 2, 8])) };
        report.evaluations += 1;
        report.count("flow_bursts");
        report.nontrivial_case(fnv(&format!("burst{}/{}/{}/{}", held, burst, cb, sb)));
        match flow_burst(held, burst, cb, sb) {
            Ok((got, trace)) if got < held => report.finding(Finding {
                kind: "violation",
                key: "wedged-by-a-burst-of-flows".into(),
                description: format!("{} transfers were held behind a shut window; the peer opened it and sent {} more flows in the same write (connection buffer {}, session buffer {}): only {} transfers were ever written, the endpoint is stuck", held, burst, cb, sb, got),
                replay: json!({"property": "C15", "module": "hostile", "burst": {"held": held, "burst": burst, "conn_buf": cb, "sess_buf": sb}, "trace": trace}),
            }),
            Ok(_) => {}
            Err(e) => report.finding(Finding { kind: "violation", key: "flow-burst-scenario-failed".into(), description: e, replay: json!({"property": "C15", "module": "hostile", "burst": {"held": held, "burst": burst, "conn_buf": cb, "sess_buf": sb}}) }),
        }
    }
}

/// the two frame decoders' header step on short byte strings, against the model
fn header_correspondence(rng: &mut Rng, opts: &Opts, report: &mut Report) {
    use bytes::BytesMut;
    use tokio_util::codec::Decoder;
    let mut inputs: Vec<Vec<u8>> = vec![];
    // every string of up to three bytes drawn from a few values, then random ones around the header size
    let alphabet = [0u8, 1, 2, 3, 0x20, 0x82, 0xff];
    inputs.push(vec![]);
    for a in alphabet {
        inputs.push(vec![a]);
        for b in alphabet {
            inputs.push(vec![a, b]);
            for c in alphabet {
                inputs.push(vec![a, b, c]);
            }
        }
    }
    let n = if opts.thorough() { 20000 } else { 2000 };
    for _ in 0..n {
        let len = rng.range(3, 12) as usize;
        let mut b: Vec<u8> = (0..len).map(|_| rng.next() as u8).collect();
        if rng.chance(3, 4) && len >= 2 {
            b[0] = *rng.pick(&[2u8, 2, 2, 0, 3]);
            b[1] = *rng.pick(&[0u8, 0, 1, 1, 2]);
        }
        inputs.push(b);
    }
    let mut lines = vec![];
    let mut imp = vec![];
    let prev_hook = std::panic::take_hook();
    std::panic::set_hook(Box::new(|_| {}));
    for bs in &inputs {
        for layer in ["amqp", "sasl"] {
            report.evaluations += 1;
            report.nontrivial_case(fnv(&format!("{}{}", layer, hex(bs))));
            let r = std::panic::catch_unwind(|| {
                let mut src = BytesMut::from(&bs[..]);
                if layer == "amqp" {
                    let mut d = fe2o3_amqp::frames::amqp::FrameDecoder {};
                    match d.decode(&mut src) {
                        Ok(Some(f)) => format!("header {}", f.channel()),
                        Ok(None) => "none".to_string(),
                        Err(fe2o3_amqp::frames::Error::NotImplemented) => "notImplemented".to_string(),
                        Err(fe2o3_amqp::frames::Error::Io(e)) if e.kind() == std::io::ErrorKind::InvalidData => "tooShort".to_string(),
                        // the header was accepted, the body was not (C04's business)
                        Err(_) => "header ?".to_string(),
                    }
                } else {
                    let mut d = fe2o3_amqp::frames::sasl::FrameCodec {};
                    match d.decode(&mut src) {
                        Ok(Some(_)) => "header ?".to_string(),
                        Ok(None) => "none".to_string(),
                        Err(fe2o3_amqp::frames::Error::NotImplemented) => "notImplemented".to_string(),
                        Err(fe2o3_amqp::frames::Error::Io(e)) if e.kind() == std::io::ErrorKind::InvalidData => "tooShort".to_string(),
                        Err(_) => "header ?".to_string(),
                    }
                }
            });
            let out = r.unwrap_or_else(|_| "panic".to_string());
            if out == "panic" {
                report.finding(Finding { kind: "violation", key: format!("panic:frame-header:{}", layer), description: format!("the {} frame decoder panicked on {}", layer, hex(bs)), replay: json!({"property": "C15", "module": "hostile", "item": {"raw_header": hex(bs), "layer": layer}}) });
            }
            lines.push(format!("F hdr {} {}", layer, if bs.is_empty() { "-".to_string() } else { hex(bs) }));
            imp.push(out);
        }
    }
    std::panic::set_hook(prev_hook);
    if driver_available() {
        match run_driver(&lines) {
            Ok(model) => {
                report.model_used = true;
                report.model_lines = model.len() as u64;
                let mut bad = 0;
                for i in 0..model.len().min(imp.len()) {
                    let same = model[i] == imp[i] || (imp[i] == "header ?" && model[i].starts_with("header"));
                    if !same {
                        if bad == 0 {
                            report.finding(Finding { kind: "disagreement", key: "model-vs-implementation".into(), description: format!("{} -> implementation {} model {}", lines[i], imp[i], model[i]), replay: json!({"property": "C15", "module": "hostile", "line": lines[i], "implementation": imp[i], "model": model[i]}) });
                        }
                        bad += 1;
                    }
                }
                report.count_n("lines_disagreeing_with_model", bad);
            }
            Err(e) => report.notes.push(format!("model driver failed: {}", e)),
        }
    } else {
        report.notes.push("model driver not available: correspondence skipped".into());
    }
}
