#!/bin/sh
# Applies a seeded change to /repo, runs the quick tier of the given checks, undoes the change.
#   tools/seeded_try.sh <dir with patch.diff> [--baseline] [--all | Cxx ...]
# Prints one line per check: "<id> rc=<n> <VIOLATION line or ->".  /repo must be clean before.
d=$1; shift
base=0; props=""
for a in "$@"; do
  case $a in
    --baseline) base=1 ;;
    --all) props="C01 C02 C03 C04 C05 C06 C07 C08 C09 C10 C11 C12 C13 C14 C15 C16 C17 C18 C19 C20" ;;
    *) props="$props $a" ;;
  esac
done
[ -n "$props" ] || props=$(python3 -c "import json,sys; print(json.load(open('$d/meta.json'))['property'])")
cd /verif || exit 2
if [ -n "$(git -C /repo status --porcelain --untracked-files=no)" ]; then echo "/repo is not clean"; exit 2; fi
git -C /repo apply "$d/patch.diff" || { echo "patch does not apply"; exit 2; }
# undo the change, and bring the generated files back to what the unchanged tree gives (they are committed)
trap 'git -C /repo checkout -- . ; /verif/tools/rs2lean/target/debug/rs2lean /repo /verif/lean/Amqp/Gen /verif/harness/src/gen_typed.rs >/dev/null 2>&1' EXIT INT TERM
if [ $base = 1 ]; then sh tools/baseline.sh | tail -3; fi
for p in $props; do
  out=$(VERIF_SEED=${VERIF_SEED:-1} ./run.sh $p quick 2>&1); rc=$?
  v=$(echo "$out" | grep -m1 '^VIOLATION' || echo -)
  echo "$p rc=$rc $v"
  if [ $rc != 0 ]; then
    f=$(echo "$v" | sed -n 's/.*replay=\([^ ]*\).*/\1/p')
    [ -n "$f" ] && [ -f "$f" ] && python3 - "$f" <<'E'
import json,sys
j=json.load(open(sys.argv[1]))
def short(x, n=300):
    s=json.dumps(x) if not isinstance(x,str) else x
    return s[:n]
for k in ('kind','key','no_longer_checks','description'):
    if k in j: print('   ', k+':', short(j[k]))
E
  fi
done
