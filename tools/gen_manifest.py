#!/usr/bin/env python3
"""Writes MANIFEST.json from tools/props.py (kept valid at all times)."""
import json, os, subprocess, sys
VERIF = os.path.dirname(os.path.dirname(os.path.abspath(__file__)))
sys.path.insert(0, os.path.join(VERIF, "tools"))
from props import PROPS

ALL = [f"C{n:02d}" for n in range(1, 21)]
PENDING = getattr(__import__("props"), "PENDING", {})

def hook_commits():
    try:
        out = subprocess.run(["git", "-C", "/repo", "log", "--format=%H %s"], capture_output=True, text=True).stdout
        return [l.split()[0] for l in out.splitlines() if "verif hook" in l]
    except Exception:
        return []

checks = []
for pid in ALL:
    if pid not in PROPS:
        continue
    c = PROPS[pid]
    checks.append({
        "property_id": pid,
        "quick_cmd": f"./run.sh {pid} quick",
        "thorough_cmd": f"./run.sh {pid} thorough",
        "evidence_file": f"/verif/evidence/{pid}.json",
        "replay_cmd_template": f"./run.sh replay {pid} {{path}}",
        "engine": "lean4-proof+correspondence",
        "level_claimed": {"category": "proof", "text": c["level_text"], "design_ref": c.get("design_ref", "DESIGN.md §7")},
        "level_note": c["level_note"],
        "technique": c["technique"],
    })

manifest = {
    "version": 1,
    "setup_cmd": "./run.sh setup",
    "hooks": {
        "guard": "fe2o3_amqp_verif",
        "enable": "RUSTFLAGS=--cfg fe2o3_amqp_verif (set in harness/.cargo/config.toml); adds the module fe2o3_amqp::verif",
        "baseline_off_cmd": "cd /repo && cargo test --workspace --no-fail-fast --offline",
        "source_commits": hook_commits(),
        "add_only": True,
    },
    "engines": [
        {"name": "lean4-proof+correspondence", "path": "lean/", "serves_properties": [c["property_id"] for c in checks],
         "kind_free_text": "Lean 4 lake project: executable models (Amqp/), generated kernels (Amqp/Gen, by tools/rs2lean), property theorems (Theorems/), line-protocol driver (Driver/)"},
        {"name": "rs2lean", "path": "tools/rs2lean/", "serves_properties": [c["property_id"] for c in checks],
         "kind_free_text": "Rust/syn translator regenerating Amqp/Gen/*.lean from /repo on every run"},
        {"name": "vharness", "path": "harness/", "serves_properties": [c["property_id"] for c in checks],
         "kind_free_text": "Rust correspondence + search harness calling the real code in-process (cfg fe2o3_amqp_verif)"},
    ],
    "checks": checks,
    "notes": "Single entry point run.sh -> tools/check.py. Known findings: known_findings.txt. See DESIGN.md.",
    "not_applicable": [
        {"property_id": pid, "reason": PENDING.get(pid, "check not yet built in this revision of /verif (planned, see DESIGN.md §7); nothing is claimed for it")}
        for pid in ALL if pid not in PROPS
    ],
}
json.dump(manifest, open(os.path.join(VERIF, "MANIFEST.json"), "w"), indent=1)
print("MANIFEST.json:", len(checks), "checks,", len(manifest["not_applicable"]), "not claimed")
