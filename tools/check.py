#!/usr/bin/env python3
"""Single entry point of the verification machinery.

    check.py setup
    check.py <Cxx> quick|thorough
    check.py replay <Cxx> <file>

For one property the check
  1. regenerates lean/Amqp/Gen/*.lean from /repo's working tree (tools/rs2lean),
  2. re-checks the property theorems (lake build Theorems.Cxx) and audits axioms,
  3. rebuilds the Rust harness against /repo (cfg fe2o3_amqp_verif) and runs its
     modules: search for a failing input on the implementation + correspondence
     of the Lean model's executable definitions with the implementation,
  4. writes evidence/Cxx.json and prints the verdict.
"""
import fcntl
import hashlib
import json
import os
import re
import subprocess
import sys
import time

VERIF = os.path.dirname(os.path.dirname(os.path.abspath(__file__)))
REPO = os.environ.get("VERIF_REPO", "/repo")
LEAN = os.path.join(VERIF, "lean")
HARNESS = os.path.join(VERIF, "harness")
RS2LEAN = os.path.join(VERIF, "tools", "rs2lean")
ALLOWED_AXIOMS = {"propext", "Classical.choice", "Quot.sound"}
FORBIDDEN = re.compile(r"\b(sorry|admit|native_decide|bv_decide|implemented_by|unsafe)\b|^\s*axiom\s|maxHeartbeats\s+0")

sys.path.insert(0, os.path.join(VERIF, "tools"))
from props import PROPS  # noqa: E402

ENV = dict(os.environ)
ENV["CARGO_NET_OFFLINE"] = "true"
ENV.setdefault("CARGO_TERM_COLOR", "never")


def sh(cmd, cwd=None, timeout=None, env=None):
    p = subprocess.run(cmd, cwd=cwd, env=env or ENV, stdout=subprocess.PIPE, stderr=subprocess.STDOUT,
                       text=True, timeout=timeout)
    return p.returncode, p.stdout


def log(msg):
    print(msg, flush=True)


# --------------------------------------------------------------------------- build steps

def build_translator():
    return sh(["cargo", "build", "--offline", "--quiet"], cwd=RS2LEAN)


def run_translator():
    exe = os.path.join(RS2LEAN, "target", "debug", "rs2lean")
    rc, out = build_translator()
    if rc != 0:
        return rc, out
    return sh([exe, REPO, os.path.join(LEAN, "Amqp", "Gen"), os.path.join(HARNESS, "src", "gen_typed.rs")])


def lake_build(targets):
    return sh(["lake", "build"] + targets, cwd=LEAN)


def build_harness():
    return sh(["cargo", "build", "--release", "--offline", "--quiet"], cwd=HARNESS)


def strip_comments(text):
    # remove /- ... -/ (nested not handled beyond one level) and -- line comments
    text = re.sub(r"/-.*?-/", lambda m: "\n" * m.group(0).count("\n"), text, flags=re.S)
    return "\n".join(l.split("--")[0] for l in text.split("\n"))


def grep_forbidden():
    hits = []
    for root in ("Amqp", "Theorems", "Driver"):
        for dp, _, fns in os.walk(os.path.join(LEAN, root)):
            for fn in fns:
                if fn.endswith(".lean"):
                    p = os.path.join(dp, fn)
                    txt = strip_comments(open(p).read())
                    for i, line in enumerate(txt.split("\n"), 1):
                        if FORBIDDEN.search(line):
                            hits.append(f"{os.path.relpath(p, LEAN)}:{i}: {line.strip()}")
    return hits


def audit_axioms(pid, module, theorems):
    """returns ({theorem: [axioms]}, raw_output, ok)"""
    path = os.path.join(LEAN, ".lake", f"Audit_{pid}.lean")
    os.makedirs(os.path.dirname(path), exist_ok=True)
    with open(path, "w") as f:
        f.write(f"import {module}\n")
        for t in theorems:
            f.write(f"#print axioms {t}\n")
    rc, out = sh(["lake", "env", "lean", path], cwd=LEAN)
    res = {}
    # output blocks: "'name' depends on axioms: [a, b]" or "'name' does not depend on any axioms"
    flat = re.sub(r"\s+", " ", out)
    for t in theorems:
        m = re.search(r"'" + re.escape(t) + r"' depends on axioms: \[([^\]]*)\]", flat)
        if m:
            res[t] = [a.strip() for a in m.group(1).split(",") if a.strip()]
        elif re.search(r"'" + re.escape(t) + r"' does not depend on any axioms", flat):
            res[t] = []
    ok = rc == 0 and all(t in res and set(res[t]) <= ALLOWED_AXIOMS for t in theorems)
    return res, out, ok


def first_lean_error(out):
    """(file, line, message) of the first error in lake output, and the enclosing theorem"""
    m = re.search(r"error: ([\w/\.]+\.lean):(\d+):(\d+): (.*)", out)
    if not m:
        return None
    f, line, _, msg = m.group(1), int(m.group(2)), m.group(3), m.group(4)
    thm = None
    try:
        lines = open(os.path.join(LEAN, f)).read().split("\n")
        for i in range(min(line, len(lines)) - 1, -1, -1):
            mm = re.match(r"\s*(?:private\s+)?(theorem|lemma|def|example|instance)\s+([\w\.']+)?", lines[i])
            if mm:
                thm = (mm.group(2) or mm.group(1))
                break
    except OSError:
        pass
    return {"file": f, "line": line, "message": msg[:400], "declaration": thm}


# --------------------------------------------------------------------------- known findings

def load_known(pid):
    known, fixed = [], []
    p = os.path.join(VERIF, "known_findings.txt")
    if os.path.exists(p):
        for line in open(p):
            line = line.strip()
            if not line or line.startswith("#"):
                continue
            m = re.match(r"known: property=(\S+) key=(\S+) (.*)", line)
            if m and m.group(1) == pid:
                known.append((m.group(2), m.group(3)))
            m = re.match(r"fixed: property=(\S+) (\S+) (.*)", line)
            if m and m.group(1) == pid:
                fixed.append((m.group(2), m.group(3)))
    return known, fixed


def write_replay(pid, payload):
    os.makedirs(os.path.join(VERIF, "replays"), exist_ok=True)
    blob = json.dumps(payload, indent=1, sort_keys=True)
    h = hashlib.sha1(blob.encode()).hexdigest()[:10]
    path = os.path.join(VERIF, "replays", f"{pid}-{h}.json")
    with open(path, "w") as f:
        f.write(blob)
    return path


# --------------------------------------------------------------------------- main check

def check(pid, tier):
    t0 = time.time()
    cfg = PROPS[pid]
    seed = int(os.environ.get("VERIF_SEED", "1"))
    os.makedirs(os.path.join(VERIF, "evidence"), exist_ok=True)
    lock = open(os.path.join(VERIF, ".lock"), "w")
    fcntl.flock(lock, fcntl.LOCK_EX)

    broken = []      # broken ties / proof obligations: dicts with 'what' and details
    notes = []

    # 1. translator
    rc, out = run_translator()
    translator_ok = rc == 0
    if rc != 0:
        broken.append({"what": "translator", "detail": out[-1500:]})
    log(f"[{pid}] translator: {'ok' if translator_ok else 'FAILED'}")

    # 2. proofs
    module = cfg["module"]
    theorems = cfg["theorems"]
    rc, out = lake_build([module])
    proofs_ok = rc == 0
    axioms = {}
    if not proofs_ok:
        err = first_lean_error(out)
        broken.append({"what": "proof", "module": module, "error": err, "detail": out[-2500:]})
        log(f"[{pid}] lake build {module}: FAILED at {err}")
    else:
        axioms, aout, aok = audit_axioms(pid, module, theorems)
        if not aok:
            proofs_ok = False
            broken.append({"what": "axiom-audit", "axioms": axioms, "detail": aout[-1500:]})
        hits = grep_forbidden()
        if hits:
            proofs_ok = False
            broken.append({"what": "forbidden-construct", "hits": hits[:20]})
        log(f"[{pid}] lake build {module}: ok; {len(axioms)}/{len(theorems)} theorems audited")
    leanchecker = None
    if proofs_ok and tier == "thorough":
        rc, out = sh(["lake", "env", "leanchecker", module], cwd=LEAN)
        leanchecker = (rc == 0)
        if rc != 0:
            proofs_ok = False
            broken.append({"what": "leanchecker", "detail": out[-1500:]})
        log(f"[{pid}] leanchecker {module}: {'ok' if rc == 0 else 'FAILED'}")

    # driver (model executable); if it cannot be built the harness runs without the model
    rc, out = lake_build(["driver"])
    driver_ok = rc == 0
    if not driver_ok:
        err = first_lean_error(out)
        broken.append({"what": "model-driver", "error": err, "detail": out[-1500:]})
        log(f"[{pid}] lake build driver: FAILED")

    # 3./4. harness: search + correspondence
    rc, out = build_harness()
    harness_ok = rc == 0
    reports = []
    if not harness_ok:
        broken.append({"what": "harness-build", "detail": out[-2500:]})
        log(f"[{pid}] harness build: FAILED")
    else:
        exe = os.path.join(HARNESS, "target", "release", "vharness")
        for mod in cfg["harness"]:
            rpath = os.path.join(VERIF, "evidence", f".{pid}-{mod}.report.json")
            if os.path.exists(rpath):
                os.remove(rpath)
            env = dict(ENV)
            if not driver_ok:
                env["VERIF_NO_MODEL"] = "1"
            t1 = time.time()
            try:
                rc, out = sh([exe, mod, "--tier", tier, "--seed", str(seed), "--report", rpath, "--property", pid],
                             cwd=VERIF, env=env, timeout=cfg.get("timeout", 900 if tier == "quick" else 5400))
            except subprocess.TimeoutExpired:
                rc, out = 124, f"timeout: the harness module did not finish within its time limit ({tier} tier); on the unchanged tree it takes seconds"
            log(f"[{pid}] harness {mod}: rc={rc} {time.time() - t1:.1f}s :: {out.strip().splitlines()[-1] if out.strip() else ''}")
            if rc != 0 or not os.path.exists(rpath):
                broken.append({"what": "harness-run", "module": mod, "rc": rc, "detail": out[-2500:]})
                continue
            rep = json.load(open(rpath))
            os.remove(rpath)
            rep["module"] = mod
            reports.append(rep)
            if driver_ok and not rep.get("model_used", False) and cfg.get("needs_model", True):
                broken.append({"what": "correspondence-not-run", "module": mod, "notes": rep.get("notes")})

    # 5. verdict
    known, fixed = load_known(pid)
    known_keys = {k for k, _ in known}
    violations = []      # genuine: implementation breaks the property on a concrete input
    disagreements = []   # model vs implementation
    known_hit = {}
    for rep in reports:
        for f in rep.get("findings", []):
            if f["kind"] == "violation":
                if f["key"] in known_keys:
                    known_hit[f["key"]] = f
                else:
                    violations.append(f)
            else:
                disagreements.append(f)

    lines = []
    exit_code = 0
    for k, desc in known:
        if k in known_hit:
            lines.append(f"KNOWN-FINDING: property={pid} {k}: {desc}")
        else:
            notes.append(f"known finding {k} did not reproduce in this run")
    for f in violations:
        path = write_replay(pid, {"property": pid, "kind": "violation", "key": f["key"],
                                  "description": f["description"], "replay": f["replay"], "tier": tier, "seed": seed})
        lines.append(f"VIOLATION property={pid} replay={path}")
        log(f"[{pid}] violation [{f['key']}]: {f['description']}")
        exit_code = 1
    if not violations:
        for f in disagreements:
            path = write_replay(pid, {"property": pid, "kind": "correspondence-broken", "key": f["key"],
                                      "description": f["description"], "replay": f["replay"], "tier": tier,
                                      "seed": seed,
                                      "no_longer_checks": f"correspondence of the Lean model with the implementation ({f['key']})"})
            lines.append(f"VIOLATION property={pid} replay={path} no-failing-input-found")
            log(f"[{pid}] correspondence broken [{f['key']}]: {f['description']}")
            exit_code = 1
        for b in broken:
            name = b["what"]
            if b.get("error") and b["error"].get("declaration"):
                name = f"{b['what']}: {b['error']['declaration']} ({b['error']['file']}:{b['error']['line']})"
            path = write_replay(pid, {"property": pid, "kind": "obligation-broken", "no_longer_checks": name,
                                      "detail": b, "tier": tier, "seed": seed})
            lines.append(f"VIOLATION property={pid} replay={path} no-failing-input-found")
            exit_code = 1
    else:
        # a concrete failing input was found; broken obligations are recorded in the evidence only
        pass

    # evidence
    evaluations = sum(r.get("evaluations", 0) for r in reports)
    nontrivial = sum(r.get("distinct_nontrivial", 0) for r in reports)
    samples = []
    for r in reports:
        samples.extend(r.get("samples", [])[:3])
    obligations = len(theorems) + len(cfg.get("gen_obligations", []))
    discharged = sum(1 for t in theorems if t in axioms and set(axioms[t]) <= ALLOWED_AXIOMS) if proofs_ok else 0
    if proofs_ok:
        discharged += len(cfg.get("gen_obligations", []))
    coverage = {
        "obligations": obligations,
        "discharged": discharged,
        "checker_cmd": f"cd lean && lake build {module} && lake env lean .lake/Audit_{pid}.lean  # + leanchecker in the thorough tier",
        "trusted_base": cfg.get("trusted_base", []) + [
            "Lean 4.33.0 kernel" + (" (re-checked by leanchecker)" if leanchecker else ""),
            "tools/rs2lean translator and Amqp/U32.lean operator semantics",
            "harness/ (generators, canonicalisation) and the compiled Lean driver",
        ],
        "theorems": theorems,
        "axioms": axioms,
        "generated_files": cfg.get("gen_files", []),
        "evaluations": evaluations,
        "distinct_nontrivial": nontrivial,
        "rule": " | ".join(r.get("rule", "") for r in reports),
        "samples": samples if samples else [f"theorem {t}" for t in theorems[:3]],
        "distribution": {r["module"]: r.get("distribution", {}) for r in reports},
        "model_lines_compared": sum(r.get("model_lines", 0) for r in reports),
        "disagreements_checked": sum(r.get("model_lines", 0) for r in reports),
        "correspondence_disagreements": len(disagreements),
        "broken_obligations": [b["what"] for b in broken],
        "known_findings_reproduced": sorted(known_hit.keys()),
        "fixed_findings": [f"{c} {d}" for c, d in fixed],
        "notes": notes + sum((r.get("notes", []) for r in reports), []),
        "extra": {r["module"]: r.get("extra", {}) for r in reports},
    }
    if discharged == 0:
        # schema: a proof-level record with discharged = 0 is not a proof record; fall back to the counts
        coverage["discharged_count"] = coverage.pop("discharged")
        coverage["evaluations"] = max(evaluations, 1)
        coverage["distinct_nontrivial"] = max(nontrivial, 2) if nontrivial >= 2 else 2
        coverage["explanation"] = "proof obligations did not check on this tree; see broken_obligations"
    evidence = {
        "property_id": pid,
        "tier": tier,
        "seed": seed,
        "level": "proof",
        "coverage": coverage,
        "assumptions": cfg.get("assumptions", []),
        "wall_s": round(time.time() - t0, 2),
        "violations": len(violations) + (len(disagreements) + len(broken) if not violations else 0),
    }
    with open(os.path.join(VERIF, "evidence", f"{pid}.json"), "w") as f:
        json.dump(evidence, f, indent=1)
    for l in lines:
        print(l, flush=True)
    log(f"[{pid}] {tier}: {'PASS' if exit_code == 0 else 'FAIL'} in {evidence['wall_s']}s "
        f"({discharged}/{obligations} obligations, {evaluations} cases, {nontrivial} non-trivial)")
    return exit_code


def setup():
    lock = open(os.path.join(VERIF, ".lock"), "w")
    fcntl.flock(lock, fcntl.LOCK_EX)
    for name, (rc, out) in (
        ("translator build", build_translator()),
        ("translator run", run_translator()),
        ("lake build", lake_build([])),
        ("harness build", build_harness()),
    ):
        log(f"setup: {name}: {'ok' if rc == 0 else 'FAILED'}")
        if rc != 0:
            print(out[-4000:])
            return 1
    return 0


def replay(pid, path):
    cfg = PROPS[pid]
    j = json.load(open(path))
    if j.get("kind") == "obligation-broken":
        print(f"replay names a broken obligation, not an input: {j.get('no_longer_checks')}")
        rc, out = lake_build([cfg["module"]])
        print(out[-2000:])
        return 1 if rc != 0 else 0
    rc, out = build_harness()
    if rc != 0:
        print(out[-2000:])
        return 2
    mod = j.get("replay", {}).get("module") or cfg["harness"][0]
    exe = os.path.join(HARNESS, "target", "release", "vharness")
    tmp = os.path.join(VERIF, "replays", ".current.json")
    json.dump(j.get("replay", j), open(tmp, "w"))
    p = subprocess.run([exe, mod, "--replay", tmp, "--property", pid], cwd=VERIF, env=ENV)
    return p.returncode


def main():
    a = sys.argv[1:]
    if a and a[0] == "setup":
        sys.exit(setup())
    if a and a[0] == "replay" and len(a) == 3:
        sys.exit(replay(a[1], a[2]))
    if len(a) == 2 and a[0] in PROPS and a[1] in ("quick", "thorough"):
        sys.exit(check(a[0], a[1]))
    print(__doc__)
    sys.exit(64)


if __name__ == "__main__":
    main()
