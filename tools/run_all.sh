#!/bin/sh
# Runs every claimed check (quick by default) and prints one line per property.
# usage: tools/run_all.sh [quick|thorough] [seed]
cd "$(dirname "$0")/.." || exit 2
tier="${1:-quick}"
seed="${2:-1}"
rc=0
for id in $(python3 -c "import json;print(' '.join(c['property_id'] for c in json.load(open('MANIFEST.json'))['checks']))"); do
  out=$(VERIF_SEED="$seed" ./run.sh "$id" "$tier" 2>&1)
  code=$?
  echo "$out" | grep -E "VIOLATION|\] (quick|thorough): " | cut -c1-220
  [ $code -ne 0 ] && rc=1
done
exit $rc
