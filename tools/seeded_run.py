#!/usr/bin/env python3
"""Processes one seeded change delivered by a seeding agent in /tmp/seed/<Cxx>/out/<k>:
confirms it in a scratch clone (demo passes before, fails after, the repository's suite still passes),
applies it to /repo, runs the quick tier of the property's check (and of any other check named),
undoes it, and stores patch, demo and the outcome under /verif/seeded/<Cxx>-<k>/.

    tools/seeded_run.py C07 1 [C01 C13 ...]
"""
import json
import os
import re
import shutil
import subprocess
import sys
from concurrent.futures import ThreadPoolExecutor

VERIF = os.path.dirname(os.path.dirname(os.path.abspath(__file__)))
SEED_ROOT = os.environ.get("SEED_ROOT", "/tmp/seed2")
SEED_TAG = os.environ.get("SEED_TAG", "b")  # round 1: "", round 2: "b"


def run(cmd):
    p = subprocess.run(cmd, stdout=subprocess.PIPE, stderr=subprocess.STDOUT, text=True)
    return p.returncode, p.stdout


def main():
    pid, k = sys.argv[1], sys.argv[2]
    others = [a for a in sys.argv[3:] if not a.startswith("--")]
    confirm_only = "--confirm-only" in sys.argv
    src = f"{SEED_ROOT}/{pid}/out/{k}"
    meta = json.load(open(os.path.join(src, "meta.json")))
    if confirm_only:
        rc_c, out_c = run([os.path.join(VERIF, "tools", "seeded_confirm.sh"), src])
        m = re.search(r"demo: before rc=(\d+) after rc=(\d+)", out_c)
        before, after = (int(m.group(1)), int(m.group(2))) if m else (None, None)
        m = re.search(r"baseline: (\d+) stable tests, (\d+) missing", out_c)
        missing = int(m.group(2)) if m else None
        ok = before == 0 and after not in (0, None) and missing == 0
        mp = os.path.join(VERIF, "seeded", f"{pid}-{SEED_TAG}{k}", "meta.json")
        j = json.load(open(mp))
        j["confirmed"] = {"demo_before_rc": before, "demo_after_rc": after, "suite_missing": missing, "ok": ok}
        json.dump(j, open(mp, "w"), indent=1)
        print(f"{pid}-{k}: confirmed={ok} (before={before} after={after} missing={missing})")
        if not ok:
            print(out_c[-1500:])
        return
    try_only = "--try-only" in sys.argv
    pre = os.path.join(src, "confirm.txt")

    def confirm():
        # a confirmation made beforehand (tools/seeded_confirm.sh <dir> > <dir>/confirm.txt, possibly in parallel
        # in several scratch clones) is used as it is
        if os.environ.get("SEED_WAIT_CONFIRM"):
            import time
            for _ in range(3600):
                if os.path.exists(pre) and "baseline:" in open(pre).read():
                    break
                time.sleep(2)
        if os.path.exists(pre) and "baseline:" in open(pre).read():
            return 0, open(pre).read()
        return run([os.path.join(VERIF, "tools", "seeded_confirm.sh"), src])

    with ThreadPoolExecutor(2) as ex:
        fc = ex.submit(run, ["true"]) if try_only else ex.submit(confirm)
        ft = ex.submit(run, [os.path.join(VERIF, "tools", "seeded_try.sh"), src, pid] + others)
        rc_c, out_c = fc.result()
        rc_t, out_t = ft.result()
    m = re.search(r"demo: before rc=(\d+) after rc=(\d+)", out_c)
    before, after = (int(m.group(1)), int(m.group(2))) if m else (None, None)
    m = re.search(r"baseline: (\d+) stable tests, (\d+) missing", out_c)
    missing = int(m.group(2)) if m else None
    confirmed = before == 0 and after not in (0, None) and missing == 0
    old = None
    if try_only:
        old = json.load(open(os.path.join(VERIF, "seeded", f"{pid}-{SEED_TAG}{k}", "meta.json")))["confirmed"]
        confirmed = old["ok"]
    results = {}
    cur = None
    for line in out_t.splitlines():
        m = re.match(r"(C\d\d) rc=(\d+) (.*)", line)
        if m:
            cur = m.group(1)
            results[cur] = {"rc": int(m.group(2)), "line": m.group(3), "detail": {}}
            continue
        m = re.match(r"\s+(\w+): (.*)", line)
        if m and cur:
            results[cur]["detail"][m.group(1)] = m.group(2)
    own = results.get(pid, {"rc": None, "line": "", "detail": {}})
    caught = own["rc"] == 1 and own["line"].startswith("VIOLATION")
    d = own["detail"]
    if "no-failing-input-found" in own["line"]:
        how = "no longer checks: " + d.get("no_longer_checks", d.get("kind", ""))[:160] + " (no failing input found)"
    elif caught:
        how = "failing input found: " + d.get("key", d.get("kind", ""))
    else:
        how = "-"
    dst = os.path.join(VERIF, "seeded", f"{pid}-{SEED_TAG}{k}")
    shutil.rmtree(dst, ignore_errors=True)
    os.makedirs(dst)
    shutil.copy(os.path.join(src, "patch.diff"), dst)
    if os.path.isdir(os.path.join(src, "demo")):
        shutil.copytree(os.path.join(src, "demo"), os.path.join(dst, "demo"))
    meta.update({
        "id": f"{pid}-{SEED_TAG}{k}",
        "confirmed": old or {"demo_before_rc": before, "demo_after_rc": after, "suite_missing": missing, "ok": confirmed},
        "caught": "yes" if caught else "NO",
        "how": how,
        "also_caught_by": sorted(p for p, r in results.items() if p != pid and r["rc"] == 1),
        "checked_with": sorted(results),
    })
    json.dump(meta, open(os.path.join(dst, "meta.json"), "w"), indent=1)
    print(f"{pid}-{k}: confirmed={confirmed} (before={before} after={after} missing={missing}) caught={meta['caught']} how={how} also={meta['also_caught_by']}")
    if not confirmed:
        print(out_c[-1500:])
    if not caught:
        print(out_t[-1500:])


if __name__ == "__main__":
    main()
