#!/bin/sh
# Runs the repository's own test suite (guard off) and compares the set of passing
# tests with the 389 stable tests of /root/.vp/BASELINE.json.
cd "${BASELINE_REPO:-/repo}" || exit 2
cargo test --workspace --no-fail-fast --offline --lib --bins --tests 2>&1 | python3 -c '
import sys, re, json
crate=None; passed=set()
for line in sys.stdin:
    m=re.search(r"Running (?:unittests )?(\S+) \(target/debug/deps/([A-Za-z0-9_]+)-[0-9a-f]+\)", line)
    if m:
        src, dep = m.group(1), m.group(2)
        crate=dep
        continue
    m=re.match(r"test (\S+) \.\.\. ok", line)
    if m and crate:
        passed.add((crate, m.group(1)))
base=json.load(open("/root/.vp/BASELINE.json"))["stable_pass"]
def norm(c): return c.replace("-","_")
have={norm(c)+"::"+t for c,t in passed}
# integration test binaries: baseline names are crate::binary::test
missing=[]
for b in base:
    parts=b.split("::")
    c=norm(parts[0]); rest="::".join(parts[1:])
    if c+"::"+rest in have: continue
    # integration test: crate::<bin>::<test> -> (bin, test)
    if len(parts)>=3 and norm(parts[1])+"::"+"::".join(parts[2:]) in have: continue
    missing.append(b)
print("baseline: %d stable tests, %d missing" % (len(base), len(missing)))
for m in missing[:40]: print("  MISSING", m)
sys.exit(1 if missing else 0)
'
