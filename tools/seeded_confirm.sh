#!/bin/sh
# Confirms a seeded change in a scratch clone of /repo (never in /repo itself):
#   the demo passes on the clean tree, fails with the patch, and the repository's own
#   test suite still passes with the patch.   tools/seeded_confirm.sh <dir> [--no-suite]
d=$(cd "$1" && pwd); suite=1; [ "$2" = "--no-suite" ] && suite=0
R=${CONFIRM_REPO:-/var/tmp/confirm/repo}
cd "$R" || exit 2
git checkout -q -- . && git clean -qfd
git fetch -q /repo HEAD && git checkout -q --detach FETCH_HEAD
export CARGO_NET_OFFLINE=true CARGO_TARGET_DIR=$R/target
cmd=$(python3 - "$d/meta.json" "$R" <<'PY'
import json, re, sys
c = json.load(open(sys.argv[1]))['demo_cmd']
c = re.sub(r'/tmp/seed\d?/C\d\d', sys.argv[2], c)
segs = [x.strip() for x in re.split(r'&&|;', c)]
keep = [x for x in segs if x and not re.match(r'(cp|mkdir|export|cd|git)\b', x)]
keep = [re.sub(r'^CARGO_TARGET_DIR=\S+\s+', '', x) for x in keep]
print(' && '.join(keep))
PY
)
rsync -a --exclude RUN.md --exclude '*.log' "$d/demo/" "$R/"
echo "demo_cmd: $cmd"
sh -c "$cmd" > $R.before.log 2>&1; b=$?
git apply "$d/patch.diff" || { echo "patch does not apply"; exit 2; }
sh -c "$cmd" > $R.after.log 2>&1; a=$?
echo "demo: before rc=$b after rc=$a"
grep -h "test result\|panicked\|FAILED\|VIOLATION" $R.after.log | head -5
if [ $suite = 1 ]; then
  # remove the demo so that the suite is the repository's own
  git clean -qfd
  BASELINE_REPO=$R sh /verif/tools/baseline.sh | tail -4
fi
git checkout -q -- . && git clean -qfd
