"""Per-property configuration of the check: theorem module, property theorems
(audited with `#print axioms`), harness modules (search + correspondence)."""

COMMON_ASSUME = [
    "the hand-written control flow of the Lean model is tied to the implementation by differential runs (finite, seeded), not by proof",
    "u32 operator semantics of Amqp/U32.lean (wrapping/saturating/checked) match Rust's",
]

PROPS = {
    "C07": {
        "title": "Session flow control",
        "module": "Theorems.C07",
        "theorems": [
            "Amqp.Session.window_safe",
            "Amqp.Session.fifo",
            "Amqp.Session.buffer_implies_closed",
            "Amqp.Session.drains",
            "Amqp.Session.window_formula",
            "Amqp.Session.counters_exact_out",
            "Amqp.Session.counters_exact_in",
            "Amqp.Frame.session_cut_payload",
            "Amqp.Frame.session_cut_fits",
            "Amqp.Frame.one_frame_per_session_transfer",
        ],
        "harness": ["session", "sessionwire"],
        "gen_files": ["Amqp/Gen/SessionKernels.lean", "Amqp/Gen/FrameKernels.lean"],
        "technique": "Lean 4 proof by induction over operation histories (invariant on generated u32 kernels) + differential correspondence with a detached Session endpoint",
        "level_text": "Machine-checked theorems over all histories, all initial ids (incl. the 2^32 wrap) and all flow contents for a model whose arithmetic and branch conditions are regenerated from session/mod.rs on every run; the model's control flow is tied to the real Session endpoint by seeded differential runs through the verif facade, and the property itself is evaluated on the implementation to produce replays.",
        "level_note": "Trusted: Lean kernel; rs2lean's extraction of assignments/conditions and Amqp/U32.lean; the harness and its generator. Not modelled: tokio channels between link, session and connection engines (frames are taken at the Session endpoint's return values; the whole stack incl. the engine's frame-size cut is exercised by the sessionwire runs against a scripted peer that pauses before re-opening its window), link-level echo flows (exercised only by engine-level runs).",
        "assumptions": COMMON_ASSUME + [
            "histories start with the peer's begin and contain no second begin (the engine rejects it)",
            "one_frame_per_session_transfer: the performative the session finally encodes is no longer than the one split_transfer measured (the delivery-id is measured at its widest); performative + payload below 2^64 bytes",
            "the search oracle judges only flows whose next-incoming-id lies between the initial and the current next-outgoing-id (a peer cannot have received frames that were never sent)",
        ],
        "design_ref": "DESIGN.md §7 C07",
    },
}

PROPS["C08"] = {
    "title": "Sender link credit",
    "module": "Theorems.C08",
    "theorems": [
        "Amqp.Credit.credit_safe",
        "Amqp.Credit.one_credit_per_delivery",
        "Amqp.Credit.drain_exhausts",
        "Amqp.Credit.notified_created_before_check",
        "Amqp.Credit.no_lost_wakeup",
        "Amqp.Credit.wakes",
        "Amqp.Credit.old_order_loses_wakeup",
    ],
    "harness": ["credit"],
    "gen_files": ["Amqp/Gen/CreditKernels.lean"],
    "technique": "Lean 4 proof: invariant over flow/send histories on generated u32 kernels; inductive invariant of the check/park/notify transition system over all interleavings; differential runs incl. a forced schedule point",
    "level_text": "Machine-checked theorems for all flow histories (incl. delivery-counts around 2^32, drain, unset fields) and for every interleaving of the waiting task with the session task in an abstract transition system of tokio's Notify contract; credit arithmetic and the order 'create Notified, then check' are regenerated from link/state.rs; the model is tied to the real SenderFlowState/Producer by seeded differential runs and by scripted interleavings forced through a cfg-guarded schedule point.",
    "level_note": "Trusted: Lean kernel; rs2lean extraction; tokio Notify contract as stated in Amqp/Credit.lean (a Notified completes iff notify_waiters() was called after its creation; no permit stored); harness. Not modelled: the tokio scheduler itself; Sender::send's surrounding select! (covered by C14/C16 runs).",
    "assumptions": COMMON_ASSUME + [
        "tokio::sync::Notify: notify_waiters() wakes exactly the Notified futures created before the call and stores no permit",
        "one producer (session task) and one consumer (sender) per link",
        "the search oracle judges only flows whose delivery-count lies between the initial and the current delivery-count",
    ],
    "design_ref": "DESIGN.md §7 C08",
}

PROPS["C09"] = {
    "title": "Receiver link credit",
    "module": "Theorems.C09",
    "theorems": [
        "Amqp.RecvCredit.flow_reports",
        "Amqp.RecvCredit.flow_reports_idle",
        "Amqp.RecvCredit.attached_inv",
        "Amqp.RecvCredit.enforces",
        "Amqp.RecvCredit.auto_topup",
        "Amqp.RecvCredit.no_stall",
    ],
    "harness": ["recvcredit"],
    "gen_files": ["Amqp/Gen/CreditKernels.lean", "Amqp/Gen/RecvCreditKernels.lean"],
    "technique": "Lean 4 proof: accounting invariant over all histories of wire arrivals / recv / dispose / set_credit / drain; closed-loop balance invariant for Auto(n); differential runs of a real Receiver against a scripted sender",
    "level_text": "Machine-checked theorems over all histories for a model of the receiver's credit accounting (including the session-task / link-task split: deliveries queued ahead of a sender flow) whose arithmetic and thresholds are regenerated from link/state.rs, link/receiver.rs, link/receiver_link.rs and link/mod.rs; tied to the implementation by engine-level differential runs through the public API (Receiver over an in-memory pipe against a scripted sender, flows read off the wire); the property is evaluated on the wire view to produce replays.",
    "level_note": "Trusted: Lean kernel; rs2lean extraction; harness + scripted peer (frame layout written independently of fe2o3_amqp::frames; performatives through serde_amqp). no_stall is stated for a credit-respecting sender and an application that disposes only what it received; an application that never disposes is covered by the safety theorems only (DESIGN.md §7 C09). Not modelled: ReceiverDisposer's concurrent path (same thresholds, extracted), resumption.",
    "assumptions": COMMON_ASSUME + [
        "tokio mpsc between session task and link is FIFO",
        "no_stall: the sender transfers only while the receiver holds credit; the application disposes only deliveries it received",
    ],
    "design_ref": "DESIGN.md §7 C09",
}

PROPS["C06"] = {
    "title": "Frames on the wire",
    "module": "Theorems.C06",
    "theorems": [
        "Amqp.Frame.body_of_encoder",
        "Amqp.Frame.encoder_of_negotiated",
        "Amqp.Frame.transfer_split",
        "Amqp.Frame.chunking_exact",
        "Amqp.Frame.frames_bounded",
        "Amqp.Frame.stream_partition_indep",
        "Amqp.Frame.wire_decodes",
    ],
    "harness": ["frame"],
    "gen_files": ["Amqp/Gen/FrameKernels.lean"],
    "technique": "Lean 4 proof over all payloads, frame sizes and read partitions (list induction; size arithmetic generated from frames/amqp.rs and transport/mod.rs) + byte-exact differential runs through transport::Transport and an independent frame parser",
    "level_text": "Machine-checked theorems for every payload length, every max-frame-size and every partition of the byte stream: continuation frames are exactly full, payload pieces concatenate to the payload, start_send's re-chunking coincides with the frame boundaries, no wire frame exceeds max-frame-size, the stream decoder's output depends only on the bytes received and recovers exactly the frames written. The size constants/conditions are regenerated from the source; the model's bytes are compared with what the real Transport writes (byte-exact) and an independent parser evaluates the property on the real bytes.",
    "level_note": "Trusted: Lean kernel; rs2lean; tokio_util::LengthDelimitedCodec as modelled in Amqp/Frame.lean (big-endian 4-byte length that counts itself, limit compared with the length field) — checked by the differential runs; performative encodings are opaque byte strings here (C03/C05), subject to the explicit Fits hypotheses (setting `more` never shortens the encoding; the performative fits a frame), whose satisfaction is measured on every generated case. A non-transfer frame larger than max-frame-size is outside the theorem (it cannot occur for the performatives of bounded size; noted in DESIGN.md).",
    "assumptions": COMMON_ASSUME + [
        "Fits: p0.length <= p1.length <= B, p2.length < B, p3.length <= p2.length (measured: satisfied by every generated transfer)",
    ],
    "design_ref": "DESIGN.md §7 C06",
}

CODEC_NOTE = ("Trusted: Lean kernel; rs2lean (format codes, offsets, thresholds, depth/count limits from format_code.rs, format.rs, ser.rs, de.rs); "
              "the hand-written encoder/decoder model Amqp/Codec.lean, tied to serde_amqp by differential runs (byte-exact encodings, decoded value / "
              "error class / bytes left, for generated values and ~10^5 byte strings per run); String::from_utf8 / char::from_u32 as re-implemented in the model. "
              "WF (decidable) states what the codec supports: fixed scalars of their width, valid UTF-8 / chars, lists/maps/arrays of at most MAX_ARRAY_COUNT (65536) entries, "
              "maps without duplicate keys, arrays whose elements are scalars or strings/binaries/symbols of one kind, nesting up to MAX_NESTING_DEPTH (128). "
              "Arrays of null / list / map / array / described elements are outside WF: the implementation does not round-trip them (known findings).")

PROPS["C03"] = {
    "title": "Wire codec round-trip",
    "module": "Theorems.C03",
    "theorems": [
        "Amqp.Codec.value_roundtrip",
        "Amqp.Codec.decode_encode",
        "Amqp.Codec.enc_scalar_total",
        "Amqp.Codec.codes_consistent",
        "Amqp.Codec.codes_complete",
        "Amqp.Codec.rt",
        "Amqp.Codec.rtAll",
    ],
    "harness": ["codec"],
    "gen_files": ["Amqp/Gen/Codes.lean"],
    "technique": "Lean 4 proof by mutual structural induction over the nested value type (encoder/decoder model with generated format codes and thresholds) + byte-exact differential runs against serde_amqp",
    "level_text": "Machine-checked round-trip theorem decode(encode(v) ++ tail) = (v, tail) for every well-formed untyped AMQP value of any size and nesting (all primitives and width classes, lists, maps, arrays, described values), over a model of serde_amqp's encoder and Value decoder whose codes/thresholds are regenerated from the source; the model is compared with to_vec / from_slice on thousands of generated values and ~10^5 byte strings per run (identical bytes, identical decoded values and error classes), and the round-trip is also evaluated directly on the implementation. Typed composites (performatives, messages) are covered by the differential runs of C06/C09 traffic only in this revision.",
    "level_note": CODEC_NOTE,
    "assumptions": COMMON_ASSUME + ["map keys compare structurally (the generator keeps floats out of map keys, where Rust compares NaN == NaN and 0.0 == -0.0)"],
    "design_ref": "DESIGN.md §7 C03",
}

PROPS["C20"] = {
    "title": "All codec entry points agree",
    "module": "Theorems.C20",
    "theorems": [
        "Amqp.Codec.size_eq_length",
        "Amqp.Codec.size_enc",
        "Amqp.Codec.tail_untouched",
    ],
    "harness": ["codec"],
    "gen_files": ["Amqp/Gen/Codes.lean"],
    "technique": "Lean 4 proof by mutual structural induction (size serializer = length of the encoding, for every value; decoding leaves the following bytes untouched) + differential runs of serialized_size / from_slice / from_reader with every chunk size",
    "level_text": "Machine-checked: the model of the size serializer equals the length of the model's encoding for every value (no well-formedness needed beyond scalar widths), and decoding an encoding followed by arbitrary bytes returns exactly those bytes as the rest. The model is tied to serde_amqp by differential runs; slice reader vs io reader (fed in chunks of 1,2,3,7,64,... bytes, all chunk sizes for short inputs) are compared directly on the implementation for results and bytes taken from the stream.",
    "level_note": CODEC_NOTE + " The io reader itself is not modelled (its agreement with the slice reader is established by differential runs only); to_value/from_value is not covered in this revision.",
    "assumptions": COMMON_ASSUME,
    "design_ref": "DESIGN.md §7 C20",
}

PROPS["C04"] = {
    "title": "Decoding untrusted bytes is total and resource-bounded",
    "module": "Theorems.C04",
    "theorems": [
        "Amqp.Codec.decoder_guards_present",
        "Amqp.Codec.limits",
        "Amqp.Codec.redecode_stable",
        "Amqp.Codec.map_dedup_nest",
    ],
    "harness": ["codec"],
    "gen_files": ["Amqp/Gen/Codes.lean"],
    "technique": "Lean 4: total decoder model (structural recursion), generated guard obligations, re-decode stability theorem; the model is compared with the implementation on exhaustive short inputs, structure-aware corruptions and hostile inputs with measured allocation / panics (partial proof, see level text)",
    "level_text": "Partial proof. Machine-checked: the decoder model is total (no panic outcome exists in it, fuel derived from the input length), the guards whose absence made the implementation panic, over-allocate or recurse without bound are generated obligations re-checked against de.rs / read/mod.rs on every run, and decode(encode(decode bs)) = decode bs for well-formed results. NOT yet proved over the model: the invariants 'nesting of every returned value <= depth limit', 'only a prefix is consumed' and 'number of nodes <= input length + zero-width budget' (stated in DESIGN.md; the induction over the decoder needs the model to be refactored into per-constructor steps). Those clauses are decided on the implementation by search: every 1-2 byte string, constructor-led 3-byte strings, corruptions of valid encodings (truncation at every offset, size/count fields replaced, constructors swapped, 32-bit fields set to extremes), hand-written hostile inputs, nesting to 20000 levels - each run under catch_unwind with a counting allocator, through the slice reader and (short inputs) the io reader with every chunk size; the model agrees with the implementation on all of them.",
    "level_note": CODEC_NOTE + " Entry points other than Value (Performative, SASL frame, Message, LazyValue) are exercised by the engine-level runs of other properties, not by this check. Allocation is measured for the decoding thread; bounds used by the oracle: largest single allocation <= 64*len + 6 MB, total <= 4096*(len+16) + 12 MB (the constant is the decoder's budget of 65536 zero-width array elements).",
    "assumptions": COMMON_ASSUME + ["test profile (overflow checks on) is what panics are judged in"],
    "design_ref": "DESIGN.md §7 C04",
}

PROPS["C10"] = {
    "title": "Reassembly is independent of fragmentation",
    "module": "Theorems.C10",
    "theorems": [
        "Amqp.Reasm.reasm_once",
        "Amqp.Reasm.single_frame",
        "Amqp.Reasm.abort_clean",
        "Amqp.Reasm.contradiction_is_error",
        "Amqp.Reasm.run_middle",
    ],
    "harness": ["reasm"],
    "gen_files": [],
    "technique": "Lean 4 proof by induction over the continuation frames of a delivery (one-slot reassembly state machine) + engine-level differential runs of a real Receiver against a scripted sender cutting messages at arbitrary offsets",
    "level_text": "Machine-checked for every payload, every partition into n >= 1 pieces (empty pieces, cuts anywhere) and every consistent choice of repeated/omitted delivery-id, tag and format on continuation frames: nothing is delivered before the last frame, exactly one delivery at the last frame with the first frame's fields and the concatenated payload; aborted deliveries leave no state; a contradicting delivery-id is an error, never a spliced message. The hand-written model of ReceiverInner / IncompleteTransfer is tied to the implementation by engine-level runs through the public API (Receiver::recv over an in-memory connection, frames written by a scripted peer, second link interleaved), and the property is evaluated on what the application received.",
    "level_note": "Trusted: Lean kernel; the hand-written model Amqp/Reasm.lean (no generated part: the code is field-merging logic, tied by the differential runs); harness + scripted peer. Decoding of the reassembled payload is C03 (decoding from a list of chunks = decoding from their concatenation is assumed of util::IntoReader, exercised by every run). Frames of other links are routed by handle (C11); here a second link is interleaved in the runs.",
    "assumptions": COMMON_ASSUME + ["tokio mpsc between session task and link is FIFO"],
    "design_ref": "DESIGN.md §7 C10",
}

PROPS["C11"] = {
    "title": "Identifiers: delivery-ids, handles, routing",
    "module": "Theorems.C11",
    "theorems": [
        "Amqp.Handles.handles_unique",
        "Amqp.Handles.reuse_after_free",
        "Amqp.Handles.duplicate_name_refused",
        "Amqp.Session.delivery_id_is_transfer_id",
        "Amqp.Session.id_iff_tag",
        "Amqp.LinkSplit.tag_cleared_before_loop",
        "Amqp.LinkSplit.one_tag_per_delivery",
        "Amqp.LinkSplit.old_order_two_tags",
    ],
    "harness": ["ids"],
    "gen_files": ["Amqp/Gen/SessionKernels.lean", "Amqp/Gen/LinkSplitKernels.lean", "Amqp/Gen/FrameKernels.lean"],
    "technique": "Lean 4 proof: slab/name-table invariant by induction over attach/detach histories; delivery-id = transfer-id of the tagged frame on generated session kernels; one tag per delivery through both cutting layers (generated size conditions and statement order); engine-level differential runs against a scripted peer",
    "level_text": "Machine-checked for all attach/detach histories (handles pairwise distinct, names unique, a handle is handed out again only after its holder was removed) on a model of slab::Slab's LIFO free list and the session's name table; for all send histories the delivery-id stamped on a frame is that frame's transfer-id (hence strictly increasing in serial order and never reused) and is stamped exactly on transfers that carry a delivery-tag; for every message size, max-message-size and frame size exactly the first transfer of a delivery carries the tag after both cutting layers, with the size conditions and the position of the tag-clearing statement regenerated from link/sender_link.rs and frames/amqp.rs. Tied to the code by engine-level runs: a real Sender observed frame by frame by a scripted receiver (both cutting layers, windows from 1, ids around 2^32), random attach/detach histories whose handles are read off the wire and compared line by line with the slab model, and routing of deliveries by sparse and large peer-chosen handles to several Receivers.",
    "level_note": "Trusted: Lean kernel; rs2lean extraction; the hand-written slab model (slab crate behaviour: LIFO reuse of vacant keys, tied by the wire comparison); harness + scripted peer. Channel allocation on the connection uses the same slab mechanism and is exercised by the lifecycle runs only; routing by incoming channel is covered by runs, not by a theorem. Not covered: a peer re-attaching on an input handle that is still in use (recorded under C15).",
    "assumptions": COMMON_ASSUME + ["tokio mpsc between link and session task is FIFO (frames of one delivery reach the session in order)"],
    "design_ref": "DESIGN.md §7 C11",
}

PROPS["C02"] = {
    "title": "Settlement: each send resolves once, with its own outcome",
    "module": "Theorems.C02",
    "theorems": [
        "Amqp.Settle.presettled_completes_at_once",
        "Amqp.Settle.own_outcome",
        "Amqp.Settle.completes_at_most_once",
        "Amqp.Settle.completes",
        "Amqp.Settle.settled_forgets",
        "Amqp.Settle.terminal_forgets",
        "Amqp.Settle.echo_exact",
        "Amqp.Settle.every_terminal_report_is_settled",
        "Amqp.Settle.echoed_is_forgotten",
        "Amqp.Settle.no_echo_in_progress",
        "Amqp.Settle.wf_run",
        "Amqp.Settle.mem_knownIds",
        "Amqp.Settle.second_keeps_until_settled",
        "Amqp.Settle.sender_settlement_forgets",
        "Amqp.Settle.first_settles_at_disposal",
        "Amqp.Settle.second_reports_unsettled",
        "Amqp.Settle.settled_not_reported_again",
    ],
    "harness": ["settle"],
    "gen_files": ["Amqp/Gen/SettleKernels.lean"],
    "technique": "Lean 4 proof by induction over disposition histories and over the ids a disposition names (routing table + unsettled maps + oneshots as a state machine; serial-number ranges; run expansion of the settling echo) + engine-level differential runs of real Senders / a real Receiver against a scripted peer playing arbitrary disposition scripts",
    "level_text": "Machine-checked for every history of sends and dispositions (any ranges in serial arithmetic incl. across 2^32 and backwards, overlapping, repeated, unknown ids, settled/unsettled, terminal, received and absent states, several links in either rcv-settle-mode): a pre-settled send completes at once as accepted; a send completes at most once over the whole history and, when a settling or terminal disposition names its delivery-id, exactly then and with exactly that disposition's state; a settled disposition removes the delivery from the routing table and the unsettled map; in mode second the ids named by the settling dispositions sent back are exactly the named deliveries of mode-second links (each once, every run, none on a progress report) and they are then forgotten. Both branches of known_delivery_ids_in_range (walk the range / scan the table) are modelled and proved to name the same set. Receiver side: in mode second a delivery stays unsettled until a settled disposition from the sender names it; in mode first it is settled with the disposal. The range arithmetic is regenerated from session/mod.rs; the hand-written state machine is tied to the code by engine-level runs whose send results, settling dispositions on the wire and unsettled-map contents (read through a cfg-guarded hook) are compared case by case with the model and judged against the property.",
    "level_note": "Trusted: Lean kernel; rs2lean extraction; hand-written Amqp/Settle.lean (tied by the differential runs only); harness + scripted peer + the two read-only hooks. Not modelled: transactional delivery states (Declared / TransactionalState), resumed links' unsettled maps exchanged at attach, the receiver's dispose_all range merging (compared per delivery after expansion), the order of ids within the table-scan branch (sorted by serial offset in the model; the proof needs only the set). Known and not claimed: the session's routing table keeps an entry for deliveries settled by a mode-first receiver's own settled disposition until the sender also names them (resource retention, not an unsettled-map entry).",
    "assumptions": COMMON_ASSUME + [
        "delivery-ids of outstanding deliveries are distinct (C11) and delivery-tags are distinct per link",
        "fewer than 2^31 deliveries outstanding on a session (echo_exact)",
    ],
    "design_ref": "DESIGN.md §7 C02",
}

PROPS["C12"] = {
    "title": "Connection lifecycle",
    "module": "Theorems.C12",
    "theorems": [
        "Amqp.Conn.open_phase",
        "Amqp.Conn.close_is_last",
        "Amqp.Conn.at_most_one_close",
        "Amqp.Conn.closing_step",
        "Amqp.Conn.peer_close_answered",
        "Amqp.Conn.discarding_ignores",
        "Amqp.Conn.discarding_wait_ignores",
        "Amqp.Conn.illegal_frame_refused",
        "Amqp.Conn.local_close",
        "Amqp.Conn.local_close_then_peer_close",
    ],
    "harness": ["connlife"],
    "gen_files": ["Amqp/Gen/Fsm.lean"],
    "technique": "Lean 4 proof by induction over event sequences with a state invariant discharged by exhaustive case analysis over the generated transition tables; engine-level differential runs of a real client connection against a scripted peer",
    "level_text": "Machine-checked for every sequence of events of any length (peer frames legal or illegal in the current state, end of stream, local close / close-with-error / repeated close requests, session begins and session frames, heartbeats): the header and the open are written first and never again; a close frame, if written, is the last frame written, so there is at most one; once it is written no event makes the endpoint write anything; a peer's close is answered with a close and reported with the peer's error; after closing with an error every frame but the close is ignored; a frame illegal for the opened state is answered by a close with an error and is not handed to a session; a clean close is reported clean whatever was still in flight. The per-state behaviour (transition tables of Connection, the arms taken by on_heartbeat / close_connection / forward_to_session / on_outgoing_session_frames, the states in which incoming frames and close requests are dropped, and whether send_close checks the state before writing) is regenerated from connection/mod.rs and connection/engine.rs on every run; the hand-written composition (event loop, on_error, wait_for_remote_close) is tied to the code by differential runs comparing the frames on the wire and close()'s result event by event.",
    "level_note": "Trusted: Lean kernel; rs2lean's table extraction (gen_fsm.rs); hand-written Amqp/Conn.lean composition; harness + scripted peer. The pipelined-open states (OpenPipe, OpenClosePipe, ClosePipe before the peer's open) are not reached by ConnectionEngine::open and are outside the invariant (RS); the listener side's open is exercised by C19/C17 runs only. Sessions are abstract: frames a session emits are fed to the model as events. A peer whose first frame is not an open makes open() wait for a close that never comes until the transport ends: reported under C15.",
    "assumptions": COMMON_ASSUME + ["tokio::select! takes up one ready source at a time (events are sequential)"],
    "design_ref": "DESIGN.md §7 C12",
}

PROPS["C13"] = {
    "title": "Session and link lifecycles",
    "module": "Theorems.C13",
    "theorems": [
        "Amqp.SessLife.ending_step",
        "Amqp.SessLife.end_is_last",
        "Amqp.SessLife.at_most_one_end",
        "Amqp.SessLife.peer_end_answered",
        "Amqp.SessLife.local_end_waits_for_peer",
        "Amqp.SessLife.error_end_waits_for_peer_end",
        "Amqp.LinkLife.peer_detach_answered_in_kind",
        "Amqp.LinkLife.peer_error_reported",
        "Amqp.LinkLife.answer_error_reported",
        "Amqp.LinkLife.own_detach_completes",
        "Amqp.LinkLife.at_most_one_detach",
    ],
    "harness": ["life"],
    "gen_files": ["Amqp/Gen/Fsm.lean", "Amqp/Gen/SessLifeKernels.lean"],
    "technique": "Lean 4 proof by induction over event sequences (session end handshake) and exhaustive case analysis (link detach handshake) over transition tables generated from the endpoints; engine-level runs of a real client with several sessions and links against a scripted peer that withholds, crosses and provokes ends and detaches; real-time busy-wait probes",
    "level_text": "Machine-checked for every sequence of events on a mapped session (the peer's end with or without error, other frames of the peer whether the session can act on them or not, the application's end, frames of its links): at most one end is written and nothing follows it on the channel; a peer's end is answered with an end and reported with its error; the application's end keeps the engine (hence the call) waiting through whatever else arrives until the peer's end, whose error is what the caller gets; after ending with an error everything but the peer's end is discarded and the engine stops exactly at that end. For an attached link and either call (detach, close), with or without an earlier detach from the peer and for every answer of the same kind: exactly one detach is written, of the kind the peer used if it detached first (closing answered by closing), the final state is Detached / Closed, and an error attached by the peer is the call's result. The state tables of Session, SessionEngine::end_session (incl. the discard arguments of its waits), Link::on_incoming_detach / send_detach and the arms of detach_with_error / close_with_error are regenerated on every run; the two hand-written compositions are compared with the implementation on generated single-session and single-link scenarios; the property itself (one begin/attach, at most one end/detach and nothing after it per channel/handle, peer's end/detach answered in kind by the next operation, calls return only after the peer's answer, errors propagated, nothing above the ended thing torn down — probed by attaching and sending on every survivor afterwards) is evaluated on multi-session, multi-link scripts.",
    "level_note": "Trusted: Lean kernel; rs2lean (gen_fsm.rs); hand-written Amqp/SessLife.lean and Amqp/LinkLife.lean compositions; harness + scripted peer. Not modelled: re-attach-then-close after a close crossing a non-closing detach (recorded finding), the attach handshake proper (incomplete-unsettled exchange), link drop via Drop impls (exercised by the runs), the session engine's path when all handles are dropped (exercised by the runs). Two recorded findings remain on the unchanged tree (see known_findings.txt): transfers held back by the session window are overtaken by the link's detach; a close crossing a non-closing detach ends with a stray second detach.",
    "assumptions": COMMON_ASSUME + ["the peer answers a detach in kind and an end with an end (a conforming peer); tokio mpsc channels are FIFO"],
    "design_ref": "DESIGN.md §7 C13",
}

PROPS["C17"] = {
    "title": "Negotiated limits: channel-max and idle time-outs",
    "module": "Theorems.C17",
    "theorems": [
        "Amqp.Limits.agreed_is_min",
        "Amqp.Limits.channel_within_max",
        "Amqp.Limits.run_inv",
        "Amqp.Limits.run_len",
        "Amqp.Limits.refused_only_when_full",
        "Amqp.Limits.alloc_below_bound_succeeds",
        "Amqp.Limits.heartbeat_period_lt_timeout",
        "Amqp.Limits.next_beat_in_time",
        "Amqp.Limits.no_heartbeat_without_timeout",
        "Amqp.Limits.alive_while_frames_arrive",
        "Amqp.Limits.expires_after_silence",
    ],
    "harness": ["limits"],
    "gen_files": ["Amqp/Gen/LimitsKernels.lean"],
    "technique": "Lean 4 proof: induction over begin/end histories on a slab model with the generated bound check; arithmetic of the generated heartbeat period; engine-level runs with virtual time against a scripted peer",
    "level_text": "Machine-checked for every history of begins and ends and every pair of channel-max values: a session is only ever begun on a channel <= min(local, remote) (the comparison and the min are regenerated from connection/mod.rs), no key above the bound is ever created, and a begin is refused exactly when all channels 0..=channel-max carry a live session. For every advertised idle-time-out T > 0 the heartbeat period (regenerated from connection/engine.rs) is positive and strictly shorter than T, so after any instant the next frame follows strictly within T; none is sent for T = 0 / unset. The endpoint's own time-out is a delay re-armed by every arriving frame (transport/mod.rs), stated as such. Tied to the code by runs under a paused clock: begin/end histories compared line by line with the model and checked against min(local, remote) on the wire; the gaps between all frames an idle (and a sparsely active) client writes measured in virtual microseconds against the advertised T in {2 ms .. 60 s}; clients with their own time-out against a peer that sends in time (never torn down) and then falls silent (torn down after T, not before, reported as IdleTimeoutElapsed, advertising no more than it enforces).",
    "level_note": "Trusted: Lean kernel; rs2lean; the slab model (shared with C11); tokio's paused-clock timer as a stand-in for wall time (1 ms wheel granularity: heartbeat instants are rounded up to the millisecond, the mean period is what is compared). Not modelled: the listener side's channel allocation for remotely begun sessions (exercised by C18/C19 runs), scheduling latency of a loaded runtime (the reason the period has to be strictly shorter than T).",
    "assumptions": COMMON_ASSUME + ["timers fire when due (no scheduling latency beyond the timer wheel's millisecond granularity)"],
    "design_ref": "DESIGN.md §7 C17",
}

PROPS["C15"] = {
    "title": "A misbehaving peer cannot crash, wedge or spin an endpoint",
    "module": "Theorems.C15",
    "theorems": [
        "Amqp.FrameHeader.amqp_header_never_panics",
        "Amqp.FrameHeader.sasl_header_never_panics",
        "Amqp.FrameHeader.amqp_header_accepts",
        "Amqp.Settle.disposition_work_bounded",
        "Amqp.Conn.illegal_frame_refused",
        "Amqp.Conn.discarding_wait_ignores",
        "Amqp.Conn.close_is_last",
        "Amqp.SessLife.error_end_waits_for_peer_end",
        "Amqp.SessLife.end_is_last",
        "Amqp.RecvCredit.enforces",
        "Amqp.Codec.decoder_guards_present",
        "Amqp.Codec.limits",
    ],
    "harness": ["hostile"],
    "gen_files": ["Amqp/Gen/FrameHeaderKernels.lean", "Amqp/Gen/Fsm.lean", "Amqp/Gen/SettleKernels.lean", "Amqp/Gen/Codes.lean"],
    "technique": "Lean 4 proofs that each layer's reaction to untrusted input is total, bounded and scoped (frame header model with the length guard read off the source; composition of the C02/C04/C09/C12/C13 theorems) + engine-level hostile-peer runs with panic counting, virtual-time limits, allocation and real-time measurement",
    "level_text": "Machine-checked: for every byte string the AMQP and the SASL frame decoder's header step returns a header or an error, never the out-of-bounds panic of Buf::get_* (the length guard and its position before the first read are regenerated from frames/amqp.rs and frames/sasl.rs), and a header is accepted only with doff 2 and the layer's frame type; whatever range a disposition names, no more delivery-ids are visited than deliveries are outstanding; a frame illegal for the connection's state is answered by one close with an error, nothing is handed on, and everything but the peer's close is then ignored; a frame the session cannot act on ends that session with an error, after which it discards until the peer's end and keeps its channel until then, so the connection and its other sessions are not affected; a transfer beyond the issued credit is refused (C09); the body decoder's guards and limits (C04). Partial by nature: that nothing panics, blocks forever or does disproportionate work in the running program is not a statement about these models; it is measured by runs in which a real client (connection, session, sender, receiver) receives one hostile item (raw bytes with length fields 0..7 and beyond 2^31, every kind of bad header, random / truncated / 5000-deep / 4-GiB-claiming bodies, a score of well-formed protocol violations, a first frame that is not an open) from a peer that then behaves, and afterwards uses and tears down everything under a 10-virtual-second limit per call, with panics counted by a hook, bytes allocated and real time bounded, and fatal violations required to surface as an error of some later call.",
    "level_note": "Trusted: Lean kernel; rs2lean; the hand-written header model (compared with the two real decoders on all short byte strings over a small alphabet and on random ones); the hostile item generator. Runtime behaviour the models cannot exhibit: panics in code not modelled, scheduler starvation, memory use — covered only as far as the measured runs go. A peer that never answers a close / end / detach is outside this check (the scripted peer is polite after its one hostile item); timeouts on teardown are the application's (no built-in deadline).",
    "assumptions": COMMON_ASSUME + ["after its hostile item the peer answers close, end and detach"],
    "design_ref": "DESIGN.md §7 C15",
}

PROPS["C16"] = {
    "title": "Cancelling a pending send or recv loses nothing and corrupts nothing",
    "module": "Theorems.C16",
    "theorems": [
        "Amqp.Cancel.source_send_is_atomic",
        "Amqp.Cancel.source_recv_parks",
        "Amqp.Cancel.source_topup_reset_last",
        "Amqp.Cancel.send_cancel_safe",
        "Amqp.Cancel.send_order",
        "Amqp.Cancel.send_safe_unless_cut",
        "Amqp.Cancel.send_completes",
        "Amqp.Cancel.drain_makes_room",
        "Amqp.Cancel.transfers_pos",
        "Amqp.Cancel.transfers_cover",
        "Amqp.Cancel.recv_cancel_safe",
        "Amqp.Cancel.recv_returns_messages",
        "Amqp.Cancel.parked_is_returned",
        "Amqp.Cancel.oversize_cancel_cuts",
        "Amqp.Cancel.unparked_recv_loses",
    ],
    "harness": ["cancel"],
    "gen_files": ["Amqp/Gen/CancelKernels.lean", "Amqp/Gen/LinkSplitKernels.lean"],
    "technique": "Lean 4 proof by invariant over all interleavings of calls, polls, drops, credit grants and queue draining on poll-granular models of send_payload and recv_inner whose await / state-change order is regenerated from the source; tied to the code by engine-level runs that drop real futures after k polls against a scripted peer",
    "level_text": "Machine-checked on the model, for every sequence of send calls, polls, drops (at any poll), credit grants and engine drains: as long as each delivery fits the link-to-session queue, what has left the link is a concatenation of whole deliveries, each of a distinct call and in call order, the delivery-count advanced exactly once per delivery that went out (a dropped send used up no credit), every send that returned is among them, and a send that fits completes at the first poll with a credit and an emptied queue; for every sequence of arrivals, recv polls, drops and queue-fullness changes, the deliveries returned, the delivery being put together, the parked transfer and the link's queue are, in this order, exactly the transfers that arrived, every delivery returned is whole, and hence the deliveries returned are the first n messages sent. The positions of the awaits relative to the state changes (credit taken after the last await; permits arm await-free; transfer parked before room is awaited; counter reset after the flow is queued) and transfer_count are regenerated from link/sender_link.rs and link/receiver.rs on every run; the models take them as parameters, and both a counter-model for the old order (unparked_recv_loses) and the residual oversize case (oversize_cancel_cuts) are proved. Tied to the code by runs: a real Sender / Receiver over an in-memory transport against a scripted peer, every send or recv future dropped after 1..8 polls or left to complete, messages of one and several transfers, link-to-session buffers 1 / 2 / 2048, credit Auto(1..100) and one-at-a-time grants with delays; the peer reassembles what it gets and asks the sender for its delivery-count at the end; transfer counts, wire wholeness and the atomic/non-atomic classification are compared with the model line by line.",
    "level_note": "Trusted: Lean kernel; rs2lean's token-order extraction (first/last occurrence of call names and `.await` in a function body: it sees reordering, not every possible rewrite); the hand-written poll-granular models Amqp/Cancel.lean (a poll runs to the next pending await; tokio's mpsc reserve_many / Notify are assumed cancel-safe as documented); the harness's PollN wrapper and scripted peer. Runtime behaviour the model cannot exhibit: tokio's cooperative budget, wake-up order between the link and the engine tasks. One recorded residue (known_findings.txt): a delivery cut into more transfers than the session buffer holds still goes the per-transfer path and is not cancel-safe.",
    "assumptions": COMMON_ASSUME + ["tokio::sync::mpsc::Sender::reserve_many and Notify::notified are cancel-safe", "one send at a time per Sender (&mut self)"],
    "design_ref": "DESIGN.md §7 C16",
}

PROPS["C19"] = {
    "title": "SASL: no connection without successful authentication; SCRAM is mutual",
    "module": "Theorems.C19",
    "theorems": [
        "Amqp.Sasl.listener_proceeds_iff",
        "Amqp.Sasl.client_proceeds_iff",
        "Amqp.Sasl.credentials_compared",
        "Amqp.Sasl.listenLoop_eq",
        "Amqp.Sasl.scramCliStep_eq",
        "Amqp.Sasl.plain_ok_iff",
        "Amqp.Sasl.plain_listener_sound",
        "Amqp.Sasl.plain_listener_complete",
        "Amqp.Sasl.listen_needs_sasl_header",
        "Amqp.Sasl.listenLoop_passed",
        "Amqp.Sasl.listenLoop_passed_iff",
        "Amqp.Sasl.scram_init_never_ok",
        "Amqp.Sasl.scram_response_ok",
        "Amqp.Sasl.scram_firstSent_origin",
        "Amqp.Sasl.serverFirst_nonce",
        "Amqp.Sasl.scram_replay_needs_same_nonce",
        "Amqp.Sasl.scram_listener_sound",
        "Amqp.Sasl.client_refused_on_non_ok",
        "Amqp.Sasl.client_authenticated_iff",
        "Amqp.Sasl.client_finalSent_origin",
        "Amqp.Sasl.clientFinal_spec",
        "Amqp.Sasl.client_sound",
        "Amqp.Sasl.client_cannot_skip_challenge",
        "Amqp.Sasl.client_rejects_extra_challenge",
        "Amqp.Sasl.simple_client_sound",
    ],
    "harness": ["sasl"],
    "gen_files": ["Amqp/Gen/SaslTables.lean", "Amqp/Gen/SaslKernels.lean"],
    "technique": "Lean 4 proof over all frame sequences on models of the listener's SASL loop, the PLAIN and SCRAM acceptors and the SCRAM client, with hash / HMAC / PBKDF2 as parameters and the decisions on outcome codes, frame kinds and the credential comparison generated from the source; tied to the code by differential runs against the harness' own SCRAM implementation and by scripted clients and servers on an in-memory transport",
    "level_text": "Machine-checked on the model, for every sequence of client frames and every header: the listener leaves the SASL layer only after the SASL header and through an init or response that its acceptor answered with outcome ok, every other kind of frame, undecodable frame and end of stream ending in failure; with the PLAIN acceptor that frame is an init whose response is, byte for byte, [authzid] NUL user NUL password (an iff: nothing missing, no fourth field, no prefix, no differing byte), and such a peer is let in; with the SCRAM acceptor it is a response in the state left by an init of the same connection, naming that exchange's nonce (client nonce extended by the server's), binding the channel as n,, and carrying a proof p with H(p XOR HMAC(StoredKey, AuthMessage)) = StoredKey for the AuthMessage of this very exchange, so that a recorded client-final only verifies against the same nonce; an init alone never authenticates. For every sequence of server frames the SCRAM client reports success only on an outcome ok that carries a server-final whose v= is exactly HMAC(HMAC(Hi(password, salt, i), \"Server Key\"), AuthMessage) over the client-first it sent, the challenge as received (whose nonce must extend its own) and its client-final; a non-ok code is never success, the challenge cannot be skipped, a second challenge is an error; a PLAIN / ANONYMOUS client succeeds only on outcome ok. All for every choice of H, HMAC and Hi. SaslCode with its wire values, the listener's and the client's decision on each outcome code, their dispatch on each frame kind and the credential comparison are regenerated from the source on every run and the models take their decisions from those tables. Tied to the code by runs: PLAIN responses built around the configured credentials (equal / prefix / one bit off / extended / empty fields, 1..4 NUL-separated fields, authzid) and random ones; one ScramAuthenticator driven through honest, wrong-password, bit-flipped, replayed, re-nonced, re-bound, truncated, non-base64, extended, invalid-UTF-8 and out-of-order exchanges (SHA-1 / 256 / 512) by the harness' own RFC 5802 implementation; a real ConnectionAcceptor against scripted clients (every header, frame kinds in any order, AMQP frames and headers in the middle, oversize and undecodable frames, pipelined writes) and a real Connection::builder().sasl_profile() against scripted servers (nonce not extending, missing / malformed attributes, iteration count changed in flight, signatures absent / garbage / from a wrong password / over the unmodified message / truncated / followed by an extension, codes 1..4, extra challenges, early outcome, wrong header), each answer and verdict compared with the model line by line, and each run judged by an oracle written from the RFCs and the property.",
    "level_note": "Trusted: Lean kernel; rs2lean's table extraction (first arm covering each variant, arm classified by the tokens break / return Ok / return Err / on_init / on_response / Negotiation::*) and kernel extraction; the hand-written models Amqp/Sasl.lean (message syntax, base64, UTF-8 check, state machines), compared with the implementation on every run; the harness' own SCRAM implementation (hmac / sha1 / sha2 / pbkdf2 crates — the same primitives the library uses, so a flaw in those crates is invisible) and scripted peers. Not shown, because no model of this code can: that the proof cannot be forged without the password (a property of HMAC / SHA / PBKDF2), constant-time comparison, SASLprep of non-ASCII passwords (runs use ASCII), the TLS layer under SASL EXTERNAL. Observed and not judged a violation: the client accepts an iteration count of 0 or 1 and a server nonce that adds nothing to its own.",
    "assumptions": COMMON_ASSUME + ["HMAC / SHA / PBKDF2 of the RustCrypto crates are what they claim to be"],
    "design_ref": "DESIGN.md §7 C19",
}

PROPS["C14"] = {
    "title": "Failures propagate: no call hangs, every handle learns why",
    "module": "Theorems.C14",
    "theorems": [
        "Amqp.FailProp.level_named",
        "Amqp.FailProp.condition_carried",
        "Amqp.FailProp.nobody_left_waiting",
        "Amqp.FailProp.woken_stop_waiting",
        "Amqp.FailProp.abandonAll_wakes_all",
    ],
    "harness": ["failprop"],
    "gen_files": [],
    "technique": "Lean 4 proof over histories of sends, settlements and stop events (waiter bookkeeping) and by cases over failure causes (error class) + engine-level failure injection under a paused clock with bounded waits, task counting and a panic hook",
    "level_text": "Partial by nature. Machine-checked on the model: for every history of unsettled sends and settlements, once the session endpoint is dropped — or the sender processes a closing detach from the peer — every send that still awaited an outcome is woken exactly once with an error and nothing waits any more; for every failure cause (transport, peer close / end / detach, with and without error) the error class a handle reports names the level that stopped and carries the peer's condition exactly when the peer supplied one. Measured on the implementation, because no model of it can exhibit them: that calls return in bounded time, that engine tasks terminate and that nothing panics. A client with two sessions, two senders, a receiver and five operations in progress (a send awaiting its outcome, the future of an earlier send_batchable, a send awaiting credit, a recv, an attach the peer never answers) is hit by each of 19 failures at several moments; every operation the failure reaches must have completed 500 virtual ms later with an error of the right level and condition (compared with the model's class), every operation issued afterwards and the whole teardown must return within 5 virtual seconds, what the failure does not reach must keep working, the connection handle must report the transport error / the peer's condition itself, and the runtime's count of live tasks must return to zero.",
    "level_note": "Trusted: Lean kernel; the hand-written model Amqp/FailProp.lean (its error classes are compared with the implementation's error values for every cause; its waiter bookkeeping mirrors Session::drop and UnsettledMessage::abandon_waiter, tied only by the hang / no-hang observations); tokio's paused clock; RuntimeMetrics::num_alive_tasks. Runtime behaviour the model cannot exhibit: real scheduling, OS-level transport errors other than a dropped in-memory stream, timing of wake-ups. Two recorded findings remain (known_findings.txt): futures of earlier send_batchable calls stay pending after a non-closing detach from the peer, and fail with an uninformative IllegalState after a closing one.",
    "assumptions": COMMON_ASSUME + ["a dropped in-memory duplex stream stands for a broken transport"],
    "design_ref": "DESIGN.md §7 C14",
}
