//! State-transition tables (`Amqp/Gen/Fsm.lean`).
//!
//! For every listed function, each `match` on the endpoint's `local_state` is turned into a
//! total Lean function `State → [flags →] Option State`:
//!   * `some s'`  — the arm assigns `self.local_state = s'` (or assigns nothing and does not
//!                  fail: `some s`),
//!   * `none`     — the arm assigns nothing and produces an `Err`.
//! An arm body may assign directly, or inside a nested `match <bool> { true => …, false => … }`
//! / `if <bool> { … } else { … }`, in which case the boolean becomes a parameter.  Anything
//! else that touches `local_state` is reported as outside the subset.

use std::collections::BTreeMap;

use quote::ToTokens;
use syn::visit::Visit;
use syn::{Arm, Expr, Pat, Stmt};

use crate::extract::{find_fn, FnSel, Sources};
use crate::Out;

fn norm(ts: impl ToTokens) -> String {
    ts.to_token_stream().to_string().replace(' ', "")
}

fn lower_first(s: &str) -> String {
    let mut c = s.chars();
    let l = match c.next() {
        Some(f) => f.to_lowercase().collect::<String>() + c.as_str(),
        None => String::new(),
    };
    // Lean keywords
    match l.as_str() {
        "end" => "ended".to_string(),
        "open" => "open_".to_string(),
        _ => l,
    }
}

/// variants of `pub enum <name>` in a file, in declaration order
fn enum_variants(file: &syn::File, name: &str) -> Option<Vec<String>> {
    for it in &file.items {
        if let syn::Item::Enum(e) = it {
            if e.ident == name {
                return Some(e.variants.iter().map(|v| v.ident.to_string()).collect());
            }
        }
    }
    None
}

/// outcome of an arm for one state
#[derive(Clone, Debug, PartialEq)]
enum Next {
    To(String),
    Stay,
    Illegal,
    /// conditional on a boolean expression (Lean parameter name), then / else
    Cond(String, Box<Next>, Box<Next>),
}

struct AssignFinder<'a> {
    enum_name: &'a str,
    found: Vec<String>,
    complex: bool,
}

impl<'ast, 'a> Visit<'ast> for AssignFinder<'a> {
    fn visit_expr_assign(&mut self, a: &'ast syn::ExprAssign) {
        let l = norm(&a.left);
        if l.ends_with("local_state") {
            let r = norm(&a.right);
            let prefix = format!("{}::", self.enum_name);
            if let Some(v) = r.strip_prefix(&prefix) {
                self.found.push(v.to_string());
            } else {
                self.complex = true;
            }
        }
        syn::visit::visit_expr_assign(self, a);
    }
}

fn contains_err(e: &Expr) -> bool {
    let s = norm(e);
    s.contains("Err(") || s.contains("returnErr")
}

fn bool_param(e: &Expr) -> Option<String> {
    match e {
        Expr::Path(p) => p.path.get_ident().map(|i| i.to_string()),
        Expr::Reference(r) => bool_param(&r.expr),
        Expr::Paren(p) => bool_param(&p.expr),
        Expr::Field(f) => Some(norm(f).replace('.', "_")),
        Expr::MethodCall(m) if m.args.is_empty() => bool_param(&m.receiver).map(|r| format!("{}_{}", r, m.method)),
        _ => None,
    }
}

/// the single expression an arm body amounts to (peels blocks with one statement)
fn peel(e: &Expr) -> &Expr {
    match e {
        Expr::Block(b) if b.block.stmts.len() == 1 => match &b.block.stmts[0] {
            Stmt::Expr(x, _) => peel(x),
            _ => e,
        },
        Expr::Paren(p) => peel(&p.expr),
        _ => e,
    }
}

fn next_of(enum_name: &str, body: &Expr) -> Result<Next, String> {
    let body = peel(body);
    // nested boolean decision?
    match body {
        Expr::Match(m) => {
            if let Some(p) = bool_param(&m.expr) {
                let mut t: Option<Next> = None;
                let mut f: Option<Next> = None;
                for arm in &m.arms {
                    let pat = norm(&arm.pat);
                    let n = next_of(enum_name, &arm.body)?;
                    match pat.as_str() {
                        "true" => t = Some(n),
                        "false" => f = Some(n),
                        "_" => {
                            if t.is_none() {
                                t = Some(n.clone());
                            }
                            if f.is_none() {
                                f = Some(n);
                            }
                        }
                        other => return Err(format!("nested match arm `{}` is not a boolean literal", other)),
                    }
                }
                return match (t, f) {
                    (Some(t), Some(f)) => Ok(Next::Cond(p, Box::new(t), Box::new(f))),
                    _ => Err("nested boolean match lacks a true or false arm".into()),
                };
            }
        }
        Expr::If(i) => {
            if let Some(p) = bool_param(&i.cond) {
                let mut fa = AssignFinder { enum_name, found: vec![], complex: false };
                fa.visit_expr_if(i);
                if !fa.found.is_empty() || fa.complex {
                    let t = next_of(enum_name, &Expr::Block(syn::ExprBlock { attrs: vec![], label: None, block: i.then_branch.clone() }))?;
                    let f = match &i.else_branch {
                        Some((_, e)) => next_of(enum_name, e)?,
                        None => Next::Stay,
                    };
                    return Ok(Next::Cond(p, Box::new(t), Box::new(f)));
                }
            }
        }
        _ => {}
    }
    // an arm that evaluates to the next state (`let next_state = match … { … => State::X, … }`)
    if let Expr::Path(p) = body {
        let r = norm(p);
        if let Some(v) = r.strip_prefix(&format!("{}::", enum_name)) {
            return Ok(Next::To(v.to_string()));
        }
    }
    let mut fa = AssignFinder { enum_name, found: vec![], complex: false };
    fa.visit_expr(body);
    if fa.complex {
        return Err("assignment of a non-literal state".into());
    }
    fa.found.dedup();
    match fa.found.len() {
        0 => Ok(if contains_err(body) { Next::Illegal } else { Next::Stay }),
        1 => Ok(Next::To(fa.found[0].clone())),
        _ => {
            // several assignments under control flow this subset does not follow: only accept when
            // the body is a block whose last statement decides (handled above); otherwise report
            Err(format!("several state assignments in one arm ({:?}) under unsupported control flow", fa.found))
        }
    }
}

/// does the pattern cover `variant`?  (paths, or-patterns, wildcard, tuple patterns whose first
/// element is the state)
fn covers(enum_name: &str, pat: &Pat, variant: &str) -> bool {
    match pat {
        Pat::Wild(_) => true,
        Pat::Or(o) => o.cases.iter().any(|c| covers(enum_name, c, variant)),
        Pat::Paren(p) => covers(enum_name, &p.pat, variant),
        Pat::Reference(r) => covers(enum_name, &r.pat, variant),
        Pat::Ident(i) => i.ident != variant && i.subpat.is_none() && i.ident.to_string().chars().next().map(|c| c.is_lowercase()).unwrap_or(false),
        other => norm(other) == format!("{}::{}", enum_name, variant),
    }
}

struct MatchFinder<'a> {
    out: Vec<&'a syn::ExprMatch>,
}

impl<'ast> Visit<'ast> for MatchFinder<'ast> {
    fn visit_expr_match(&mut self, m: &'ast syn::ExprMatch) {
        let s = norm(&m.expr);
        let tuple_first = match &*m.expr {
            Expr::Tuple(t) => t.elems.first().map(|e| norm(e)),
            _ => None,
        };
        if s.ends_with("local_state") || s.ends_with("local_state()") || tuple_first.map(|f| f.ends_with("local_state")).unwrap_or(false) {
            self.out.push(m);
            // nested matches on the state inside arms are not followed
            return;
        }
        syn::visit::visit_expr_match(self, m);
    }
}

fn lean_next(enum_lean: &str, cur: &str, n: &Next) -> String {
    match n {
        Next::To(v) => format!("some {}.{}", enum_lean, lower_first(v)),
        Next::Stay => format!("some {}.{}", enum_lean, lower_first(cur)),
        Next::Illegal => "none".to_string(),
        Next::Cond(p, t, f) => format!("(if {} then {} else {})", p, lean_next(enum_lean, cur, t), lean_next(enum_lean, cur, f)),
    }
}

fn params_of(n: &Next, acc: &mut Vec<String>) {
    if let Next::Cond(p, t, f) = n {
        if !acc.contains(p) {
            acc.push(p.clone());
        }
        params_of(t, acc);
        params_of(f, acc);
    }
}

pub struct Table {
    pub sel: FnSel,
    pub lean_name: &'static str,
    /// which `match` on the state inside the function (0 = first)
    pub index: usize,
}

pub fn emit_enum(s: &mut String, lean: &str, rust: &str, variants: &[String], file: &str) {
    s.push_str(&format!("/-- `{}` ({}) -/\ninductive {} where\n", rust, file, lean));
    for v in variants {
        s.push_str(&format!("  | {}\n", lower_first(v)));
    }
    s.push_str("deriving Repr, DecidableEq\n\n");
    s.push_str(&format!("def {}.all : List {} := [{}]\n\n", lean, lean, variants.iter().map(|v| format!(".{}", lower_first(v))).collect::<Vec<_>>().join(", ")));
    s.push_str(&format!("def {}.name : {} → String\n", lean, lean));
    for v in variants {
        s.push_str(&format!("  | .{} => \"{}\"\n", lower_first(v), v));
    }
    s.push('\n');
}

pub fn emit_tables(src: &mut Sources, out: &mut Out, s: &mut String, enum_rust: &str, enum_lean: &str, variants: &[String], tables: &[Table]) {
    for t in tables {
        let file = match src.file(t.sel.file) {
            Ok(f) => f,
            Err(e) => {
                out.errors.push(e);
                continue;
            }
        };
        let found = match find_fn(file, &t.sel) {
            Ok(f) => f,
            Err(e) => {
                out.errors.push(e);
                continue;
            }
        };
        let mut mf = MatchFinder { out: vec![] };
        mf.visit_block(found.block);
        let m = match mf.out.get(t.index) {
            Some(m) => *m,
            None => {
                out.errors.push(format!("{:?}: no match #{} on local_state", t.sel, t.index));
                continue;
            }
        };
        let mut per_state: BTreeMap<String, Next> = BTreeMap::new();
        let mut failed = false;
        for v in variants {
            let arm: Option<&Arm> = m.arms.iter().find(|a| a.guard.is_none() && covers(enum_rust, &a.pat, v));
            match arm {
                None => {
                    out.errors.push(format!("{:?}: no arm covers {}::{}", t.sel, enum_rust, v));
                    failed = true;
                }
                Some(a) => match next_of(enum_rust, &a.body) {
                    Ok(n) => {
                        per_state.insert(v.clone(), n);
                    }
                    Err(e) => {
                        out.errors.push(format!("{:?}: arm for {}: {}", t.sel, v, e));
                        failed = true;
                    }
                },
            }
        }
        if failed {
            continue;
        }
        let mut params: Vec<String> = vec![];
        for n in per_state.values() {
            params_of(n, &mut params);
        }
        let ps: String = params.iter().map(|p| format!(" ({} : Bool)", p)).collect();
        s.push_str(&format!("/-- `{}` in {}: state after, `none` = refused with an error -/\n", t.sel.name, t.sel.file));
        s.push_str(&format!("def {} (s : {}){} : Option {} :=\n  match s with\n", t.lean_name, enum_lean, ps, enum_lean));
        for v in variants {
            s.push_str(&format!("  | .{} => {}\n", lower_first(v), lean_next(enum_lean, v, &per_state[v])));
        }
        s.push('\n');
    }
}

/// index of the first arm of the `index`-th `match` on the state that covers each variant
pub fn emit_arm_index(src: &mut Sources, out: &mut Out, s: &mut String, enum_rust: &str, enum_lean: &str, variants: &[String], sel: &FnSel, lean_name: &str, index: usize) {
    let file = match src.file(sel.file) {
        Ok(f) => f,
        Err(e) => {
            out.errors.push(e);
            return;
        }
    };
    let found = match find_fn(file, sel) {
        Ok(f) => f,
        Err(e) => {
            out.errors.push(e);
            return;
        }
    };
    let mut mf = MatchFinder { out: vec![] };
    mf.visit_block(found.block);
    let m = match mf.out.get(index) {
        Some(m) => *m,
        None => {
            out.errors.push(format!("{:?}: no match #{} on local_state", sel, index));
            return;
        }
    };
    emit_arm_fn(out, s, enum_rust, enum_lean, variants, m, sel.name, sel.file, lean_name);
}

fn emit_arm_fn(out: &mut Out, s: &mut String, enum_rust: &str, enum_lean: &str, variants: &[String], m: &syn::ExprMatch, what: &str, file: &str, lean_name: &str) {
    s.push_str(&format!("/-- `{}` in {}: which arm of its `match` on the state is taken -/\n", what, file));
    for (i, a) in m.arms.iter().enumerate() {
        s.push_str(&format!("--   arm {}: `{}` => `{}`\n", i, norm(&a.pat), norm(&a.body).chars().take(60).collect::<String>()));
    }
    s.push_str(&format!("def {} (s : {}) : Nat :=\n  match s with\n", lean_name, enum_lean));
    for v in variants {
        match m.arms.iter().position(|a| a.guard.is_none() && covers(enum_rust, &a.pat, v)) {
            Some(i) => s.push_str(&format!("  | .{} => {}\n", lower_first(v), i)),
            None => {
                out.errors.push(format!("{} in {}: no arm covers {}", what, file, v));
                s.push_str(&format!("  | .{} => 1000\n", lower_first(v)));
            }
        }
    }
    s.push('\n');
}

/// the same for a `match` inside a macro invocation (`tokio::select!`), which syn does not parse: the
/// first `match` after the anchor comment is cut out of the source text and parsed on its own.
/// Also emits, per arm, whether its body is an `Err(..)`.
pub fn emit_arm_index_text(src: &mut Sources, out: &mut Out, s: &mut String, enum_rust: &str, enum_lean: &str, variants: &[String], file: &str, anchor: &str, lean_name: &str) {
    let text = match src.text(file) {
        Ok(t) => t.to_string(),
        Err(e) => {
            out.errors.push(e);
            return;
        }
    };
    let cut = || -> Option<String> {
        let a = text.find(anchor)?;
        let m = a + text[a..].find("match ")?;
        let open = m + text[m..].find('{')?;
        let mut depth = 0usize;
        for (i, c) in text[open..].char_indices() {
            match c {
                '{' => depth += 1,
                '}' => {
                    depth -= 1;
                    if depth == 0 {
                        return Some(text[m..open + i + 1].to_string());
                    }
                }
                _ => {}
            }
        }
        None
    };
    let snippet = match cut() {
        Some(x) => x,
        None => {
            out.errors.push(format!("{}: no `match` after the anchor `{}`", file, anchor));
            return;
        }
    };
    let m: syn::ExprMatch = match syn::parse_str(&snippet) {
        Ok(m) => m,
        Err(e) => {
            out.errors.push(format!("{}: the match after `{}` does not parse: {}", file, anchor, e));
            return;
        }
    };
    if !norm(&m.expr).contains("local_state") {
        out.errors.push(format!("{}: the match after `{}` is not on the state: {}", file, anchor, norm(&m.expr)));
        return;
    }
    emit_arm_fn(out, s, enum_rust, enum_lean, variants, &m, anchor, file, lean_name);
    s.push_str(&format!("/-- which arms of that match are errors -/\ndef {}_is_err : List Bool := [{}]\n\n", lean_name, m.arms.iter().map(|a| contains_err(&a.body).to_string()).collect::<Vec<_>>().join(", ")));
}

struct MatchesFinder {
    out: Vec<String>,
}

impl<'ast> Visit<'ast> for MatchesFinder {
    fn visit_macro(&mut self, m: &'ast syn::Macro) {
        if m.path.is_ident("matches") {
            let t = m.tokens.to_string();
            if let Some((scrut, pat)) = t.split_once(',') {
                let sc = scrut.replace(' ', "");
                if sc.ends_with("local_state()") || sc.ends_with("local_state") {
                    self.out.push(pat.trim().to_string());
                }
            }
        }
        syn::visit::visit_macro(self, m);
    }
}

/// the `index`-th `matches!(… local_state …, PATTERN)` of a function as a predicate on the state
pub fn emit_matches(src: &mut Sources, out: &mut Out, s: &mut String, enum_rust: &str, enum_lean: &str, variants: &[String], sel: &FnSel, lean_name: &str, index: usize) {
    let file = match src.file(sel.file) {
        Ok(f) => f,
        Err(e) => {
            out.errors.push(e);
            return;
        }
    };
    let found = match find_fn(file, sel) {
        Ok(f) => f,
        Err(e) => {
            out.errors.push(e);
            return;
        }
    };
    let mut mf = MatchesFinder { out: vec![] };
    mf.visit_block(found.block);
    let pat_src = match mf.out.get(index) {
        Some(p) => p.clone(),
        None => {
            out.errors.push(format!("{:?}: no matches!() #{} on local_state", sel, index));
            return;
        }
    };
    let pat = match syn::parse::Parser::parse_str(syn::Pat::parse_multi_with_leading_vert, &pat_src) {
        Ok(p) => p,
        Err(e) => {
            out.errors.push(format!("{:?}: pattern `{}`: {}", sel, pat_src, e));
            return;
        }
    };
    s.push_str(&format!("/-- `matches!(…local_state…, {})` in `{}` ({}) -/\n", pat_src, sel.name, sel.file));
    s.push_str(&format!("def {} (s : {}) : Bool :=\n  match s with\n", lean_name, enum_lean));
    for v in variants {
        s.push_str(&format!("  | .{} => {}\n", lower_first(v), covers(enum_rust, &pat, v)));
    }
    s.push('\n');
}

/// does a `(state, bool)` pattern cover (variant, b)?
fn covers2(enum_name: &str, pat: &Pat, variant: &str, b: bool) -> bool {
    match pat {
        Pat::Wild(_) => true,
        Pat::Or(o) => o.cases.iter().any(|c| covers2(enum_name, c, variant, b)),
        Pat::Paren(p) => covers2(enum_name, &p.pat, variant, b),
        Pat::Tuple(t) if t.elems.len() == 2 => {
            let second = norm(&t.elems[1]);
            let second_ok = second == "_" || second == b.to_string();
            covers(enum_name, &t.elems[0], variant) && second_ok
        }
        _ => false,
    }
}

/// `match (&self.local_state, flag) { (State::X, true) => …, … }` as `State → Bool → Option State`
pub fn emit_table2(src: &mut Sources, out: &mut Out, s: &mut String, enum_rust: &str, enum_lean: &str, variants: &[String], sel: &FnSel, lean_name: &str, index: usize, flag: &str) {
    let file = match src.file(sel.file) {
        Ok(f) => f,
        Err(e) => {
            out.errors.push(e);
            return;
        }
    };
    let found = match find_fn(file, sel) {
        Ok(f) => f,
        Err(e) => {
            out.errors.push(e);
            return;
        }
    };
    let mut mf = MatchFinder { out: vec![] };
    mf.visit_block(found.block);
    let m = match mf.out.get(index) {
        Some(m) => *m,
        None => {
            out.errors.push(format!("{:?}: no match #{} on (local_state, _)", sel, index));
            return;
        }
    };
    s.push_str(&format!("/-- `{}` in {}: state after, `none` = refused with an error -/\n", sel.name, sel.file));
    s.push_str(&format!("def {} (s : {}) ({} : Bool) : Option {} :=\n  match s, {} with\n", lean_name, enum_lean, flag, enum_lean, flag));
    for v in variants {
        for b in [true, false] {
            let arm = m.arms.iter().find(|a| a.guard.is_none() && covers2(enum_rust, &a.pat, v, b));
            let n = match arm {
                Some(a) => next_of(enum_rust, &a.body),
                None => Err(format!("no arm covers ({}, {})", v, b)),
            };
            match n {
                Ok(n) => s.push_str(&format!("  | .{}, {} => {}\n", lower_first(v), b, lean_next(enum_lean, v, &n))),
                Err(e) => {
                    out.errors.push(format!("{:?}: {}", sel, e));
                    s.push_str(&format!("  | .{}, {} => none\n", lower_first(v), b));
                }
            }
        }
    }
    s.push('\n');
}

pub fn generate(src: &mut Sources, out: &mut Out) {
    const STATES: &str = "fe2o3-amqp-types/src/states.rs";
    const CONN: &str = "fe2o3-amqp/src/connection/mod.rs";
    const SESS: &str = "fe2o3-amqp/src/session/mod.rs";
    let mut s = String::new();
    s.push_str("-- GENERATED by tools/rs2lean from /repo's working tree. Do not edit.\n");
    s.push_str("-- State enums (fe2o3-amqp-types/src/states.rs) and the transition tables read off the\n-- `match self.local_state` expressions of the endpoints.\n\nnamespace Amqp.Gen.Fsm\n\n");
    let (cvars, svars) = {
        let file = match src.file(STATES) {
            Ok(f) => f,
            Err(e) => {
                out.errors.push(e);
                return;
            }
        };
        (enum_variants(file, "ConnectionState"), enum_variants(file, "SessionState"))
    };
    let (cvars, svars) = match (cvars, svars) {
        (Some(c), Some(sv)) => (c, sv),
        _ => {
            out.errors.push("state enums not found".into());
            return;
        }
    };
    emit_enum(&mut s, "CState", "ConnectionState", &cvars, STATES);
    s.push_str("namespace Conn\n\n");
    let ct = |name: &'static str, lean: &'static str, index: usize| Table { sel: FnSel { file: CONN, self_ty: Some("Connection"), trait_: Some("endpoint::Connection"), name }, lean_name: lean, index };
    emit_tables(
        src,
        out,
        &mut s,
        "ConnectionState",
        "CState",
        &cvars,
        &[
            ct("on_incoming_open", "on_incoming_open", 0),
            ct("on_incoming_close", "on_incoming_close", 0),
            ct("send_open", "send_open", 0),
            ct("send_close", "send_close", 0),
            ct("on_incoming_end", "on_incoming_end", 0),
            ct("allocate_session", "allocate_session", 0),
            Table { sel: FnSel { file: CONN, self_ty: Some("Connection"), trait_: None, name: "on_incoming_begin_inner" }, lean_name: "on_incoming_begin", index: 0 },
        ],
    );
    const CENG: &str = "fe2o3-amqp/src/connection/engine.rs";
    let eng = |name: &'static str| FnSel { file: CENG, self_ty: Some("ConnectionEngine<Io,C>"), trait_: None, name };
    emit_arm_index(src, out, &mut s, "ConnectionState", "CState", &cvars, &eng("on_heartbeat"), "on_heartbeat_arm", 0);
    emit_arm_index(src, out, &mut s, "ConnectionState", "CState", &cvars, &eng("close_connection"), "close_connection_arm", 0);
    emit_arm_index(src, out, &mut s, "ConnectionState", "CState", &cvars, &eng("on_outgoing_session_frames"), "on_outgoing_session_frames_arm", 0);
    emit_arm_index(src, out, &mut s, "ConnectionState", "CState", &cvars, &eng("forward_to_session"), "forward_to_session_arm", 0);
    emit_arm_index_text(src, out, &mut s, "ConnectionState", "CState", &cvars, CENG, "Incoming stream is closed", "on_eof_arm");
    emit_matches(src, out, &mut s, "ConnectionState", "CState", &cvars, &eng("on_incoming"), "on_incoming_drops", 0);
    emit_matches(src, out, &mut s, "ConnectionState", "CState", &cvars, &eng("on_control"), "on_control_close_ignored", 0);
    // does `send_close` decide on the state before it writes the frame?
    {
        let sel = FnSel { file: CONN, self_ty: Some("Connection"), trait_: Some("endpoint::Connection"), name: "send_close" };
        match src.file(CONN).and_then(|f| find_fn(f, &sel).map(|ff| crate::extract::call_order(ff.block, &["writer . send", "match & self . local_state"]))) {
            Ok(ord) => {
                let w = ord.iter().position(|x| x == "writer . send");
                let m = ord.iter().position(|x| x == "match & self . local_state");
                match (w, m) {
                    (Some(w), Some(m)) => s.push_str(&format!("/-- in `send_close` the state is checked before the close frame is written -/\ndef send_close_checks_first : Bool := {}\n\n", m < w)),
                    _ => out.errors.push("send_close: `writer.send` or the match on the state not found".into()),
                }
            }
            Err(e) => out.errors.push(e),
        }
    }
    s.push_str("end Conn\n\n");
    emit_enum(&mut s, "SState", "SessionState", &svars, STATES);
    s.push_str("namespace Sess\n\n");
    let st = |name: &'static str, lean: &'static str, index: usize| Table { sel: FnSel { file: SESS, self_ty: Some("Session"), trait_: Some("endpoint::Session"), name }, lean_name: lean, index };
    emit_tables(
        src,
        out,
        &mut s,
        "SessionState",
        "SState",
        &svars,
        &[st("on_incoming_begin", "on_incoming_begin", 0), st("on_incoming_end", "on_incoming_end", 0), st("send_begin", "send_begin", 0), st("send_end", "send_end", 0)],
    );
    const SENG: &str = "fe2o3-amqp/src/session/engine.rs";
    let seng = |name: &'static str| FnSel { file: SENG, self_ty: Some("SessionEngine<S>"), trait_: None, name };
    emit_arm_index(src, out, &mut s, "SessionState", "SState", &svars, &seng("end_session"), "end_session_arm", 0);
    emit_arm_index(src, out, &mut s, "SessionState", "SState", &svars, &seng("on_outgoing_link_frames"), "on_outgoing_link_frames_arm", 0);
    s.push_str("end Sess\n\n");
    // link
    const LSTATE: &str = "fe2o3-amqp/src/link/state.rs";
    const LMOD: &str = "fe2o3-amqp/src/link/mod.rs";
    let lvars = match src.file(LSTATE).ok().and_then(|f| enum_variants(f, "LinkState")) {
        Some(v) => v,
        None => {
            out.errors.push("LinkState not found".into());
            return;
        }
    };
    emit_enum(&mut s, "LState", "LinkState", &lvars, LSTATE);
    s.push_str("namespace Link\n\n");
    let lsel = |name: &'static str| FnSel { file: LMOD, self_ty: Some("Link<R,T,F,M>"), trait_: Some("endpoint::LinkDetach"), name };
    emit_tables(
        src,
        out,
        &mut s,
        "LinkState",
        "LState",
        &lvars,
        &[
            Table { sel: lsel("on_incoming_detach"), lean_name: "on_incoming_detach_closed", index: 0 },
            Table { sel: lsel("on_incoming_detach"), lean_name: "on_incoming_detach_not_closed", index: 1 },
        ],
    );
    emit_table2(src, out, &mut s, "LinkState", "LState", &lvars, &lsel("send_detach"), "send_detach", 0, "closed");
    const SHARED: &str = "fe2o3-amqp/src/link/shared_inner.rs";
    let shsel = |name: &'static str| FnSel { file: SHARED, self_ty: Some("T"), trait_: Some("LinkEndpointInnerDetach"), name };
    emit_arm_index(src, out, &mut s, "LinkState", "LState", &lvars, &shsel("detach_with_error"), "detach_with_error_arm", 0);
    emit_arm_index(src, out, &mut s, "LinkState", "LState", &lvars, &shsel("close_with_error"), "close_with_error_arm", 0);
    s.push_str("end Link\n\nend Amqp.Gen.Fsm\n");
    out.write("Fsm.lean", &s);
}
