//! rs2lean — regenerates `lean/Amqp/Gen/*.lean` from `/repo`'s working tree.
//!
//! usage: rs2lean <repo-root> <out-dir> [<harness/src/gen_typed.rs>]
//!
//! Exit status 0: all generated files written (only when their content
//! changed).  Exit status 2: an item the model depends on could not be found
//! or falls outside the supported subset; the message names it.

mod expr;
mod extract;
mod gen_codes;
mod gen_enums;
mod gen_fsm;
mod gen_kernels;
mod gen_panics;
mod gen_resume;
mod gen_sasl;
mod gen_schema;
mod gen_txn;

use std::path::{Path, PathBuf};

pub struct Out {
    dir: PathBuf,
    pub written: Vec<String>,
    pub errors: Vec<String>,
}

impl Out {
    pub fn write(&mut self, name: &str, content: &str) {
        let p = self.dir.join(name);
        let old = std::fs::read_to_string(&p).ok();
        if old.as_deref() != Some(content) {
            std::fs::write(&p, content).expect("write generated file");
            self.written.push(format!("{} (changed)", name));
        } else {
            self.written.push(format!("{} (unchanged)", name));
        }
    }
}

fn main() {
    let args: Vec<String> = std::env::args().collect();
    if args.len() != 3 && args.len() != 4 {
        eprintln!("usage: rs2lean <repo-root> <out-dir> [<generated rust file of the harness>]");
        std::process::exit(64);
    }
    let root = Path::new(&args[1]);
    let mut out = Out {
        dir: PathBuf::from(&args[2]),
        written: vec![],
        errors: vec![],
    };
    std::fs::create_dir_all(&out.dir).expect("mkdir out");
    let mut src = extract::Sources::new(root);

    gen_kernels::generate(&mut src, &mut out);
    gen_codes::generate(&mut src, &mut out);
    gen_fsm::generate(&mut src, &mut out);
    gen_sasl::generate(&mut src, &mut out);
    gen_txn::generate(&mut src, &mut out);
    gen_panics::generate(&mut src, &mut out);
    gen_enums::generate(&mut src, &mut out);
    gen_resume::generate(&mut src, &mut out);
    gen_schema::generate(&mut src, &mut out, args.get(3).map(Path::new));

    for w in &out.written {
        println!("rs2lean: {}", w);
    }
    if !out.errors.is_empty() {
        for e in &out.errors {
            println!("rs2lean: ERROR {}", e);
        }
        std::process::exit(2);
    }
}
