//! Translation of a small subset of Rust expressions (integer / boolean /
//! `Option` kernels) to Lean 4 terms over `Nat`, `Bool`, `Option Nat`.
//!
//! Anything outside the subset is an error naming the construct: the caller
//! reports it as a broken tie between `/repo` and the model.

use std::collections::{BTreeMap, BTreeSet};

use quote::ToTokens;
use syn::{BinOp, Expr, Lit, Member, Pat, UnOp};

#[derive(Debug)]
pub struct TrError(pub String);

pub type Res<T> = Result<T, TrError>;

pub fn err<T>(msg: impl Into<String>) -> Res<T> {
    Err(TrError(msg.into()))
}

/// Bit width used for `wrapping_*` / `saturating_*` etc.
#[derive(Clone, Copy, Debug, PartialEq, Eq)]
pub enum Width {
    W16,
    W32,
    Usize,
}

impl Width {
    fn suffix(self) -> &'static str {
        match self {
            Width::W16 => "16",
            Width::W32 => "32",
            Width::Usize => "64",
        }
    }
}

#[derive(Default, Clone)]
pub struct Env {
    /// local name -> Lean term (inlined `let`), already parenthesised
    pub locals: BTreeMap<String, (String, Vec<(String, String)>)>,
    /// named constants -> Lean term
    pub consts: BTreeMap<String, String>,
    /// free parameters collected while translating (in Lean naming)
    pub params: BTreeSet<String>,
    /// names bound by enclosing closures / patterns (not parameters)
    pub bound: BTreeSet<String>,
    /// Lean type of a parameter when usage shows it is not a plain `Nat`
    pub ptypes: BTreeMap<String, String>,
}

pub struct Tr {
    pub width: Width,
    pub env: Env,
}

pub fn sanitize(s: &str) -> String {
    let mut out = String::new();
    for c in s.chars() {
        if c.is_alphanumeric() || c == '_' {
            out.push(c);
        } else {
            out.push('_');
        }
    }
    out
}

/// Lean keywords cannot be binder names
pub fn binder(s: &str) -> String {
    const KW: [&str; 24] = ["open", "end", "at", "from", "then", "else", "fun", "by", "do", "in", "let", "have", "show", "match", "with", "if", "namespace", "section", "def", "theorem", "instance", "structure", "where", "variable"];
    if KW.contains(&s) {
        format!("{}_", s)
    } else {
        s.to_string()
    }
}

impl Tr {
    pub fn new(width: Width) -> Self {
        Tr {
            width,
            env: Env::default(),
        }
    }

    fn param(&mut self, name: String) -> String {
        let name = binder(&name);
        self.env.params.insert(name.clone());
        name
    }

    /// record that the term `t`, if it is a bare parameter, has Lean type `ty`
    fn hint(&mut self, t: &str, ty: &str) {
        if self.env.params.contains(t) {
            self.env.ptypes.insert(t.to_string(), ty.to_string());
        }
    }

    fn use_local_params(&mut self, ps: &[(String, String)]) {
        for (p, ty) in ps {
            self.env.params.insert(p.clone());
            if ty != "Nat" {
                self.env.ptypes.insert(p.clone(), ty.clone());
            }
        }
    }

    pub fn param_type(&self, p: &str) -> String {
        if let Some(t) = self.env.ptypes.get(p) {
            return t.clone();
        }
        // boolean protocol fields, recognised by name
        const BOOLS: [&str; 9] = ["drain", "echo", "settled", "more", "aborted", "batchable", "closed", "resume", "fail"];
        if BOOLS.iter().any(|b| p.ends_with(&format!("_{}", b)) || p == *b) {
            return "Bool".to_string();
        }
        "Nat".to_string()
    }

    /// `self.a.b` / `x.a` style place expression as a flat parameter name
    fn place_name(&self, e: &Expr) -> Option<String> {
        match e {
            Expr::Path(p) if p.path.segments.len() == 1 => {
                Some(p.path.segments[0].ident.to_string())
            }
            Expr::Field(f) => {
                let base = self.place_name(&f.base)?;
                let m = match &f.member {
                    Member::Named(i) => i.to_string(),
                    Member::Unnamed(i) => i.index.to_string(),
                };
                Some(format!("{}_{}", base, m))
            }
            Expr::Paren(p) => self.place_name(&p.expr),
            Expr::Reference(r) => self.place_name(&r.expr),
            Expr::Unary(u) if matches!(u.op, UnOp::Deref(_)) => self.place_name(&u.expr),
            _ => None,
        }
    }

    pub fn expr(&mut self, e: &Expr) -> Res<String> {
        match e {
            Expr::Lit(l) => match &l.lit {
                Lit::Int(i) => Ok(i.base10_digits().to_string()),
                Lit::Bool(b) => Ok(if b.value { "true".into() } else { "false".into() }),
                other => err(format!("unsupported literal {}", other.to_token_stream())),
            },
            Expr::Paren(p) => self.expr(&p.expr),
            Expr::Group(g) => self.expr(&g.expr),
            Expr::Reference(r) => self.expr(&r.expr),
            Expr::Unary(u) => match u.op {
                UnOp::Deref(_) => self.expr(&u.expr),
                UnOp::Not(_) => {
                    let x = self.expr(&u.expr)?;
                    self.hint(&x, "Bool");
                    Ok(format!("(!{})", x))
                }
                UnOp::Neg(_) => match &*u.expr {
                    Expr::Lit(l) => match &l.lit {
                        Lit::Int(i) => Ok(format!("(-{} : Int)", i.base10_digits())),
                        _ => err("negated non-integer literal"),
                    },
                    _ => err(format!("unsupported negation {}", e.to_token_stream())),
                },
                _ => err(format!("unsupported unary {}", e.to_token_stream())),
            },
            Expr::Cast(c) => {
                // only widening / identity casts between unsigned types are accepted
                let ty = c.ty.to_token_stream().to_string();
                // a cast to a type narrower than the values of the function being translated truncates
                match (ty.as_str(), self.width) {
                    ("u16", Width::W16) => self.expr(&c.expr),
                    ("u16", _) => Ok(format!("({} % 65536)", self.expr(&c.expr)?)),
                    ("u32", Width::Usize) | ("Uint", Width::Usize) | ("SequenceNo", Width::Usize) => Ok(format!("({} % 4294967296)", self.expr(&c.expr)?)),
                    ("u32", _) | ("Uint", _) | ("SequenceNo", _) | ("u64", _) | ("usize", _) => self.expr(&c.expr),
                    _ => err(format!("unsupported cast to {}", ty)),
                }
            }
            Expr::Path(p) => {
                let name = p
                    .path
                    .segments
                    .iter()
                    .map(|s| s.ident.to_string())
                    .collect::<Vec<_>>()
                    .join("::");
                if let Some((t, ps)) = self.env.locals.get(&name).cloned() {
                    self.use_local_params(&ps);
                    return Ok(t);
                }
                if self.env.bound.contains(&name) {
                    return Ok(name);
                }
                if let Some(t) = self.env.consts.get(&name) {
                    return Ok(t.clone());
                }
                match name.as_str() {
                    "None" => return Ok("(none : Option Nat)".into()),
                    "u32::MAX" => return Ok("4294967295".into()),
                    "u16::MAX" => return Ok("65535".into()),
                    _ => {}
                }
                if name.contains("::") {
                    return err(format!("unknown path {}", name));
                }
                Ok(self.param(sanitize(&name)))
            }
            Expr::Field(_) => match self.place_name(e) {
                Some(n) => {
                    if let Some((t, ps)) = self.env.locals.get(&n).cloned() {
                        self.use_local_params(&ps);
                        return Ok(t);
                    }
                    Ok(self.param(sanitize(&n)))
                }
                None => err(format!("unsupported field expr {}", e.to_token_stream())),
            },
            Expr::Binary(b) => {
                let l = self.expr(&b.left)?;
                let r = self.expr(&b.right)?;
                let w = self.width.suffix();
                let s = match b.op {
                    // Plain `+ - *` panic on overflow in the test profile; the
                    // model uses unbounded `Nat` for `+`/`*` and the checked form for `-`.
                    BinOp::Add(_) => format!("({} + {})", l, r),
                    BinOp::Sub(_) => format!("(psub{} {} {})", w, l, r),
                    BinOp::Mul(_) => format!("({} * {})", l, r),
                    BinOp::Div(_) => format!("({} / {})", l, r),
                    BinOp::Rem(_) => format!("({} % {})", l, r),
                    // shifts by a literal only (the result must fit the type: not checked here)
                    BinOp::Shl(_) if r.chars().all(|c| c.is_ascii_digit()) => format!("({} * 2 ^ {})", l, r),
                    BinOp::Shr(_) if r.chars().all(|c| c.is_ascii_digit()) => format!("({} / 2 ^ {})", l, r),
                    BinOp::Eq(_) | BinOp::Ne(_) => {
                        // a comparison of byte strings: both sides are lists
                        let (tl, tr) = (self.param_type(&l), self.param_type(&r));
                        if tl.starts_with("List") {
                            self.hint(&r, &tl);
                        }
                        if tr.starts_with("List") {
                            self.hint(&l, &tr);
                        }
                        if matches!(b.op, BinOp::Eq(_)) {
                            format!("({} == {})", l, r)
                        } else {
                            format!("({} != {})", l, r)
                        }
                    }
                    BinOp::Lt(_) => format!("(decide ({} < {}))", l, r),
                    BinOp::Le(_) => format!("(decide ({} ≤ {}))", l, r),
                    BinOp::Gt(_) => format!("(decide ({} > {}))", l, r),
                    BinOp::Ge(_) => format!("(decide ({} ≥ {}))", l, r),
                    BinOp::And(_) => {
                        self.hint(&l, "Bool");
                        self.hint(&r, "Bool");
                        format!("({} && {})", l, r)
                    }
                    BinOp::Or(_) => {
                        self.hint(&l, "Bool");
                        self.hint(&r, "Bool");
                        format!("({} || {})", l, r)
                    }
                    _ => return err(format!("unsupported binary op in {}", e.to_token_stream())),
                };
                Ok(s)
            }
            Expr::MethodCall(m) => {
                let name = m.method.to_string();
                let w = self.width.suffix();
                let args: Vec<&Expr> = m.args.iter().collect();
                match (name.as_str(), args.len()) {
                    ("wrapping_add", 1) => Ok(format!(
                        "(wadd{} {} {})",
                        w,
                        self.expr(&m.receiver)?,
                        self.expr(args[0])?
                    )),
                    ("wrapping_sub", 1) => Ok(format!(
                        "(wsub{} {} {})",
                        w,
                        self.expr(&m.receiver)?,
                        self.expr(args[0])?
                    )),
                    ("saturating_add", 1) => Ok(format!(
                        "(sadd{} {} {})",
                        w,
                        self.expr(&m.receiver)?,
                        self.expr(args[0])?
                    )),
                    ("saturating_sub", 1) => Ok(format!(
                        "(ssub{} {} {})",
                        w,
                        self.expr(&m.receiver)?,
                        self.expr(args[0])?
                    )),
                    ("checked_sub", 1) => Ok(format!(
                        "(csub{} {} {})",
                        w,
                        self.expr(&m.receiver)?,
                        self.expr(args[0])?
                    )),
                    ("checked_add", 1) => Ok(format!(
                        "(cadd{} {} {})",
                        w,
                        self.expr(&m.receiver)?,
                        self.expr(args[0])?
                    )),
                    ("div_ceil", 1) => {
                        let a = self.expr(&m.receiver)?;
                        let b = self.expr(args[0])?;
                        Ok(format!("(({} + {} - 1) / {})", a, b, b))
                    }
                    ("min", 1) => Ok(format!(
                        "(Nat.min {} {})",
                        self.expr(&m.receiver)?,
                        self.expr(args[0])?
                    )),
                    ("max", 1) => Ok(format!(
                        "(Nat.max {} {})",
                        self.expr(&m.receiver)?,
                        self.expr(args[0])?
                    )),
                    ("unwrap_or", 1) => {
                        let r = self.expr(&m.receiver)?;
                        let d = self.expr(args[0])?;
                        let ty = if d == "true" || d == "false" { "Option Bool" } else { "Option Nat" };
                        self.hint(&r, ty);
                        Ok(format!("(Option.getD {} {})", r, d))
                    }
                    ("unwrap_or_default", 0) => {
                        let r = self.expr(&m.receiver)?;
                        self.hint(&r, "Option Nat");
                        Ok(format!("(Option.getD {} 0)", r))
                    }
                    ("is_some", 0) => {
                        let r = self.expr(&m.receiver)?;
                        self.hint(&r, "Option Nat");
                        Ok(format!("(Option.isSome {})", r))
                    }
                    ("is_none", 0) => {
                        let r = self.expr(&m.receiver)?;
                        self.hint(&r, "Option Nat");
                        Ok(format!("(Option.isNone {})", r))
                    }
                    ("is_empty", 0) => {
                        // collection emptiness becomes a boolean parameter `<place>_is_empty`
                        match self.place_name(&m.receiver) {
                            Some(n) => {
                                let p = self.param(format!("{}_is_empty", sanitize(&n)));
                                self.hint(&p, "Bool");
                                Ok(p)
                            }
                            None => err(format!("is_empty on {}", m.receiver.to_token_stream())),
                        }
                    }
                    ("len", 0) => match self.place_name(&m.receiver) {
                        Some(n) => Ok(self.param(format!("{}_len", sanitize(&n)))),
                        None => err(format!("len on {}", m.receiver.to_token_stream())),
                    },
                    ("remaining", 0) => match self.place_name(&m.receiver) {
                        Some(n) => Ok(self.param(format!("{}_remaining", sanitize(&n)))),
                        None => err(format!("remaining on {}", m.receiver.to_token_stream())),
                    },
                    ("as_bytes", 0) => {
                        let r = self.expr(&m.receiver)?;
                        self.hint(&r, "List UInt8");
                        Ok(r)
                    }
                    ("max_capacity", 0) => match self.place_name(&m.receiver) {
                        Some(n) => Ok(self.param(format!("{}_max_capacity", sanitize(&n)))),
                        None => err(format!("max_capacity on {}", m.receiver.to_token_stream())),
                    },
                    // transparent wrappers
                    ("value", 0) | ("clone", 0) | ("copied", 0) | ("cloned", 0) | ("as_ref", 0)
                    | ("into", 0) | ("as_millis", 0) => self.expr(&m.receiver),
                    ("and_then", 1) | ("map", 1) => {
                        let recv = self.expr(&m.receiver)?;
                        self.hint(&recv, "Option Nat");
                        match args[0] {
                            Expr::Closure(c) if c.inputs.len() == 1 => {
                                let v = match &c.inputs[0] {
                                    Pat::Ident(i) => i.ident.to_string(),
                                    Pat::Type(t) => match &*t.pat {
                                        Pat::Ident(i) => i.ident.to_string(),
                                        _ => return err("closure pattern"),
                                    },
                                    _ => return err("closure pattern"),
                                };
                                let had_local = self.env.locals.remove(&v);
                                let fresh = self.env.bound.insert(v.clone());
                                let body = self.expr(&c.body);
                                if fresh {
                                    self.env.bound.remove(&v);
                                }
                                if let Some(l) = had_local {
                                    self.env.locals.insert(v.clone(), l);
                                }
                                let body = body?;
                                if name == "and_then" {
                                    Ok(format!("(Option.bind {} (fun {} => {}))", recv, v, body))
                                } else {
                                    Ok(format!("(Option.map (fun {} => {}) {})", v, body, recv))
                                }
                            }
                            _ => err(format!("unsupported closure in {}", e.to_token_stream())),
                        }
                    }
                    _ => err(format!("unsupported method call .{}() in {}", name, e.to_token_stream())),
                }
            }
            Expr::Call(c) => {
                let f = c.func.to_token_stream().to_string().replace(' ', "");
                let args: Vec<&Expr> = c.args.iter().collect();
                match (f.as_str(), args.len()) {
                    ("Some", 1) => Ok(format!("(some {})", self.expr(args[0])?)),
                    // durations are carried as microseconds
                    ("Duration::from_millis", 1) | ("std::time::Duration::from_millis", 1) => Ok(format!("({} * 1000)", self.expr(args[0])?)),
                    ("Duration::from_micros", 1) | ("std::time::Duration::from_micros", 1) => self.expr(args[0]),
                    ("min", 2) | ("std::cmp::min", 2) | ("cmp::min", 2) => Ok(format!(
                        "(Nat.min {} {})",
                        self.expr(args[0])?,
                        self.expr(args[1])?
                    )),
                    ("max", 2) | ("std::cmp::max", 2) | ("cmp::max", 2) => Ok(format!(
                        "(Nat.max {} {})",
                        self.expr(args[0])?,
                        self.expr(args[1])?
                    )),
                    _ => err(format!("unsupported call {}", e.to_token_stream())),
                }
            }
            Expr::If(i) => {
                if let Expr::Let(_) = &*i.cond {
                    return err(format!("if-let in expression {}", e.to_token_stream()));
                }
                let c = self.expr(&i.cond)?;
                self.hint(&c, "Bool");
                let t = self.block_value(&i.then_branch)?;
                let f = match &i.else_branch {
                    Some((_, eb)) => self.expr(eb)?,
                    None => return err("if without else in value position"),
                };
                Ok(format!("(if {} then {} else {})", c, t, f))
            }
            Expr::Block(b) => self.block_value(&b.block),
            Expr::Match(m) => {
                // match on an Option with `Some(x)` / `None` arms
                let scrut = self.expr(&m.expr)?;
                self.hint(&scrut, "Option Nat");
                let mut some_arm: Option<(String, String)> = None;
                let mut none_arm: Option<String> = None;
                for arm in &m.arms {
                    if arm.guard.is_some() {
                        return err("match guard");
                    }
                    match &arm.pat {
                        Pat::TupleStruct(ts)
                            if ts.path.is_ident("Some") && ts.elems.len() == 1 =>
                        {
                            let v = match &ts.elems[0] {
                                Pat::Ident(i) => i.ident.to_string(),
                                Pat::Wild(_) => "_".to_string(),
                                _ => return err("Some(pattern)"),
                            };
                            let fresh = self.env.bound.insert(v.clone());
                            let body = self.expr(&arm.body);
                            if fresh {
                                self.env.bound.remove(&v);
                            }
                            some_arm = Some((v, body?));
                        }
                        Pat::Ident(i) if i.ident == "None" => {
                            none_arm = Some(self.expr(&arm.body)?);
                        }
                        Pat::Path(p) if p.path.is_ident("None") => {
                            none_arm = Some(self.expr(&arm.body)?);
                        }
                        _ => return err(format!("unsupported match arm {}", arm.pat.to_token_stream())),
                    }
                }
                match (some_arm, none_arm) {
                    (Some((v, s)), Some(n)) => Ok(format!(
                        "(match {} with | some {} => {} | none => {})",
                        scrut, v, s, n
                    )),
                    _ => err("match must have Some and None arms"),
                }
            }
            _ => err(format!("unsupported expression {}", e.to_token_stream())),
        }
    }

    /// value of a block consisting of `let` bindings followed by a tail expression
    pub fn block_value(&mut self, b: &syn::Block) -> Res<String> {
        let saved = self.env.locals.clone();
        let mut result = None;
        for (i, st) in b.stmts.iter().enumerate() {
            match st {
                syn::Stmt::Local(l) => {
                    let name = match &l.pat {
                        Pat::Ident(pi) => pi.ident.to_string(),
                        Pat::Type(t) => match &*t.pat {
                            Pat::Ident(pi) => pi.ident.to_string(),
                            _ => return err("let pattern"),
                        },
                        _ => return err("let pattern"),
                    };
                    let init = match &l.init {
                        Some(init) => self.expr(&init.expr)?,
                        None => return err("let without init"),
                    };
                    // parameters of the initialiser are already recorded in this translation
                    self.env.locals.insert(name, (init, vec![]));
                }
                syn::Stmt::Expr(e, None) if i + 1 == b.stmts.len() => {
                    result = Some(self.expr(e)?);
                }
                other => {
                    self.env.locals = saved;
                    return err(format!("unsupported statement {}", other.to_token_stream()));
                }
            }
        }
        self.env.locals = saved;
        match result {
            Some(r) => Ok(r),
            None => err("block without tail expression"),
        }
    }
}
