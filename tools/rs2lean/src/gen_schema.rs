//! Composite types: every `struct` of `fe2o3-amqp-types/src` that carries
//! `#[amqp_contract(name = …, code = …, encoding = …)]` becomes one entry of
//! `Amqp.Gen.Schemas.all` (descriptor name and code as the derive macro computes
//! them, encoding, which of the two derives it has, and its fields in
//! declaration order with their wire names, declared types and the
//! `default` / `multiple` attributes).
//!
//! The same walk writes `harness/src/gen_typed.rs`: for every list-encoded,
//! non-generic composite a generator of random instances and an accessor that
//! lists its fields as typed trees, so that the correspondence harness follows
//! the declarations of the working tree (a field added, removed, reordered or
//! retyped changes both the Lean schema and the harness' view of the value).

use std::fmt::Write as _;
use std::path::{Path, PathBuf};

use quote::ToTokens;
use syn::{Fields, Item, Meta};

use crate::extract::Sources;
use crate::Out;

#[derive(Debug, Clone)]
pub struct GField {
    pub rust: String,
    pub wire: String,
    /// declared type with `Option<…>` and `Box<…>` peeled off, whitespace-free
    pub ty: String,
    /// declared type, whitespace-free
    pub full_ty: String,
    pub optional: bool,
    pub dflt: bool,
    pub multiple: bool,
}

#[derive(Debug, Clone)]
pub struct GSchema {
    pub rust: String,
    pub file: String,
    pub name: String,
    pub code: Option<u64>,
    pub encoding: String,
    pub ser: bool,
    pub de: bool,
    pub generic: bool,
    pub tuple: bool,
    pub fields: Vec<GField>,
}

fn norm(ts: impl ToTokens) -> String {
    ts.to_token_stream().to_string().replace(' ', "")
}

fn walk(dir: &Path, out: &mut Vec<PathBuf>) {
    let mut entries: Vec<_> = match std::fs::read_dir(dir) {
        Ok(r) => r.filter_map(|e| e.ok()).map(|e| e.path()).collect(),
        Err(_) => return,
    };
    entries.sort();
    for p in entries {
        if p.is_dir() {
            walk(&p, out);
        } else if p.extension().map(|e| e == "rs").unwrap_or(false) {
            out.push(p);
        }
    }
}

/// `parse_descriptor_code` of serde_amqp_derive/src/util.rs
fn parse_code(s: &str) -> Option<u64> {
    fn one(s: &str) -> Option<u64> {
        let s = s.replace('_', "");
        if let Some(h) = s.strip_prefix("0x").or_else(|| s.strip_prefix("0X")) {
            u64::from_str_radix(h, 16).ok()
        } else {
            s.parse::<u64>().ok()
        }
    }
    let mut it = s.split(':');
    let a = it.next()?;
    match it.next() {
        Some(b) => Some((one(a)? << 32) | one(b)?),
        None => one(a),
    }
}

fn rename(case: &str, ident: &str) -> Option<String> {
    match case {
        "" => Some(ident.to_string()),
        "kebab-case" => Some(ident.replace('_', "-")),
        "snake_case" => Some(ident.to_string()),
        _ => None,
    }
}

fn peel(ty: &str) -> (String, bool) {
    let mut t = ty.to_string();
    let mut optional = false;
    loop {
        if let Some(inner) = t.strip_prefix("Option<").and_then(|x| x.strip_suffix('>')) {
            optional = true;
            t = inner.to_string();
        } else if let Some(inner) = t.strip_prefix("Box<").and_then(|x| x.strip_suffix('>')) {
            t = inner.to_string();
        } else {
            break;
        }
    }
    (t, optional)
}

struct Contract {
    name: Option<String>,
    code: Option<String>,
    encoding: Option<String>,
    rename_all: Option<String>,
    dflt: bool,
    multiple: bool,
}

fn contract(attrs: &[syn::Attribute], errors: &mut Vec<String>, what: &str) -> Option<Contract> {
    let mut found = None;
    for a in attrs {
        if !a.path().is_ident("amqp_contract") {
            continue;
        }
        let mut c = Contract { name: None, code: None, encoding: None, rename_all: None, dflt: false, multiple: false };
        if let Meta::List(_) = &a.meta {
            let r = a.parse_nested_meta(|m| {
                let key = m.path.get_ident().map(|i| i.to_string()).unwrap_or_default();
                match key.as_str() {
                    "default" => c.dflt = true,
                    "multiple" => c.multiple = true,
                    "name" | "code" | "encoding" | "rename_all" => {
                        let v: syn::LitStr = m.value()?.parse()?;
                        match key.as_str() {
                            "name" => c.name = Some(v.value()),
                            "code" => c.code = Some(v.value()),
                            "encoding" => c.encoding = Some(v.value()),
                            _ => c.rename_all = Some(v.value()),
                        }
                    }
                    other => return Err(m.error(format!("unknown amqp_contract key `{}`", other))),
                }
                Ok(())
            });
            if let Err(e) = r {
                errors.push(format!("{}: amqp_contract attribute outside the supported subset: {}", what, e));
            }
        }
        found = Some(c);
    }
    found
}

fn derives(attrs: &[syn::Attribute]) -> (bool, bool) {
    let mut ser = false;
    let mut de = false;
    for a in attrs {
        if a.path().is_ident("derive") {
            let t = norm(&a.meta);
            for part in t.trim_start_matches("derive(").trim_end_matches(')').split(',') {
                let last = part.rsplit("::").next().unwrap_or(part);
                if last == "SerializeComposite" {
                    ser = true;
                }
                if last == "DeserializeComposite" {
                    de = true;
                }
            }
        }
    }
    (ser, de)
}

fn collect(items: &[Item], file: &str, errors: &mut Vec<String>, out: &mut Vec<GSchema>) {
    for it in items {
        match it {
            Item::Struct(s) => {
                let what = format!("{}: struct {}", file, s.ident);
                let c = match contract(&s.attrs, errors, &what) {
                    Some(c) => c,
                    None => continue,
                };
                let (ser, de) = derives(&s.attrs);
                if !ser && !de {
                    continue;
                }
                let rename_all = c.rename_all.clone().unwrap_or_default();
                let mut fields = vec![];
                let mut tuple = false;
                match &s.fields {
                    Fields::Named(n) => {
                        for f in &n.named {
                            let id = f.ident.as_ref().unwrap().to_string();
                            let fc = contract(&f.attrs, errors, &format!("{} field {}", what, id));
                            let full = norm(&f.ty);
                            let (ty, optional) = peel(&full);
                            let wire = match rename(&rename_all, &id) {
                                Some(w) => w,
                                None => {
                                    errors.push(format!("{}: rename_all = \"{}\" is outside the supported subset", what, rename_all));
                                    id.clone()
                                }
                            };
                            fields.push(GField {
                                rust: id,
                                wire,
                                ty,
                                full_ty: full,
                                optional,
                                dflt: fc.as_ref().map(|c| c.dflt).unwrap_or(false),
                                multiple: fc.as_ref().map(|c| c.multiple).unwrap_or(false),
                            });
                        }
                    }
                    Fields::Unnamed(u) => {
                        tuple = true;
                        for (i, f) in u.unnamed.iter().enumerate() {
                            let full = norm(&f.ty);
                            let (ty, optional) = peel(&full);
                            fields.push(GField { rust: i.to_string(), wire: i.to_string(), ty, full_ty: full, optional, dflt: false, multiple: false });
                        }
                    }
                    Fields::Unit => {}
                }
                let code = match &c.code {
                    Some(s) => match parse_code(s) {
                        Some(n) => Some(n),
                        None => {
                            errors.push(format!("{}: descriptor code \"{}\" does not parse", what, s));
                            None
                        }
                    },
                    None => None,
                };
                out.push(GSchema {
                    rust: s.ident.to_string(),
                    file: file.to_string(),
                    name: c.name.clone().unwrap_or_else(|| s.ident.to_string()),
                    code,
                    encoding: c.encoding.clone().unwrap_or_else(|| "list".to_string()),
                    ser,
                    de,
                    generic: !s.generics.params.is_empty(),
                    tuple,
                    fields,
                });
            }
            Item::Mod(m) => {
                if m.ident == "tests" || m.ident == "test" {
                    continue;
                }
                if let Some((_, items)) = &m.content {
                    collect(items, file, errors, out);
                }
            }
            Item::Macro(mac) => {
                if let Ok(f) = syn::parse2::<syn::File>(mac.mac.tokens.clone()) {
                    collect(&f.items, file, errors, out);
                }
            }
            _ => {}
        }
    }
}

pub fn schemas(src: &mut Sources, errors: &mut Vec<String>) -> Vec<GSchema> {
    let base = src.root.join("fe2o3-amqp-types/src");
    let mut files = vec![];
    walk(&base, &mut files);
    let mut all = vec![];
    for p in files {
        let rel = p.strip_prefix(&src.root).unwrap().to_string_lossy().to_string();
        match src.file(&rel) {
            Ok(f) => {
                let items = f.items.clone();
                collect(&items, &rel, errors, &mut all);
            }
            Err(e) => errors.push(e),
        }
    }
    all.sort_by(|a, b| (a.code, &a.name, &a.rust).cmp(&(b.code, &b.name, &b.rust)));
    all
}

fn lean_str(s: &str) -> String {
    format!("\"{}\"", s.replace('\\', "\\\\").replace('"', "\\\""))
}

fn lean_bool(b: bool) -> &'static str {
    if b {
        "true"
    } else {
        "false"
    }
}

pub fn generate(src: &mut Sources, out: &mut Out, rust_out: Option<&Path>) {
    let mut errors = vec![];
    let all = schemas(src, &mut errors);
    if all.is_empty() {
        errors.push("no #[amqp_contract] struct found under fe2o3-amqp-types/src".to_string());
    }
    let mut s = String::new();
    s.push_str("/- GENERATED by tools/rs2lean (gen_schema.rs) from fe2o3-amqp-types/src — do not edit.\n");
    s.push_str("   One entry per struct carrying #[amqp_contract(name, code, encoding)] together with a\n");
    s.push_str("   SerializeComposite / DeserializeComposite derive: what the derive macros are given. -/\n");
    s.push_str("namespace Amqp.Gen.Schemas\n\n");
    s.push_str("structure GField where\n  rust : String\n  wire : String\n  ty : String\n  optional : Bool\n  dflt : Bool\n  multiple : Bool\nderiving Repr, DecidableEq\n\n");
    s.push_str("structure GSchema where\n  rust : String\n  name : String\n  code : Option Nat\n  encoding : String\n  ser : Bool\n  de : Bool\n  generic : Bool\n  tuple : Bool\n  fields : List GField\nderiving Repr, DecidableEq\n\n");
    s.push_str("def all : List GSchema := [\n");
    for (i, g) in all.iter().enumerate() {
        let _ = writeln!(s, "  -- {}", g.file);
        let _ = write!(
            s,
            "  {{ rust := {}, name := {}, code := {}, encoding := {}, ser := {}, de := {}, generic := {}, tuple := {},\n    fields := [",
            lean_str(&g.rust),
            lean_str(&g.name),
            match g.code {
                Some(c) => format!("some {}", c),
                None => "none".to_string(),
            },
            lean_str(&g.encoding),
            lean_bool(g.ser),
            lean_bool(g.de),
            lean_bool(g.generic),
            lean_bool(g.tuple)
        );
        for (j, f) in g.fields.iter().enumerate() {
            let _ = write!(
                s,
                "{}\n      {{ rust := {}, wire := {}, ty := {}, optional := {}, dflt := {}, multiple := {} }}",
                if j == 0 { "" } else { "," },
                lean_str(&f.rust),
                lean_str(&f.wire),
                lean_str(&f.ty),
                lean_bool(f.optional),
                lean_bool(f.dflt),
                lean_bool(f.multiple)
            );
        }
        let _ = writeln!(s, "] }}{}", if i + 1 == all.len() { "" } else { "," });
    }
    s.push_str("]\n\nend Amqp.Gen.Schemas\n");
    out.write("Schemas.lean", &s);

    if let Some(p) = rust_out {
        let r = rust_side(&all);
        let old = std::fs::read_to_string(p).ok();
        if old.as_deref() != Some(r.as_str()) {
            std::fs::write(p, r).expect("write generated rust file");
            out.written.push(format!("{} (changed)", p.display()));
        } else {
            out.written.push(format!("{} (unchanged)", p.display()));
        }
    }
    out.errors.extend(errors);
}

/// harness/src/gen_typed.rs
fn rust_side(all: &[GSchema]) -> String {
    let mut r = String::new();
    r.push_str("// GENERATED by tools/rs2lean (gen_schema.rs) from fe2o3-amqp-types/src — do not edit.\n");
    r.push_str("// Generators and field accessors of every list-encoded, non-generic composite.\n");
    r.push_str("#![allow(unused_imports, clippy::all)]\n");
    r.push_str("use crate::common::Rng;\nuse crate::typed::paths::*;\nuse crate::typed::{Gen, Tree, Typed, TV};\n\n");
    let mut names = vec![];
    for g in all {
        if g.generic || g.tuple || g.encoding != "list" || !(g.ser && g.de) || g.code.is_none() {
            continue;
        }
        names.push(g.rust.clone());
        let _ = writeln!(r, "impl Typed for {} {{", g.rust);
        let _ = writeln!(r, "    const RUST: &'static str = \"{}\";", g.rust);
        let _ = writeln!(r, "    const NAME: &'static str = \"{}\";", g.name);
        let _ = writeln!(r, "    const CODE: u64 = {:#x};", g.code.unwrap());
        let _ = writeln!(r, "    const NFIELDS: usize = {};", g.fields.len());
        let _ = writeln!(r, "    fn slots(&self) -> Vec<TV> {{");
        let _ = writeln!(r, "        vec![{}]", g.fields.iter().map(|f| format!("Tree::tv(&self.{})", f.rust)).collect::<Vec<_>>().join(", "));
        let _ = writeln!(r, "    }}");
        let _ = writeln!(r, "    fn default_slots() -> Vec<Option<TV>> {{");
        let _ = writeln!(
            r,
            "        vec![{}]",
            g.fields
                .iter()
                .map(|f| if f.dflt { format!("Some(Tree::tv(&<{} as Default>::default()))", f.full_ty) } else { "None".to_string() })
                .collect::<Vec<_>>()
                .join(", ")
        );
        let _ = writeln!(r, "    }}");
        let _ = writeln!(r, "}}");
        let _ = writeln!(r, "impl Tree for {} {{", g.rust);
        let _ = writeln!(r, "    fn tv(&self) -> TV {{\n        TV::Comp(Self::NAME.to_string(), self.slots())\n    }}");
        let _ = writeln!(r, "}}");
        let _ = writeln!(r, "impl Gen for {} {{", g.rust);
        let _ = writeln!(r, "    fn generate(rng: &mut Rng, depth: u32) -> Self {{");
        if g.fields.is_empty() {
            let _ = writeln!(r, "        let _ = (rng, depth);\n        {} {{}}", g.rust);
        } else {
            let _ = writeln!(r, "        {} {{", g.rust);
            for f in &g.fields {
                let _ = writeln!(r, "            {}: Gen::generate(rng, depth),", f.rust);
            }
            let _ = writeln!(r, "        }}");
        }
        let _ = writeln!(r, "    }}\n}}\n");
    }
    let _ = writeln!(r, "/// every composite the harness can generate: run `f` once per type");
    let _ = writeln!(r, "#[macro_export]\nmacro_rules! for_each_composite {{\n    ($m:ident) => {{");
    for n in &names {
        let _ = writeln!(r, "        $m!({});", n);
    }
    let _ = writeln!(r, "    }};\n}}");
    r
}
