//! Locating functions in parsed sources and extracting integer kernels:
//! every assignment `self.<field> = <expr>` / `<op>=` and every `if` / `while`
//! condition of a function whose expression falls in the supported subset.

use std::collections::BTreeMap;
use std::path::{Path, PathBuf};

use quote::ToTokens;
use syn::visit::{self, Visit};
use syn::{BinOp, Expr, ImplItem, Item, Pat};

use crate::expr::{sanitize, Tr, Width};

pub struct Sources {
    pub root: PathBuf,
    cache: BTreeMap<String, syn::File>,
}

impl Sources {
    pub fn new(root: &Path) -> Self {
        Sources {
            root: root.to_path_buf(),
            cache: BTreeMap::new(),
        }
    }

    pub fn file(&mut self, rel: &str) -> Result<&syn::File, String> {
        if !self.cache.contains_key(rel) {
            let p = self.root.join(rel);
            let text = std::fs::read_to_string(&p).map_err(|e| format!("{}: {}", p.display(), e))?;
            let f = syn::parse_file(&text).map_err(|e| format!("{}: parse error {}", p.display(), e))?;
            self.cache.insert(rel.to_string(), f);
        }
        Ok(self.cache.get(rel).unwrap())
    }

    pub fn text(&self, rel: &str) -> Result<String, String> {
        let p = self.root.join(rel);
        std::fs::read_to_string(&p).map_err(|e| format!("{}: {}", p.display(), e))
    }
}

/// Selects `fn name` inside `impl [Trait for] Type` (both matched as
/// whitespace-free token strings; `None` = any / free function).
#[derive(Clone, Debug)]
pub struct FnSel {
    pub file: &'static str,
    pub self_ty: Option<&'static str>,
    pub trait_: Option<&'static str>,
    pub name: &'static str,
}

fn norm(ts: impl ToTokens) -> String {
    ts.to_token_stream().to_string().replace(' ', "")
}

pub struct FoundFn<'a> {
    pub block: &'a syn::Block,
    pub sig: &'a syn::Signature,
}

fn search_items<'a>(items: &'a [Item], sel: &FnSel, out: &mut Vec<FoundFn<'a>>) {
    for it in items {
        match it {
            Item::Fn(f) if sel.self_ty.is_none() && f.sig.ident == sel.name => out.push(FoundFn {
                block: &f.block,
                sig: &f.sig,
            }),
            Item::Impl(im) => {
                let ty = norm(&im.self_ty);
                let tr = im.trait_.as_ref().map(|(_, p, _)| norm(p));
                let ty_ok = match sel.self_ty {
                    Some(t) => ty == t,
                    None => false,
                };
                let tr_ok = match sel.trait_ {
                    Some(t) => tr.as_deref() == Some(t),
                    None => true,
                };
                if ty_ok && tr_ok {
                    for ii in &im.items {
                        if let ImplItem::Fn(f) = ii {
                            if f.sig.ident == sel.name {
                                out.push(FoundFn {
                                    block: &f.block,
                                    sig: &f.sig,
                                });
                            }
                        }
                    }
                }
            }
            Item::Mod(m) => {
                if let Some((_, items)) = &m.content {
                    search_items(items, sel, out);
                }
            }
            Item::Macro(mac) => {
                // cfg_xxx! { items } wrappers used throughout the crate
                if let Ok(f) = syn::parse2::<syn::File>(mac.mac.tokens.clone()) {
                    // leak: parsed once per lookup, tiny
                    let leaked: &'a syn::File = Box::leak(Box::new(f));
                    search_items(&leaked.items, sel, out);
                }
            }
            _ => {}
        }
    }
}

pub fn find_fn<'a>(file: &'a syn::File, sel: &FnSel) -> Result<FoundFn<'a>, String> {
    let mut out = Vec::new();
    search_items(&file.items, sel, &mut out);
    match out.len() {
        1 => Ok(out.pop().unwrap()),
        0 => Err(format!("function not found: {:?}", sel)),
        n => Err(format!("function ambiguous ({} matches): {:?}", n, sel)),
    }
}

#[derive(Debug, Clone)]
pub struct Kernel {
    /// `assign` or `cond`
    pub kind: &'static str,
    /// field name for assigns; `if` / `while` for conds
    pub what: String,
    /// occurrence index among kernels with the same (kind, what)
    pub index: usize,
    pub lean: Result<String, String>,
    pub params: Vec<(String, String)>,
    pub src: String,
}

struct Walker {
    width: Width,
    consts: BTreeMap<String, String>,
    locals: BTreeMap<String, (String, Vec<(String, String)>)>,
    out: Vec<Kernel>,
}

impl Walker {
    fn tr(&self) -> Tr {
        let mut t = Tr::new(self.width);
        t.env.consts = self.consts.clone();
        t.env.locals = self.locals.clone();
        t
    }

    fn push(&mut self, kind: &'static str, what: String, lean: Result<(String, Vec<(String, String)>), String>, src: String) {
        let index = self.out.iter().filter(|k| k.kind == kind && k.what == what).count();
        let (lean, params) = match lean {
            Ok((l, p)) => (Ok(l), p),
            Err(e) => (Err(e), vec![]),
        };
        self.out.push(Kernel {
            kind,
            what,
            index,
            lean,
            params,
            src,
        });
    }

    fn translate(&self, e: &Expr) -> Result<(String, Vec<(String, String)>), String> {
        let mut t = self.tr();
        match t.expr(e) {
            Ok(s) => Ok((s, typed_params(&t))),
            Err(er) => Err(er.0),
        }
    }

    /// `self.f`, `state.f`, `guard.f`, `inner.f` (a lock guard over the state) as (object, field)
    fn self_field(e: &Expr) -> Option<(String, String)> {
        match e {
            Expr::Field(f) => {
                if let Expr::Path(p) = &*f.base {
                    for obj in ["self", "state", "guard", "inner"] {
                        if p.path.is_ident(obj) {
                            if let syn::Member::Named(i) = &f.member {
                                return Some((obj.to_string(), i.to_string()));
                            }
                        }
                    }
                }
                None
            }
            Expr::Paren(p) => Self::self_field(&p.expr),
            _ => None,
        }
    }

    /// after `obj.field` has been assigned, inlined locals that read it are stale
    fn invalidate(&mut self, obj: &str, field: &str) {
        let p = format!("{}_{}", obj, sanitize(field));
        let stale: Vec<String> = self
            .locals
            .iter()
            .filter(|(_, (t, _))| t.split(|c: char| !c.is_alphanumeric() && c != '_').any(|tok| tok == p))
            .map(|(k, _)| k.clone())
            .collect();
        for k in stale {
            self.locals.remove(&k);
        }
    }
}

impl<'ast> Visit<'ast> for Walker {
    fn visit_local(&mut self, l: &'ast syn::Local) {
        if let Some(init) = &l.init {
            self.visit_expr(&init.expr);
            let (name, mutable) = match &l.pat {
                Pat::Ident(pi) => (Some(pi.ident.to_string()), pi.mutability.is_some()),
                Pat::Type(t) => match &*t.pat {
                    Pat::Ident(pi) => (Some(pi.ident.to_string()), pi.mutability.is_some()),
                    _ => (None, false),
                },
                _ => (None, false),
            };
            if let Some(name) = name {
                self.locals.remove(&name);
                let r = self.translate(&init.expr);
                // a `let mut` local may be assigned again (in a loop, in a branch): its initial value is
                // recorded, but later reads of it are reads of a variable, not of that value
                if let (Ok((lean, ps)), false) = (&r, mutable) {
                    self.locals.insert(name.clone(), (lean.clone(), ps.clone()));
                }
                if r.is_ok() {
                    self.push("let", name, r, l.to_token_stream().to_string());
                }
            }
        }
    }

    fn visit_expr_assign(&mut self, a: &'ast syn::ExprAssign) {
        visit::visit_expr_assign(self, a);
        if let Expr::Path(p) = &*a.left {
            if let Some(id) = p.path.get_ident() {
                let name = id.to_string();
                self.locals.remove(&name);
                let r = self.translate(&a.right);
                if r.is_ok() {
                    self.push("assign", name, r, a.to_token_stream().to_string());
                }
            }
        }
        if let Some((obj, field)) = Walker::self_field(&a.left) {
            let r = self.translate(&a.right);
            self.push("assign", field.clone(), r, a.to_token_stream().to_string());
            self.invalidate(&obj, &field);
        }
    }

    fn visit_expr_binary(&mut self, b: &'ast syn::ExprBinary) {
        let op = match b.op {
            BinOp::AddAssign(_) => Some("+"),
            BinOp::SubAssign(_) => Some("-"),
            _ => None,
        };
        if let (Some(op), Expr::Path(p)) = (op, &*b.left) {
            if let Some(id) = p.path.get_ident() {
                let name = id.to_string();
                self.locals.remove(&name);
                let r = self.translate(&b.right).map(|(rhs, mut ps)| {
                    if !ps.iter().any(|(n, _)| n == &name) {
                        ps.push((name.clone(), "Nat".to_string()));
                        ps.sort();
                    }
                    let w = match self.width {
                        Width::W16 => "16",
                        Width::W32 => "32",
                        Width::Usize => "64",
                    };
                    if op == "+" {
                        (format!("({} + {})", name, rhs), ps)
                    } else {
                        (format!("(psub{} {} {})", w, name, rhs), ps)
                    }
                });
                if r.is_ok() {
                    self.push("assign", name, r, b.to_token_stream().to_string());
                }
            }
        }
        if let (Some(op), Some((obj, field))) = (op, Walker::self_field(&b.left)) {
            let r = self.translate(&b.right).map(|(rhs, mut ps)| {
                let p = format!("{}_{}", obj, sanitize(&field));
                if !ps.iter().any(|(n, _)| n == &p) {
                    ps.push((p.clone(), "Nat".to_string()));
                    ps.sort();
                }
                let w = match self.width {
                    Width::W16 => "16",
                    Width::W32 => "32",
                    Width::Usize => "64",
                };
                if op == "+" {
                    (format!("({} + {})", p, rhs), ps)
                } else {
                    (format!("(psub{} {} {})", w, p, rhs), ps)
                }
            });
            self.push("assign", field.clone(), r, b.to_token_stream().to_string());
            self.invalidate(&obj, &field);
        }
        visit::visit_expr_binary(self, b);
    }

    fn visit_expr_if(&mut self, i: &'ast syn::ExprIf) {
        if !matches!(&*i.cond, Expr::Let(_)) {
            let r = self.translate(&i.cond);
            self.push("cond", "if".into(), r, i.cond.to_token_stream().to_string());
        }
        visit::visit_expr_if(self, i);
    }

    fn visit_expr_struct(&mut self, st: &'ast syn::ExprStruct) {
        for f in &st.fields {
            if let syn::Member::Named(name) = &f.member {
                let r = self.translate(&f.expr);
                if r.is_ok() {
                    self.push("field", name.to_string(), r, f.to_token_stream().to_string());
                }
            }
        }
        visit::visit_expr_struct(self, st);
    }

    fn visit_expr_method_call(&mut self, m: &'ast syn::ExprMethodCall) {
        // builder-style configuration calls: record their (single) argument
        const BUILDER: [&str; 7] = ["length_field_length", "max_frame_length", "length_adjustment", "set_max_frame_length", "length_field_offset", "split_to", "wait_for_remote_end"];
        let name = m.method.to_string();
        if BUILDER.contains(&name.as_str()) && m.args.len() == 1 {
            let r = self.translate(&m.args[0]);
            self.push("arg", name, r, m.to_token_stream().to_string().chars().rev().take(60).collect::<String>().chars().rev().collect());
        }
        visit::visit_expr_method_call(self, m);
    }

    fn visit_expr_while(&mut self, w: &'ast syn::ExprWhile) {
        if !matches!(&*w.cond, Expr::Let(_)) {
            let r = self.translate(&w.cond);
            self.push("cond", "while".into(), r, w.cond.to_token_stream().to_string());
        }
        visit::visit_expr_while(self, w);
    }
}

pub fn kernels(block: &syn::Block, width: Width, consts: &BTreeMap<String, String>) -> Vec<Kernel> {
    let mut w = Walker {
        width,
        consts: consts.clone(),
        locals: BTreeMap::new(),
        out: vec![],
    };
    w.visit_block(block);
    w.out
}

/// value of a whole function body (pure helper functions)
pub fn fn_value(f: &FoundFn, width: Width, consts: &BTreeMap<String, String>) -> Result<(String, Vec<(String, String)>), String> {
    let mut t = Tr::new(width);
    t.env.consts = consts.clone();
    match t.block_value(f.block) {
        Ok(s) => Ok((s, typed_params(&t))),
        Err(e) => Err(e.0),
    }
}

pub fn typed_params(t: &Tr) -> Vec<(String, String)> {
    t.env.params.iter().map(|p| (p.clone(), t.param_type(p))).collect()
}

/// top-level `const NAME: T = <int literal>` items of a file (also inside impl blocks)
pub fn int_consts(file: &syn::File) -> BTreeMap<String, String> {
    let mut out = BTreeMap::new();
    fn lit(e: &Expr) -> Option<String> {
        let mut t = Tr::new(Width::W32);
        match t.expr(e) {
            Ok(s) if t.env.params.is_empty() => Some(s),
            _ => None,
        }
    }
    for it in &file.items {
        match it {
            Item::Const(c) => {
                if let Some(v) = lit(&c.expr) {
                    out.insert(c.ident.to_string(), v);
                }
            }
            Item::Impl(im) => {
                for ii in &im.items {
                    if let ImplItem::Const(c) = ii {
                        if let Some(v) = lit(&c.expr) {
                            out.insert(c.ident.to_string(), v);
                        }
                    }
                }
            }
            _ => {}
        }
    }
    out
}

/// order in which the given call names first occur in a function body (token order)
pub fn call_order(block: &syn::Block, names: &[&str]) -> Vec<String> {
    let toks: Vec<String> = block
        .to_token_stream()
        .into_iter()
        .flat_map(flatten)
        .collect();
    let mut found: Vec<(usize, String)> = vec![];
    for n in names {
        if let Some(rest) = n.strip_prefix("last:") {
            // the LAST occurrence of a token sequence (e.g. `last:. await`)
            let pat: Vec<&str> = rest.split(' ').collect();
            let mut at = None;
            for i in 0..toks.len() {
                if i + pat.len() <= toks.len() && pat.iter().enumerate().all(|(j, p)| toks[i + j] == *p) {
                    at = Some(i);
                }
            }
            if let Some(i) = at {
                found.push((i, n.to_string()));
            }
            continue;
        }
        if n.contains(' ') || *n == "while" {
            // a token sequence (e.g. `transfer . delivery_tag = None`) instead of a call
            let pat: Vec<&str> = n.split(' ').collect();
            for i in 0..toks.len() {
                if i + pat.len() <= toks.len() && pat.iter().enumerate().all(|(j, p)| toks[i + j] == *p) {
                    found.push((i, n.to_string()));
                    break;
                }
            }
            continue;
        }
        for (i, t) in toks.iter().enumerate() {
            if t == n && toks.get(i + 1).map(|x| x == "(").unwrap_or(false) {
                found.push((i, n.to_string()));
                break;
            }
        }
    }
    found.sort();
    found.into_iter().map(|(_, n)| n).collect()
}

fn flatten(tt: proc_macro2::TokenTree) -> Vec<String> {
    match tt {
        proc_macro2::TokenTree::Group(g) => {
            let (o, c) = match g.delimiter() {
                proc_macro2::Delimiter::Parenthesis => ("(", ")"),
                proc_macro2::Delimiter::Brace => ("{", "}"),
                proc_macro2::Delimiter::Bracket => ("[", "]"),
                proc_macro2::Delimiter::None => ("", ""),
            };
            let mut v = vec![o.to_string()];
            v.extend(g.stream().into_iter().flat_map(flatten));
            v.push(c.to_string());
            v
        }
        other => vec![other.to_string()],
    }
}
