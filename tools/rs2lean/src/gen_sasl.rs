//! SASL decision tables (`Amqp/Gen/SaslTables.lean`): the `SaslCode` enum with its wire values,
//! and, read off the `match` expressions of the listener's and the client's negotiation loops,
//! what each outcome code and each kind of frame leads to.

use quote::ToTokens;
use syn::visit::Visit;
use syn::{Expr, ExprMatch, Pat};

use crate::extract::{find_fn, FnSel, Sources};
use crate::Out;

fn norm(ts: impl ToTokens) -> String {
    ts.to_token_stream().to_string().replace(' ', "")
}

/// the Lean pattern for a Rust variant: `Ok` -> `.ok`, `Some(true)` -> `some true`, `None` -> `none`
fn lean_pat(v: &str) -> String {
    match v {
        "Some(true)" => "some true".into(),
        "Some(false)" => "some false".into(),
        "None" => "none".into(),
        "Some" => "some ()".into(),
        other => format!(".{}", lower_first(other)),
    }
}

fn lower_first(s: &str) -> String {
    let mut c = s.chars();
    match c.next() {
        Some(f) => f.to_lowercase().collect::<String>() + c.as_str(),
        None => String::new(),
    }
}

/// variants (name, discriminant) of an enum
fn enum_with_values(file: &syn::File, name: &str) -> Option<Vec<(String, Option<u64>)>> {
    fn search(items: &[syn::Item], name: &str) -> Option<Vec<(String, Option<u64>)>> {
        for it in items {
            match it {
                syn::Item::Enum(e) if e.ident == name => {
                    return Some(
                        e.variants
                            .iter()
                            .map(|v| {
                                let d = v.discriminant.as_ref().and_then(|(_, e)| {
                                    let t = norm(e);
                                    let t = t.trim_end_matches("u8").to_string();
                                    t.parse::<u64>().ok()
                                });
                                (v.ident.to_string(), d)
                            })
                            .collect(),
                    )
                }
                syn::Item::Mod(m) => {
                    if let Some((_, items)) = &m.content {
                        if let Some(r) = search(items, name) {
                            return Some(r);
                        }
                    }
                }
                _ => {}
            }
        }
        None
    }
    search(&file.items, name)
}

struct Matches<'a> {
    found: Vec<&'a ExprMatch>,
}

impl<'ast> Visit<'ast> for Matches<'ast> {
    fn visit_expr_match(&mut self, m: &'ast ExprMatch) {
        self.found.push(m);
        syn::visit::visit_expr_match(self, m);
    }
}

/// does the pattern cover `Enum::Variant`? (`_`, a bare binding, `A | B`, `Path::Variant(..)`)
pub fn covers(pat: &Pat, variant: &str) -> bool {
    if variant.contains('(') {
        // a variant with a literal payload, e.g. `Some(true)`: compare the pattern text
        return match pat {
            Pat::Wild(_) => true,
            Pat::Or(o) => o.cases.iter().any(|p| covers(p, variant)),
            Pat::Paren(p) => covers(&p.pat, variant),
            other => norm(other) == variant,
        };
    }
    match pat {
        Pat::Wild(_) => true,
        // a bare identifier is a binding (covers everything) unless it is a unit variant such as `None`
        Pat::Ident(i) => i.subpat.is_none() && (i.ident == variant || i.ident.to_string().chars().next().map(|c| c.is_lowercase()).unwrap_or(false)),
        Pat::Or(o) => o.cases.iter().any(|p| covers(p, variant)),
        Pat::Path(p) => p.path.segments.last().map(|s| s.ident == variant).unwrap_or(false),
        Pat::TupleStruct(t) => t.path.segments.last().map(|s| s.ident == variant).unwrap_or(false),
        Pat::Struct(t) => t.path.segments.last().map(|s| s.ident == variant).unwrap_or(false),
        Pat::Paren(p) => covers(&p.pat, variant),
        _ => false,
    }
}

/// the first `match` in the function whose arms mention `marker` in a pattern
pub fn match_mentioning<'a>(block: &'a syn::Block, marker: &str) -> Option<&'a ExprMatch> {
    let mut v = Matches { found: vec![] };
    v.visit_block(block);
    v.found.into_iter().find(|m| m.arms.iter().any(|a| norm(&a.pat).contains(marker)))
}

/// classify an arm body by the first of the given (token, class) pairs it contains
pub fn classify(body: &Expr, classes: &[(&str, &str)]) -> Option<String> {
    let t = norm(body);
    classes.iter().find(|(tok, _)| t.contains(tok)).map(|(_, c)| c.to_string())
}

#[allow(clippy::too_many_arguments)]
pub fn emit_table(src: &mut Sources, out: &mut Out, s: &mut String, sel: &FnSel, marker: &str, dom: &str, variants: &[String], lean_name: &str, ty: &str, classes: &[(&str, &str)], doc: &str) {
    let file = match src.file(sel.file) {
        Ok(f) => f,
        Err(e) => {
            out.errors.push(e);
            return;
        }
    };
    let f = match find_fn(file, sel) {
        Ok(f) => f,
        Err(e) => {
            out.errors.push(e);
            return;
        }
    };
    let m = match match_mentioning(f.block, marker) {
        Some(m) => m,
        None => {
            out.errors.push(format!("{:?}: no match with a `{}` pattern", sel, marker));
            return;
        }
    };
    s.push_str(&format!("/-- {} (`{}` in {}, `match {}`) -/\n", doc, sel.name, sel.file, norm(&m.expr).chars().take(60).collect::<String>()));
    for (i, a) in m.arms.iter().enumerate() {
        s.push_str(&format!("--   arm {}: `{}` => `{}`\n", i, norm(&a.pat), norm(&a.body).chars().take(70).collect::<String>()));
    }
    s.push_str(&format!("def {} : {} → {}\n", lean_name, dom, ty));
    for v in variants {
        match m.arms.iter().find(|a| a.guard.is_none() && covers(&a.pat, v)) {
            Some(a) => match classify(&a.body, classes) {
                Some(c) => s.push_str(&format!("  | {} => .{}\n", lean_pat(v), c)),
                None => out.errors.push(format!("{:?}: arm `{}` fits none of the classes {:?}", sel, norm(&a.pat), classes)),
            },
            None => out.errors.push(format!("{:?}: no arm covers {}", sel, v)),
        }
    }
    s.push('\n');
}

pub fn generate(src: &mut Sources, out: &mut Out) {
    const TYPES: &str = "fe2o3-amqp-types/src/sasl/mod.rs";
    const FRAMES: &str = "fe2o3-amqp/src/frames/sasl.rs";
    let mut s = String::new();
    s.push_str("-- GENERATED by tools/rs2lean from /repo's working tree. Do not edit.\n");
    s.push_str("-- SASL outcome codes and the decisions the negotiation loops take on them.\n\nnamespace Amqp.Gen.Sasl\n\n");
    let codes = match src.file(TYPES).map(|f| enum_with_values(f, "SaslCode")) {
        Ok(Some(c)) => c,
        Ok(None) => {
            out.errors.push("enum SaslCode not found".into());
            return;
        }
        Err(e) => {
            out.errors.push(e);
            return;
        }
    };
    s.push_str(&format!("/-- `SaslCode` ({}) -/\ninductive Code where\n", TYPES));
    for (v, _) in &codes {
        s.push_str(&format!("  | {}\n", lower_first(v)));
    }
    s.push_str("deriving DecidableEq, Repr\n\n/-- the wire value -/\ndef Code.wire : Code → Nat\n");
    for (v, d) in &codes {
        match d {
            Some(d) => s.push_str(&format!("  | .{} => {}\n", lower_first(v), d)),
            None => out.errors.push(format!("SaslCode::{} has no explicit discriminant", v)),
        }
    }
    s.push('\n');
    let kinds = match src.file(FRAMES).map(|f| enum_with_values(f, "Frame")) {
        Ok(Some(c)) => c,
        _ => {
            out.errors.push("enum sasl::Frame not found".into());
            return;
        }
    };
    s.push_str(&format!("/-- the kinds of SASL frame (`Frame` in {}) -/\ninductive FrameKind where\n", FRAMES));
    for (v, _) in &kinds {
        s.push_str(&format!("  | {}\n", lower_first(v)));
    }
    s.push_str("deriving DecidableEq, Repr\n\n");
    s.push_str("inductive OnCode where\n  /-- the SASL layer is left for the AMQP layer -/\n  | proceeds\n  /-- the function returns an error -/\n  | fails\nderiving DecidableEq, Repr\n\n");
    s.push_str("inductive ListenerOnFrame where\n  | askInit\n  | askResponse\n  /-- outcome `sys`, then an error -/\n  | refuse\nderiving DecidableEq, Repr\n\n");
    s.push_str("inductive ClientOnFrame where\n  | sendInit\n  | answerChallenge\n  | takeOutcome\n  | error\nderiving DecidableEq, Repr\n\n");
    let code_names: Vec<String> = codes.iter().map(|c| c.0.clone()).collect();
    let kind_names: Vec<String> = kinds.iter().map(|c| c.0.clone()).collect();
    let listener = FnSel { file: "fe2o3-amqp/src/acceptor/connection.rs", self_ty: Some("ConnectionAcceptor<Tls,Sasl>"), trait_: None, name: "negotiate_sasl_with_framed" };
    emit_table(src, out, &mut s, &listener, "SaslCode::", "Code", &code_names, "listener_on_code", "OnCode", &[("break", "proceeds"), ("returnErr", "fails")], "what the listener does after it has written an outcome with this code");
    emit_table(src, out, &mut s, &listener, "sasl::Frame::", "FrameKind", &kind_names, "listener_on_frame", "ListenerOnFrame", &[("on_init", "askInit"), ("on_response", "askResponse"), ("returnErr", "refuse")], "what the listener does with a frame of this kind");
    let client = FnSel { file: "fe2o3-amqp/src/connection/builder.rs", self_ty: Some("Builder<'_,mode::ConnectorWithId,Tls>"), trait_: None, name: "negotiate_sasl" };
    emit_table(src, out, &mut s, &client, "SaslCode::", "Code", &code_names, "client_on_code", "OnCode", &[("returnOk(())", "proceeds"), ("returnErr", "fails")], "what the client does with an outcome of this code");
    let profile = FnSel { file: "fe2o3-amqp/src/sasl_profile/mod.rs", self_ty: Some("SaslProfile"), trait_: None, name: "on_frame" };
    emit_table(src, out, &mut s, &profile, "Frame::", "FrameKind", &kind_names, "client_on_frame", "ClientOnFrame", &[("Negotiation::Init", "sendInit"), ("Negotiation::Response", "answerChallenge"), ("Negotiation::Outcome", "takeOutcome"), ("Err(", "error")], "what the client's profile does with a frame of this kind");
    s.push_str("end Amqp.Gen.Sasl\n");
    out.write("SaslTables.lean", &s);
}
