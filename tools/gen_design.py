#!/usr/bin/env python3
"""Writes /verif/DESIGN.md from the static text below, the registry tools/props.py (what is claimed
per property), known_findings.txt (fixes and known findings) and seeded/*/meta.json (which seeded
changes which checks catch).  Run after changing any of these."""
import glob
import json
import os
import re
import sys

HERE = os.path.dirname(os.path.abspath(__file__))
VERIF = os.path.dirname(HERE)
sys.path.insert(0, HERE)
from props import PROPS  # noqa: E402

HEAD = r"""# DESIGN — machine-checked proof (Lean 4) for minghuaw/fe2o3-amqp

Status: built. All twenty given properties C01–C20 are claimed; every check passes on the
current tree of `/repo` (which contains the `fix:` commits listed in §8) and prints
`KNOWN-FINDING` lines for the defects that were recorded rather than repaired. This document
describes what exists, what each check decides and how strongly, what is trusted, which defects
were found, and which checks catch which seeded changes. Sections 7–9 are generated from the
registry (`tools/props.py`), `known_findings.txt` and `seeded/*/meta.json` by
`tools/gen_design.py`, so they cannot drift from what the checks do.

Contents

1. What is being verified and why tests cannot reach it
2. The method in one page (model · theorems · two ties · search · verdict)
3. Layout of `/verif` and how to run it
4. The Lean side: models, generated files, theorems, driver
5. Tie 1 — the translator `tools/rs2lean`
6. Tie 2 — the correspondence harness `harness/` (`vharness`)
7. Per property: technique, what is proved, what is measured, what is trusted
8. Defects found: repaired (`fix:` commits) and recorded (known findings)
9. Seeded changes: which checks catch what
10. False alarms of the machinery that were corrected
11. Trusted base
12. Hooks and commits made to `/repo`
13. Limits: what is not modelled, what the tooling could not do

---------------------------------------------------------------------------

## 1. What is being verified and why tests cannot reach it

fe2o3-amqp is an AMQP 1.0 stack: a serde-based wire codec (`serde_amqp`), the typed protocol
items (`fe2o3-amqp-types`), and tokio engines for connection / session / link, flow control,
transactions, SASL and a listener. The twenty properties quantify over *all* values, byte
strings, flow and disposition histories, fragmentations, configurations, interleavings and
cancellation points. The offline baseline (389 tests) is almost entirely one-literal codec unit
tests; nothing in it runs two endpoints against each other, feeds hostile bytes, wraps a 32-bit
counter, drops a future or lets a peer misbehave.

A theorem about a faithful model decides a property for every input at once: every value and
width boundary (C03/C05/C20), every byte string (C04), every payload length × frame size (C06),
every flow history including the 2^32 wrap-around (C07/C08/C09), every partition of a delivery
(C10), every operation sequence on the handle tables (C11), every event sequence of a protocol
state machine (C02, C12–C19), every message sequence through both cutting layers and the
reassembly (C01). That is the quantifier the suite cannot sample. The price is that the theorem
is about the model; §5 and §6 are the two *checked* ties that make the model say what `/repo`
says now.

## 2. The method in one page

`./run.sh Cxx quick|thorough` (→ `tools/check.py`) does the same five things for every property.

1. **Regenerate.** `tools/rs2lean` reads `/repo`'s working tree with `syn` and rewrites
   `lean/Amqp/Gen/*.lean`: format codes and thresholds, arithmetic and branch conditions
   ("kernels"), state-transition tables, decision tables of `match` expressions, and the order in
   which named calls / `.await`s / assignments occur in a function body. A function that has
   left the translatable subset, a vanished function or an ambiguous one is an error.
2. **Prove.** `lake build Theorems.Cxx` re-checks the property theorems against the regenerated
   definitions. Then an axiom audit: `#print axioms` of every registered theorem must be within
   {`propext`, `Classical.choice`, `Quot.sound`}; a source scan rejects `sorry`, `admit`,
   `axiom`, `native_decide`, `bv_decide`, `implemented_by`, `unsafe`, `maxHeartbeats 0`.
   The thorough tier also runs `leanchecker` on the theorem module.
3. **Correspond.** The Rust harness is rebuilt against `/repo`'s working tree (path
   dependencies, `--cfg fe2o3_amqp_verif`, overflow checks on). It generates inputs, operation
   sequences or scripted-peer scenarios from `VERIF_SEED`, runs the *implementation*, writes one
   line per question to the compiled Lean driver (`lean/.lake/build/bin/driver`, the model's
   executable definitions, no Mathlib), and compares the answers line by line.
4. **Search.** For every generated case the harness also evaluates the *property itself* on the
   implementation with an oracle written from the property text and the specification (never from
   the model): round-trip equality, "transfer-id inside the window", "what recv returns is what
   was sent", "accept() only after valid credentials", … This is the counter-example finder, and
   it is what separates "the implementation violates the property" from "the model disagrees with
   the implementation".
5. **Verdict.**
   * everything passes → exit 0, after one `KNOWN-FINDING: property=Cxx <key>: <what fails>`
     line per entry of `known_findings.txt` that still reproduces;
   * the search finds a violation whose key is not listed → `VIOLATION property=Cxx
     replay=/verif/replays/Cxx-<hash>.json`, exit 1; the replay holds the concrete, shrunk input
     or scenario and re-runs with `./run.sh replay Cxx <file>`;
   * the translator, a proof, the audit or the correspondence breaks and the search finds nothing →
     `VIOLATION property=Cxx replay=<path> no-failing-input-found`, exit 1; the replay file names
     the theorem, generated definition or first differing line that no longer checks. A harmless
     rewrite of the code can land here (it happened twice during the build, §10).

Bounded exploration and differential testing appear only in steps 3–4 (validating the model,
finding a witness). That a property *holds* rests on step 2, for the model, and on the two ties
for the code. Where the truth lives partly in the runtime (task scheduling, timers, bounded
channels, real time-outs), the part that is logic is modelled and proved and the rest is measured
on the implementation; those properties are labelled *partial* below and say which runtime
behaviour the model cannot exhibit.

**When the unchanged code violated a property** (it did, often: §8) the order of work was: find
the failing input on the implementation, decide genuine-or-false-alarm, repair with a minimal
`fix:` commit when a maintainer would accept the patch, re-generate and re-prove, keep the
failing input as a corpus case that runs first; otherwise record the finding under a key that
names the specific input class, prove the counter-example of the model where the model can
express it (`oversize_cancel_cuts`, `zero_width_array_refused`, `old_order_two_tags`,
`unparked_recv_loses`), and keep reporting every *other* violation of the same property.

**Non-vacuity.** Every property theorem with hypotheses has an `example` in the same file showing
a concrete non-trivial input or history that satisfies them; the evidence files carry the
distribution of the generated cases (how many non-trivial, which branches, which error classes).

## 3. Layout of `/verif` and how to run it

```
DESIGN.md  MANIFEST.json  known_findings.txt  properties.jsonl  run.sh
lean/                        lake project: libs Amqp, Theorems, Driver; lean_exe driver
  Amqp/*.lean                hand-written executable models (import nothing but core Lean)
  Amqp/Gen/*.lean            GENERATED from /repo on every run (committed for the pinned tree)
  Theorems/Cxx.lean          property theorems;  Theorems/Lemmas/*.lean helper lemmas
  Driver/*.lean              line protocol: first word selects the model (S K W R F V M H Z Y C E L N P Q X T G D I U J B O A)
tools/check.py               the check (steps 1–5), evidence, replays, known findings
tools/props.py               registry: per property the theorems, harness modules, generated files, claim text
tools/gen_manifest.py        MANIFEST.json from the registry;  tools/gen_design.py  this file
tools/rs2lean/               the translator (Rust + syn 2, builds offline)
tools/baseline.sh            the repository's own 389-test baseline (guard off)
tools/run_all.sh             every claimed check, one line each
harness/                     Rust crate `vharness <module> --tier --seed --report [--replay f]`
  src/peer.rs                scripted AMQP peer over an in-memory stream, paused tokio clock
  src/<module>.rs            codec specenc typed frame framebody session sessionwire held credit lsender recvcredit reasm
                             chunks ioread ids settle connlife life limits failprop hostile cancel sasl pipeline txn delivery
                             (+ e2e, spinprobe, common)
  src/gen_typed.rs           GENERATED from /repo on every run: generators and field accessors of every composite
corpus/<id>/*.json           minimised past failures and fixed defects; run first, deterministically
seeded/<id>/                 seeded changes kept from the campaign (§9): patch.diff, demo, meta.json
replays/  evidence/          written by the checks (replays are not committed)
```

`./run.sh setup` builds the translator, the Lean project and the harness. `./run.sh Cxx quick`
takes 1–12 s when nothing changed and 30–60 s after a change to `/repo` (translator + Lean
rebuild + harness rebuild); `thorough` runs 10–20× more cases, more seeds of real-time probes
and `leanchecker`. `tools/run_all.sh quick <seed>` runs all twenty (about a minute). Everything
is offline; nothing a registered command needs lives outside `/verif` and `/repo`.

## 4. The Lean side

*Models* (`lean/Amqp`) are small total functions over `List`, `Nat`, `UInt8`, `Option` and plain
structures: `init` / `step : State → Event → State × Output` / `run` for the stateful cores, plain
functions for the codec. They import nothing but core Lean so that the driver links as a native
executable (3000 lines per 0.2 s). Where the code's decision is a number, a comparison or a
table, the model does not restate it: it calls the generated definition
(`Amqp.Gen.Session.on_incoming_flow_inner.assign_remote_incoming_window_0`,
`Amqp.Gen.Sasl.listener_on_code`, `Amqp.Gen.Fsm.Conn.on_incoming_open`, …). Where the code's
*statement order* matters (credit taken after the last await; transfer parked before room is
awaited; tag cleared before the loop; id looked up before the transaction is touched), the model
takes a Boolean computed from the generated positions as a parameter, and the theorems are proved
for the value the source has now — a reordering flips the Boolean and the proof of
`source_…` fails.

*Theorems* (`lean/Theorems/Cxx.lean`) state each property at full strength over all inputs /
histories, by induction with an invariant, by refinement to a simple spec, or by case analysis
over generated tables. Helper lemmas live in `Theorems/Lemmas`. 280+ registered theorems; the
largest developments are the codec round trip (1200 lines of lemmas), the specification
encodings (C05, 950 lines), session flow control (C07), settlement (C02) and the transaction
invariant (C18).

*The typed layer* (`Amqp/Typed.lean`, `Theorems/Typed.lean`, `Theorems/Lemmas/Typed.lean`; added in
the second session). The composites of `fe2o3-amqp-types` are not written by hand in Lean: the
translator emits their declarations (`Gen/Schemas.lean`), a hand-written table says what each declared
Rust type is on the wire (`tyOf`, `defaultOf` — a type the table does not know makes
`env_elaborates` fail), and a *typed value* is a tree of composites over untyped leaves (`TV`). The
model has the derive macro's encoder with its null-buffering field loop (`encTV` / `encFields` /
`serField`), the value tree (`toTree`, what `to_value` yields), the way back (`fromTree`, the typed
visitors: descriptor by code or name, missing and null fields as `None` / default, an empty
`multiple` array as `None`, a single symbol as a one-element array) and `decodeTyped` = value
decoding followed by `fromTree`. Proved for *every* environment of schemas satisfying `EnvOk` and
instantiated with the source's (`env_ok`, by `decide +kernel`): the encoder writes exactly the
encoding of the tree (`typed_encoding_is_tree_encoding`; the loop equals "drop the trailing nulls",
`serSlots_eq`), decode ∘ encode is the identity for every combination of present / absent / default
fields, nested (`typed_roundtrip`), every composite-level variant a peer may choose is read back
(`typed_tree_variants_read_back`, combined with the byte-level variants in
`typed_variants_accepted`), size = length, bytes = tree (`typed_size_eq_length`,
`typed_via_tree`), and the declarations equal the table of the standard written by hand in
`Theorems/Typed.lean` (`schemas_match_spec`). One lesson recorded for later sessions: a theorem that
mentions `decode bs` under a `match` makes the kernel try to evaluate the decoder's recursion budget
(hundreds of seconds, then "deep recursion"); `decodeTyped` therefore applies a helper
(`readTyped`) to `decode bs`, and `decide +kernel` is used for the closed obligations over the
environment (`decide` alone ran out of memory).

*Messages, `LazyValue`, the io reader* (third session). `Amqp/Message.lean` is the message codec:
sections in the order of the standard, three body kinds, batches; `message_roundtrip` and
`empty_body_is_written_as_null` are proved over the typed model. `Amqp/Lazy.lean` is the byte scanner
behind `LazyValue` (the category of every constructor is regenerated from `format.rs`); it is proved
to cut off exactly the encoding of one value and to leave what follows (`lazy_takes_exactly_the_value`,
`lazy_is_a_prefix`, `lazy_then_decode`). `Amqp/IoRead.lean` is the io reader: a peek buffer in front
of a stream, `fill_buffer` reading in chunks, the count of bytes consumed; `io_refines_slice` proves,
for every reader state and every length, that `peek`, `next`, `peek_bytes`, `read_exact` and the
forwarding reads return on the io reader what they return on the slice reader over the bytes not yet
handed out, fail exactly when it fails, and leave a reader that stands for the slice reader's new
state (`abs r = ⟨r.buf ++ r.src, r.consumed⟩`) — so whatever is proved about decoding from a slice
holds for decoding from a stream, for every chunking. `fill_some` / `fill_none` are the loop's
contract (nothing lost, nothing counted, fails iff fewer than `len` bytes are left).

*Routing, channels, the transfer performative's size* (third session). `Amqp/Routing.lean` is the
session's three tables (our handles: a slab; link names: `Some` relay while the peer's attach is
awaited; the peer's handles: a map to relays) with `allocate_link`, `deallocate_link`, the peer's
attach / detach and the lookup every other link frame goes through; an endpoint is a number that is
never reused, its output handle is. `routes_as_designated` is a refinement proof: for every history —
the peer picking handles as it likes, re-using them, our output handles re-used by new links while an
old link's entry still awaits the peer's detach — a frame is handed to the endpoint named by the last
attach accepted on its handle and refused as unattached when there is none; `one_handle_per_endpoint`
(by an invariant over the three tables) says two handles of the peer never lead to one endpoint.
`Theorems/C11T.lean` adds the channel side from the slab-and-bound model of C17 (`channels_unique`,
`channel_reused_only_after_end`), and `Amqp/ChanRouting.lean` is the connection's pair of tables (the
slab of our channels under the generated channel-max condition, the relay stored in each slot, the map
from the peer's channels) with the same refinement (`frames_reach_the_session_of_their_channel`) and
an invariant tying the relays to the live slots (`one_channel_per_session`: a begin answered with
`remote-channel = c` reaches the session that holds `c` now, not one that held it before). `Theorems/TransferFits.lean` removes two of the four hypotheses the
frame-cutting theorems of C06 made about the transfer performative's encodings: from the typed model,
for every field content, writing the performative with `more := true` never yields fewer bytes
(`flag_never_shortens`, for any Boolean field with default `false` of any composite: the interplay of
"a default value is written as null" and "trailing nulls are dropped"), hence `p0 ≤ p1` and `p3 ≤ p2`
(`transfer_fits`); that `more` is such a field, and the sixth, is a generated obligation
(`transfer_more`). `Amqp.RecvCredit.resume` and `resume_reports_the_new_count` cover a receiver that
detaches and resumes. `Amqp/PendingDetach.lean` is the search `detach` / `close` make for a detach the
peer has already sent, over the link's incoming queue: `pending_detach_found` proves that for every
queue it comes back within one turn per queued frame plus one (it cannot spin, also on a closed
queue) with the first detach if there is one; the two ways a seeded change broke it are theorems too
(`retrying_on_failure_spins`, and the example of a detach hidden behind an unread delivery).
`latest_flow_decides` (C08) says that of the link flows a listener buffered until the application
accepted the link the last one decides the credit; `refused_frame_leaves_nothing` (C10) that a
contradictory continuation frame leaves the delivery in progress exactly as it was.

*Chunks, frame bodies, batch disposal, symbol tables* (fourth session). `Amqp/Chunks.lean` is the reader
a multi-frame delivery is decoded from — `util::ByteReader` over the list of the frames' payloads, with the
conditions and the arithmetic of its `read` regenerated — and `std`'s `read_exact` over it;
`read_refines_concat` says that for every chunking (empty chunks anywhere) and every sequence of destination
sizes what is copied is the next bytes of the concatenation and the count returned is their number, and
`chunk_stream_is_the_concatenation` that `read_exact` over the chunks is `read_exact` over a stream holding
the concatenation — the stream `Amqp.IoRead` stands on; `chunks_are_one_stream` lifts that to every sequence
of `read_exact` calls (same bytes, a failure at the same call), and since the io reader touches its stream
through `read_exact` only (`source_stream_only_through_read_exact`, regenerated) `io_refines_slice` carries
over: decoding a delivery from its frames' payloads is decoding it from one buffer (this was an assumption
of C10 and C01 before). `Amqp/FrameBody.lean` is what `FrameDecoder::decode` makes of one frame after the length-delimited
layer: the header step (`Amqp.FrameHeader`), the empty body, the performative decoded by the typed model,
and what follows it kept as the payload of a transfer and of a transfer only (which arm splits off the
rest is a generated fact); `transfer_frame_decodes` / `transfer_frame_decodes_any_encoding` are
`typed_roundtrip` / `typed_variants_accepted` with the payload as the tail, so C06's byte-level theorems now
end in decoded performatives and payload pieces, for our encoding and for any a peer may choose.
`Amqp/Dispose.lean` is the receiver's batch disposal: `consecutive_chunk_indices` as `windows(2)` over the
sorted batch, the `prev_ind` walk of `dispose_all`, the disposition of each slice; `walk_is_runs` proves
that the index walk yields the maximal runs of neighbours that are consecutive and share their
rcv-settle-mode (`util::is_consecutive` regenerated), `batch_named_exactly` that the dispositions name
exactly the deliveries of the batch, `batch_modes_uniform` that each delivery is under a disposition whose
settled flag comes from its own mode. `Theorems/Enums.lean` works on tables that are entirely generated
(`Gen/Enums.lean`: every `match` of fe2o3-amqp-types that writes an enumeration as a symbol or reads one
back): `symbol_tables_inverse`, `error_conditions_match_spec`. Smaller additions: `takeAfterRoom` /
`no_send_on_revoked_credit` (C08: the credit is looked at again after room was awaited),
`peerEndQueued` / `peer_end_answered_with_frames_queued` (C13: the peer's end taken up while link frames are
queued is answered by `end_session`), and the source facts `source_zero_width_codes`,
`source_credit_taken_before_decoding`, `source_append_only_pushes`, `source_take_rechecks`,
`source_payload_of_transfer_only`, `source_dispose_shape`, `source_chunk_reader_shape`.

*Resumed, posted and rewound deliveries* (end of the fourth session; all three for C10, the second also for
C18). `Amqp.Reasm.stepR` adds the `resume` flag: the arm of `on_resuming_transfer` that makes a last frame a
delivery of its own (both tags known and different; the delivery in progress stays) and the arms that
complete the delivery in progress; `resume_flag_immaterial` shows by an invariant over the tags in sight that
on the frames of one delivery the flag changes nothing, `reasm_once_resumed` is `reasm_once` with the flag on
any frames. `Amqp/TxnRoute.lean` is the listener's transactional session in front of the links: per
transfer, withheld under which transaction or handed on, and the table `incomplete_posts` (link ↦ transaction
and delivery-tag of the post under way) as a function; `post_withheld_whole` (every frame of a post, other
links' frames in between, tag and state repeated or left out in any combination), `post_work_in_order` (the
transaction's work for that link is those frames in order), `abort_ends_the_post` and
`after_abort_next_is_plain`, and in `Theorems/C10.lean` the composition with reassembly
(`committed_post_is_the_post_as_written`). `Amqp/KeepTill.lean` is the rewind a `received` state on a
continuation transfer asks for: the position counting over windows of three octets and the loop over the
chunks; `keep_is_take` (for every chunking, exactly the octets before the point), `rewind_then_resend`. Each
of the three was written by asking what the reassembly model's frames leave out; the second and the third
turned up defects in the code (§8: 2716544, a1d507f, 298dd8c).

*Driver* (`lean/Driver`) parses one line, runs the model, prints one canonical line. Errors are a
small enum, maps are printed in wire order, byte strings in hex; nothing that came out of a hash
map or a clock is compared.

## 5. Tie 1 — the translator `tools/rs2lean`

Generated on every run (a `(changed)` file triggers a Lean rebuild):

| file | from | content |
|---|---|---|
| `Codes.lean` | `serde_amqp/src/format_code.rs`, `format.rs`, `ser.rs`, `de.rs` | format codes (enum discriminants and `TryFrom<u8>` arms, proved equal), offsets, width thresholds, `MAX_ARRAY_COUNT`, `MAX_NESTING_DEPTH` |
| `SessionKernels`, `CreditKernels`, `RecvCreditKernels`, `SettleKernels`, `LimitsKernels`, `FrameKernels`, `FrameHeaderKernels`, `LinkSplitKernels`, `CancelKernels`, `SessLifeKernels`, `TxnKernels`, `SaslKernels` | the named functions of `session/mod.rs`, `link/state.rs`, `link/receiver_link.rs`, `link/sender_link.rs`, `link/receiver.rs`, `frames/amqp.rs`, `frames/sasl.rs`, `connection/*.rs`, `transaction/*.rs`, `acceptor/sasl_acceptor.rs` | every assignment, `let`, `if` / `while` condition and selected call argument as a Lean definition over the places it reads (wrapping / saturating / checked arithmetic of the declared width, `Duration` in µs, byte-string equality); and the rank of the first (or `last:`) occurrence of named calls and token sequences in the body |
| `Fsm.lean` | `fe2o3-amqp-types/src/states.rs`, `connection/mod.rs`, `session/mod.rs`, `link/*.rs`, `connection/engine.rs`, `session/engine.rs` | the state enums; for each `match self.local_state` a total table state → next state / illegal (nested Boolean matches become parameters); which arm each state takes in the engines; `matches!` predicates |
| `Schemas.lean` (+ `harness/src/gen_typed.rs`) | every `struct` of `fe2o3-amqp-types/src` with `#[amqp_contract(..)]` and a `SerializeComposite` / `DeserializeComposite` derive | descriptor name and code (computed as the derive macro computes them), encoding, and the fields in declaration order with wire name, declared type, `default` / `multiple`; the same walk writes the harness' generator and field accessor of every list-encoded composite, so that the model's schema and the harness' view of a value follow the working tree together |
| `RoutingKernels`, `IoReadKernels`, `ListenerKernels`, `PendingDetachKernels` (third session; and further facts in `CreditKernels`, `RecvCreditKernels`, `ReasmKernels`) | `session/mod.rs`, `connection/mod.rs`, `serde_amqp/src/read/ioread.rs`, `acceptor/session.rs`, `link/shared_inner.rs`, `link/sender_link.rs`, `link/receiver_link.rs`, `link/receiver.rs` | presence and order of the statements the hand-written models mirror: which table is read / taken from / written when a frame is routed; what the io reader drains and when it counts (`drain` in both branches of `read_exact`, never `clear`; the forwarding read does not go through the counting `read_bytes`); the listener replays buffered flows with a `for` (no `pop`, no `rev`); the search for a pending detach skips other frames and ends on any failure of `try_recv`; one credit per delivery (`credit_available(1)`, `take_credit(1)`); the receiver's count is the attach's `initial-delivery-count` as it is; a batch disposal counts every delivery; a continuation frame is checked before its payload is kept. Each model states these as a Boolean (`sourceShape`, `replayOldestFirst`, `skipsOthers`, …) and a theorem `source_…` proves it `true` for the tree as it is — eleven of the forty round-3 changes (C05-c1, C08-c1, C08-c2, C09-c1, C09-c2, C10-c1, C11-c1, C13-c1, C14-c1, C15-c2, C20-c2) change the generated facts they were written for, so that the proof breaks before any run starts |
| `ChunksKernels`, `Enums.lean` (fourth session; and further facts in `SettleKernels`, `FrameHeaderKernels`, `CreditKernels`, `RecvCreditKernels`, `ReasmKernels`, `Codes`) | `fe2o3-amqp/src/util/mod.rs`, every file of `fe2o3-amqp-types/src`, `link/receiver_link.rs`, `frames/amqp.rs`, `link/sender_link.rs`, `link/state.rs`, `link/incomplete_transfer.rs`, `serde_amqp/src/de.rs` | the two conditions, the `split_to` argument and the three assignments of `ByteReader::read` with their order; every `match` that writes an enumeration as a symbol or reads one back (22 tables); `is_consecutive` as a whole, the shape of `consecutive_chunk_indices` / `dispose_all` / `dispose_consecutive`; which arm of the frame decoder keeps what follows the performative; the re-check of the credit after room was awaited; credit taken before the payload is decoded; `append` only pushes; the constructors charged against the budget of body-less array elements (the first arm of `take_zero_width_elements`, as a list). Two changes to the translator itself: a `let mut` local is a variable from then on, not its initial value (it used to be inlined, which made `encode_transfer`'s loop condition look like a function of the initial sizes; the frame model now carries `remaining_bytes` through the loop with the generated assignment), and every kernel the translator cannot translate is emitted as its source text (`…_src : String`), so that a model can pin it (`parksEveryLastTransfer`) |
| `SaslTables.lean`, `TxnTables.lean` | `fe2o3-amqp-types/src/sasl`, `acceptor/connection.rs`, `connection/builder.rs`, `sasl_profile/mod.rs`, `transaction/coordinator.rs`, `transaction/session.rs` | `SaslCode` with wire values; per outcome code and per frame kind what the listener's and the client's loops do; what the coordinator does with each value of `fail`; what commit / rollback do with an unknown id |

The translator is deliberately narrow: it understands literals, places, arithmetic, comparisons,
a fixed list of methods, `match` arms over enum variants and token order. Whatever falls outside
is reported, not guessed. It sees reorderings and changed constants, conditions, tables; it does
not see every possible rewrite — that is what the correspondence is for.

## 6. Tie 2 — the correspondence harness

One crate, one binary, one module per concern. Three kinds of run:

* **function level** — the public (or `verif`-facade) function and the model on the same
  generated inputs: codec values and byte strings, flow histories on a `SessionProbe`, credit
  histories, disposition histories, PLAIN responses, SCRAM exchanges, `split_transfer`;
* **engine level against a scripted peer** — a real `Connection` / `Session` / `Sender` /
  `Receiver` / `ConnectionAcceptor` over `tokio::io::duplex` with the clock paused, the peer
  (`peer.rs`) scripted frame by frame: lifecycles, failures, hostile frames, limits, cancel
  points, transactions, SASL; everything the endpoint writes is parsed by an independent frame
  parser and compared with the model's output for the same event sequence;
* **both ends real** — client ↔ listener with a tap on the byte stream (C01), also on a
  4-thread runtime with real time.

Generators are structured and mostly valid (type-directed values, protocol-shaped scenarios,
boundary-heavy numbers), with a separate malformed stream where the property is about hostile
input. Every random choice derives from one PRNG state; failing cases are shrunk (delta
debugging over the event list) and kept as corpus files; corpus cases run first. Findings carry a
*key* naming the failing input class; `known_findings.txt` is matched by key, so a different
violation of the same property is still reported.

Modules added in the second session, each written after a seeded change had slipped through (§9):
`typed` (every declared composite, generated accessors, the typed model), `held` (2..5 links on a
session whose peer keeps its window at 0..2 frames: sends, close / detach / drop, new attaches,
flows with drain / echo; wire oracle for C13 / C11 / C08 / C07 / C01 and the order of frames
compared with `Amqp.DetachHold`), `pipeline` (the listener across the SASL→AMQP switch under every
cut of a pipelining client; a recorded SCRAM exchange replayed on a second connection), and in the
existing modules: streams that report `Interrupted` at any read call, bodies beyond 64 KiB,
`LazyValue` on every entry point and 600000 levels of nesting decoded in a child process (a stack
overflow cannot be caught, the exit status is the verdict), `try_consume`, a stream whose shutdown
fails when the idle time-out fires, and a burst of flows against one-slot queues.

Added in the third round of seeded changes (§9, round 3): `ioread` (operation sequences on `IoReader`
and `SliceReader` against `Amqp.IoRead`), `lsender` (a sending link accepted by a `LinkAcceptor`: link
flows pipelined behind the peer's attach and buffered until the application accepts the link, then
further grants; the transfers on the wire against the latest flow and against `Amqp.Credit`), routing
histories in `ids` (attach / close by either side / transfer / a frame on a detached handle, the peer
re-using handles from a small pool; every step against `Amqp.Routing`; the same one level up: begin /
end by either side / delivery / a frame on an ended channel across three sessions, against
`Amqp.ChanRouting`), and in the existing modules:
`to_value` / `from_value` as the identity on every generated untyped value, valid variants read from
a stream and variants with bodies beyond 64 KiB (`specenc`), deliveries cut by the link with one credit
granted per delivery (`credit`), sender-settled deliveries and acknowledgement in batches in the
credit streams, a detach-and-resume whose second attach carries another delivery-count
(`recvcredit`), a refused intruder frame in the middle of a delivery after which the delivery goes on
(`reasm`), transactional posts of two links with alternating frames (`txn`, also run for C10), unread
deliveries queued ahead of the peer's detach (`life`), multi-frame deliveries to a mode-second
receiver and split pre-settled sends on a mixed link (`settle`); `limits` (begin / end histories with
holes) now also runs for C11.

Added in the fourth session and its round of seeded changes (§9, round 4): `chunks` (random chunk lists,
read / read_exact sequences, the byte iterator, values and messages decoded from every kind of cut of
their encoding, through a new cfg-guarded hook), `framebody` (FrameDecoder::decode on generated frames of
all nine kinds with payloads of every shape, performatives written as a peer may write them, frames cut
short and with damaged headers), and in the existing modules: dispositions of `dispose_all` calls compared
range by range with `Amqp.Dispose`, and a listener-side sending link whose acceptor supports fewer
receiver-settle-modes than the peer asks for (`settle`); sender delivery-counts at the wrap, recv futures
dropped after k polls, auto-accepting receivers, restated credit (`delivery`); a session window stated by
flows pipelined behind an attach (`lsender`, also for C07); undecodable deliveries (`recvcredit`); credit
taken back while a send waits for room (`credit`); values with several large arrays, all standard error
conditions (`codec`, `typed`); deliveries in up to 200 frames (`reasm`); legal-but-unusual flows as hostile
items (`hostile`); pre-settled deliveries, a full queue and a late first recv (`cancel`); a silent peer that
reads nothing behind a 32-octet stream (`limits`); `on_detach` before the link is let go, and the peer's end
taken up while link frames are queued (`life`); an auto-accepting receiver in half of the failure
injections (`failprop`); a rejected discharge followed by a second one (`txn`).

"""

TAIL = r"""
## 10. False alarms of the machinery that were corrected

Each of these was a check reporting a violation (or a broken correspondence) on code that was
right; the machinery was corrected, nothing was added to the known findings, no check was loosened.

* C07: an early oracle judged flows whose next-incoming-id is ahead of everything the session has
  sent (a peer acknowledging frames that were never sent); such flows are now outside what the
  search judges (stated as an assumption of C07). The same restriction at first also hid a real
  stall, which the wire-level run `sessionwire` then exposed (§8, 50784e7).
* C11: the oracle demanded delivery-id = transfer-id for every frame; only tagged frames carry one.
* e2e / C02: the scripted receiver batched dispositions while the client sent with `send().await`
  one at a time (a deadlock of the scenario, not of the code); sends are pipelined when batching.
* C13 / C14 scripted peers answered the client's *answering* End / Detach again, sent frames on
  sessions they had seen end, and let their own detach cross a held reply; the peer now tracks what
  it has ended and detached.
* C13: a receiver in settle mode first whose (scripted) sender settles spontaneously is not judged.
* C17: heartbeat periods are compared with the granularity of tokio's timer (1 ms).
* C16: identical message bodies made "which message is this" ambiguous; bodies carry their index.
* C12 (found by the acceptance run `vp check`): after the heartbeat fix 9f51616 a "heartbeat"
  event of the C12 scenarios spanned two periods and the model expected one empty frame. A heartbeat
  event is now one period, and runs of empty frames are compared as one (their count is C17's
  matter). Lesson: `tools/run_all.sh` after every change to `/repo`.
* C13 after 9ef99c0: the liveness probe of the scenarios (send one pre-settled message, close) now
  waits for the peer's window, so the scripted peer opens the windows of live sessions first.
* C07 / C13 after 9ef99c0: the rewritten drain loop no longer had the `while` condition the session
  model referred to (`no-failing-input-found`: a harmless rewrite); the loop now names its
  condition (`let window_open = …`) and the model uses that kernel.
* C18: the oracle treated a control link *detached without closing* as rolling its transactions
  back; the specification says so only for a closed link, and the implementation keeps them for a
  while. Such transactions are not referred to again in generated scenarios.
* C18: the scripted resource mapped link handles by arithmetic (wrong once handles are reused) and
  compared the wire exactly although a dropped undischarged transaction is rolled back once more.
* C19: PBKDF2 with an iteration count of 0 is treated as a primitive (recorded, not judged).
* C01: a frame may be as large as the *receiving* side announced, not the smaller of both.
* C05 / typed (second session): the typed variant runs re-encode a value's maps with the reference
  encoder, which may choose a zero-width element constructor for an array — the recorded exception of
  the untyped decoder. A refusal whose choices contain such a constructor is now filed under that
  known key instead of `typed-variant-not-accepted`.
* C13 / held (second session): the first comparison with `Amqp.DetachHold` sent the window-opening
  flow and let the client start its teardown in the same instant; the order of the two is a race of
  the scenario, not of the code. The peer now lets the flow take effect before the teardown starts.
* C08 / held: a drain request to a link the script had already told to leave (its detach still held
  back) is not owed an answer; only links the script had not yet left are judged.
* C03 / codec (second session): bodies of 64 KiB and more were first mixed into the random lengths;
  the model's lines grew to hundreds of kilobytes and the quick tier to minutes. They are now a
  small deterministic block judged on the implementation only.
* C20 / codec (third session): the new `from_value::<Value>(v) = v` check fired on the unchanged tree
  for every list, map and array and for symbols, timestamps, decimals and uuids. That one was not a
  false alarm: the replay on the implementation showed `from_value` refusing or changing those values
  (fix 2035748); only described values remain refused (recorded finding).
* C13 / life (third session, before it was committed): with unread deliveries queued ahead of the
  peer's detach, a `recv` hands out a delivery and cannot see the detach behind it; the rule "the
  peer's detach is answered by the application's next operation on the link" now skips the `recv`
  calls that consume the queued deliveries.
* C14 / life: read for C14, the lifecycle runs reported the stray second detach of the recorded C13
  finding — a violation of C13, not of C14. The C14 view keeps what C14 states (a call that never
  returns; the peer's error not reported) and leaves the rest to C13.
* C11 / ids: in the routing histories a close by the peer without an error makes the application's
  own `close()` return Ok, not an error; the observation "the endpoint saw the peer's detach" is now
  "its answering detach carries that endpoint's output handle".
* Seeded round 3, a lesson about the machinery rather than a check: two changes (C08-c1, C05-c1 on its
  first try) were first recorded as caught because the harness did not build / a new check was
  red on the unchanged tree — I was editing `/verif` while the queue that tries the changes was
  running in it. Both were re-tried on a quiet tree (C08-c1 turned out to be missed and got its own
  check); since then new checks are developed in copies outside `/verif` and copied in between runs.
* Fourth session, all found on the unchanged tree while the new scenarios were being written in a copy
  of `/verif` against a clean clone of `/repo`, none of them committed as a finding:
  `lsender` with a small pipelined session window first applied the credit oracle to transfers the link had
  handed over under an earlier flow and the session then held back (they arrive after later flows: in
  flight, not over the limit) — such cases are judged for the window only; the probe "nothing is there once
  all credit is used" of `delivery` first ran against receivers accepted by a listener, which start with
  Auto(200) (what they find may have been sent under that) — it is made for receivers built with manual
  credit only; `hostile`'s unusual flows first included drain requests, after which the scripted peer never
  granted credit again and the liveness probe's send waited — they are echo requests now; `life` with
  `on_detach` first expected the later `close()` to report the peer's error that `on_detach` had already
  handed to the application; `recvcredit` first forgot that the error of an undecodable delivery carries
  the DeliveryInfo the application disposes of it with (without it an Auto(1) link looked stalled).
* Fourth session, thorough tier (seed 11, after the round): `reasm` reported "other-link-disturbed" — with
  deliveries of up to 200 frames the interleaved second link was sent more deliveries than the 100 credits
  its receiver had granted (the harness' own limit; 1000 now); `life` reported "peer-detach-not-answered"
  for a sending link whose second pre-settled send the peer's session window of 1 still held back when the
  peer closed the link: the answering detach waits behind the held transfer (9ef99c0) and the scripted peer
  never re-opened the window — the rule now leaves out links with transfers held by a window that is not
  re-opened. (The case was generated because the new `lwatch` branch shifted the random choices; the rule
  had always had that gap.)
* Fourth session, round 5, found while the new failure `peer-end-then-close` was being written: right after the
  operations have been started (0 / 1 ms) the session's handles report the connection's stop instead of the
  end's error on the unchanged tree as well — whether the session engine gets to see the end before the
  connection has gone is the scheduler's choice, and an end without an error yields to the connection's reason
  by design. The oracle for that failure applies from 50 ms on (engines idle) and to ends that carry an error.
* Fourth session, a lesson about the machinery: `git add -A` right after a queue of seeded changes committed
  `Gen/Fsm.lean` as regenerated under the last change tried (harmless for the checks, which regenerate on
  every run, but wrong as a record); `tools/seeded_try.sh` now regenerates after it has undone a change.
* Fourth session, last hours, two alarms of new oracles caught on the unchanged tree before they were committed:
  the new op "aborted attempt" answered `-` where the oracle and the model line expect the place to be empty
  (`?`), which showed as a disagreement with the model on every case that contained one; and one of the five
  rewound-delivery scenarios rewound to a point within the last two octets received, which the code's position
  counting (windows of three octets) never finds: the delivery then holds an octet twice and no longer decodes,
  and the scenario's expectation — built from the same counting — was a message that cannot be decoded either.
  The op now answers `?`; the scenario rewinds to an octet the counting can name, and what it cannot name is
  recorded in §13 as observed, not judged.
* Fourth session, a lesson about the machinery: a `pkill` meant for a build of the working copy also killed
  the build of the queue that was trying seeded change C02-d2; the change was first recorded as caught
  ("harness-build") and not confirmed. It was re-confirmed in a clean clone and re-tried on a quiet tree (it
  was in fact missed, and got its own scenario). The working copy now has its own target directory and
  its own clone of `/repo`.

## 11. Trusted base

* Lean 4.33's kernel; the axioms `propext`, `Classical.choice`, `Quot.sound` (audited per theorem
  on every run; nothing else, no `native_decide`, no `bv_decide`, no axioms of our own, no `sorry`).
* `tools/rs2lean`: that the Lean definitions it prints mean what the Rust expressions mean
  (`Amqp/U32.lean` gives the semantics of wrapping / saturating / checked arithmetic), that
  "first arm covering a variant" is how Rust matches, and that the token ranks it prints are the
  statement order. It is ~2500 lines of Rust; its output is small, readable and committed.
* The hand-written models, to the extent the correspondence runs exercise them: every model is
  compared with the implementation line by line on every run, with the input distribution in the
  evidence; a part of a model that no run reaches is trusted as a reading of the code.
* The oracles of the search (written from the property texts, RFC 4616 / 5802 and the AMQP 1.0
  specification) and the specification side of C05 (`Amqp/CodecSpec.lean`).
* The harness itself: scripted peer, frame parser, tokio's paused clock and in-memory stream,
  the RustCrypto crates used by the harness' own SCRAM (the same primitives the library uses).
* Per property, §7 lists exactly which parts of the code are modelled rather than verified and
  which runtime behaviour only the runs cover.

## 12. Hooks and commits made to `/repo`

Hooks are behind `--cfg fe2o3_amqp_verif` (module `fe2o3_amqp::verif`: `SessionProbe`,
`sender_credit` with `try_consume`, `split_transfer`, `sender_unsettled_tags` / `receiver_unsettled_tags`, two
scheduling points, and since the fourth session `chunk_reader_reads` / `chunk_reader_read_exact` /
`chunk_byte_iterator` / `chunk_reader` over `util::ByteReader`, whose constructor is guarded too, and
`keep_buffer_till` over `IncompleteTransfer`, with a guarded constructor in `link/mod.rs`); they add code only, are listed in `MANIFEST.hooks`, and with the guard off the
389-test baseline passes (`tools/baseline.sh`, run after every commit to `/repo`). Every repair is
one unguarded commit whose message starts with `fix:` and touches only what the defect requires;
they are listed in §8 with the property whose check found them.

## 13. Limits

* No model contains the tokio runtime. Interleavings of the engine tasks, bounded-channel
  back-pressure, timers and real cancellation are exercised by the runs (paused clock, dropped
  futures after k polls, a 4-thread runtime for C01) and labelled as measured, not proved. Two of
  the defects found this way (the engine wait cycle 0f7cff3, the unsettled-entry race 4ebf411) are
  of exactly this kind: no theorem about the logic could have shown them.
* `Amqp.Chunks` models `read` and `read_exact` and proves the chunk reader observationally equal to a
  stream over the concatenation (`chunks_are_one_stream`); the io reader on top of a stream is `Amqp.IoRead`,
  the decoder on top of that is the slice decoder (`io_refines_slice`). The last step of the composition —
  "the decoder is a function of what its reader answers" — is not a Lean theorem (there is no model of the
  decoder over an abstract reader); it is what the `chunks` runs check on whole values and messages. `Amqp.FrameBody` reads performatives with the typed model, which is
  stricter than the implementation on damaged input (counted in the evidence, as for C03). The section
  counting of `IncompleteTransfer::append` (section-number / section-offset of the `received` state) is not
  modelled. `Amqp.Dispose` starts after the sort and the filter of `dispose_all` (the runs apply both).
* Two seeded changes of the fifth round lay beyond the reassembly model as it was: an aborted transfer in the
  middle of a transactional multi-frame post (the listener's `TxnSession` keeps the earlier frames and replays
  them at commit), and a delivery sent again with `resume = true` after a detach-and-resume whose last frame
  omits the delivery-tag. Both paths are modelled since: `Amqp.Reasm.stepR` (the arms of
  `on_resuming_transfer` regenerated as `source_resume_shape`; theorems `resume_flag_immaterial`,
  `reasm_once_resumed`, `resumed_other_delivery`) and `Amqp/TxnRoute.lean` (the decision of
  `TxnSession::on_incoming_transfer` per transfer and its table `incomplete_posts`, regenerated as
  `source_route_shape`; theorems `post_withheld_whole`, `withheld_in_order`, `abort_ends_the_post`,
  `after_abort_next_is_plain`, `other_links_untouched`). Writing the second model turned up two defects,
  both fixed: an abort frame that says `more` left its link marked as in the middle of a post (2716544, corpus
  C18/004), and — found when `post_withheld_whole` was about to be composed with `reasm_once`, whose
  continuation frames may repeat the delivery-tag while the routing model's could not — continuation
  transfers that repeat the tag and leave the state out went to the link on their own (a1d507f, corpus
  C18/005; the table now keeps the post's tag, and so does the model).
  A third defect of the fourth session came from the same habit of asking what the model leaves out: the
  reassembly model has no `state` on its frames, and a continuation transfer that carries `received` makes
  the receiver rewind the delivery (`keep_buffer_till_section_number_and_offset`). That loop cut every chunk
  after the one with the position at the same index instead of dropping it (fixed, 298dd8c). It is modelled
  now (`Amqp/KeepTill.lean`: `position`, `keepLoop`, its shape regenerated as `source_keep_shape`; theorems
  `keep_is_take`, `keep_length`, `rewind_then_resend`), compared with the code through the hook
  `keep_buffer_till` on random chunkings and rewind points, and exercised through a real Receiver (a delivery
  rewound and sent again from the point). Observed and NOT judged: the counting of
  `position_of_section_number_and_offset` looks at windows of three octets, so a point within the last two
  octets received is never found and such a rewind is ignored; which (section, offset) names which octet is
  the code's own convention (section numbers count headers seen, starting at 1 for the first), C10 does not
  say, and the model and the scenarios follow the code there.
  A fourth defect, C07 this time, from asking what the routing model's `withheld` leaves undone: a withheld
  transfer never reached `Session::on_incoming_transfer`, so the session's next-incoming-id, remote-outgoing-
  window and the count towards its next flow did not move until the commit replayed the frame (never after a
  rollback), and the flows of such a session stated a next-incoming-id that left the withheld transfers out
  (fixed, f811caf: accounting and delivery are two functions of the session now; the routing model carries
  the count, `every_transfer_counted`, and the `txn` runs — registered for C07 as well — judge every flow a
  listener with a small session window sends; corpus C18/006).
  And a fifth, recorded and NOT repaired (known finding, C09 `resource:link-credit-lost-by-rollback`): the
  deliveries of a transaction that is rolled back never reach the receiving link, so the link never counts
  them — its flows go on stating the old delivery-count, and a sender that respects the credit is left with
  none for good (link credit 4, four posts, rollback: delivery-count 0, link-credit 4 after four deliveries).
  The repair is not small: the link has to account for deliveries it is never handed (delivery-count, the
  count towards the automatic top-up, the session's record of unsettled ids), on rollback and when a controller
  disappears; that is a change to the link's accounting paths which C09's model covers and which there was
  no time left to redo and re-verify in this session. The `txn` runs (registered for C09 with ten fixed cases:
  commit as the control, rollback as the finding) print it as KNOWN-FINDING.
  Not modelled: what the resuming attach exchanges (the unsettled maps), and in `TxnRoute` whether the named
  transaction is live (that is `Amqp.Txn`, at the level of whole posts). Routing and reassembly are composed
  (`post_work_in_order`, `committed_post_is_the_post_as_written`: what the commit replays to a link is the
  frame sequence the peer wrote, so the reassembly theorems hold for posted deliveries); routing and `Amqp.Txn`
  are not yet one model.
* The typed layer models the 32 list-encoded composites, the unions built from them, and messages
  (`Amqp/Message.lean`: sections in the order of the standard, the three body kinds, batches of data
  and amqp-sequence sections; `message_roundtrip`). `Body::Empty` is not a body of the AMQP type
  system: it is written as an amqp-value holding null and comes back as that (proved,
  `empty_body_is_written_as_null`; counted in the evidence, not judged). In the model a data /
  amqp-sequence section continues the batch read so far even when another section lies in between
  (the implementation reads only consecutive ones): the two differ only on inputs that no conforming
  peer writes. `SaslMechanisms`, generic `AmqpValue<T>` / `AmqpSequence<T>` bodies of other types than
  `Value`, and the management / CBS / filter crates have no Lean model. `decodeTyped` is *defined* as value decoding followed by the tree-level
  reading; where the implementation's typed decoder is more lenient than that (it ignores a list's
  size field, reads a composite cut short as if its remaining fields were absent, leaves fields
  beyond the declared ones unread) the two are compared only where both accept, and the counts of
  "only the implementation accepts" / "only the model accepts" are in the evidence. The leaf types'
  own decoders (enumerations over symbols) are modelled as their wire type.
* The tables `tyOf` / `defaultOf` (what a declared Rust type is on the wire) are hand-written; the
  harness compares every default the model uses with `<T as Default>::default()` of the
  implementation on every run (`typed-schema`).
* Arrays whose elements are null, lists, maps, arrays or described values do not round-trip in
  the implementation (known findings C03 / C20); they are outside the well-formedness predicate
  of the codec theorems, stated as an explicit decidable hypothesis.
* The io reader model is hand-written; it is tied to `read/ioread.rs` and `read/slice.rs` by the
  `ioread` runs (operation sequences over sources of every length, short reads, every operation of the
  trait) and by the generated obligation `source_io_shape` (which buffer operation, where the count
  moves); `forward_read_str`'s UTF-8 check is outside the model (the runs compare it on the
  implementation alone). The same holds for `Routing`, `ChanRouting`, `PendingDetach`: hand-written
  control flow, generated facts about the statements mirrored, runs against the implementation.
* Cryptographic strength (C19) is a parameter, not a theorem.
* Tooling: Mathlib was not needed; `leanchecker` runs in the thorough tier only (1–2 min per
  module); Aeneas-style mechanical translation of whole functions is not available offline, hence
  the kernel / table / order extraction of §5 plus hand-written control flow.
"""


def wrap(s, width=98, indent=""):
    out, line = [], indent
    for w in s.split():
        if len(line) + len(w) + 1 > width and line.strip():
            out.append(line.rstrip())
            line = indent
        line += w + " "
    if line.strip():
        out.append(line.rstrip())
    return "\n".join(out)


def section7():
    out = ["## 7. Per property\n",
           "Generated from `tools/props.py` (the same text goes into `MANIFEST.json`). *Proved* = theorems about "
           "the model, for all inputs / histories; *Measured* = runs on the implementation, compared with the model "
           "and judged by the oracle; *Trusted / limits* = what is modelled rather than verified and what only the runs cover.\n"]
    for pid in sorted(PROPS):
        c = PROPS[pid]
        out.append(f"### {pid} — {c['title']}\n")
        out.append(wrap("**Technique.** " + c["technique"]) + "\n")
        out.append(wrap("**Claim.** " + c["level_text"]) + "\n")
        out.append(wrap("**Trusted / limits.** " + c["level_note"]) + "\n")
        out.append("**Theorems** (`lean/" + c["module"].replace(".", "/") + ".lean`): " + ", ".join("`" + t.split(".")[-1] + "`" for t in c["theorems"]) + ".  ")
        out.append("**Harness modules:** " + ", ".join("`" + h + "`" for h in c["harness"]) + ".  ")
        if c.get("gen_files"):
            out.append("**Generated files used:** " + ", ".join("`" + g.split("/")[-1] + "`" for g in c["gen_files"]) + ".")
        out.append("")
    return "\n".join(out)


def section8():
    fixed, known = [], []
    for line in open(os.path.join(VERIF, "known_findings.txt")):
        line = line.strip()
        m = re.match(r"fixed: property=(\S+) (\S+) (.*)", line)
        if m:
            fixed.append(m.groups())
        m = re.match(r"known: property=(\S+) key=(\S+) (.*)", line)
        if m:
            known.append(m.groups())
    out = ["## 8. Defects found\n",
           f"The checks found {len(set(f[1] for f in fixed))} genuine defects that were repaired in `/repo` (one `fix:` commit each, the "
           "unedited baseline passes with every one of them) and recorded the ones below that were not. Each was first "
           "reproduced on the real code with a concrete input, schedule or history (kept under `corpus/`), then repaired or recorded.\n",
           "### Repaired (`fix:` commits)\n", "| property | commit | what failed |", "|---|---|---|"]
    for p, c, w in fixed:
        out.append(f"| {p} | `{c}` | {w} |")
    out += ["", "### Recorded (known findings)\n",
            "Printed as `KNOWN-FINDING` on every run that reproduces them; any other violation of the same property is still a `VIOLATION`.\n",
            "| property | key | what fails, and why it was not repaired |", "|---|---|---|"]
    why_key = {
        "from-value:described-composite-refused": "the value deserializer (value/de.rs) has no described-type support at all: composites go through deserialize_struct -> deserialize_seq, which wants a list, and the unions (delivery states, performatives) peek at a descriptor the value deserializer cannot show; a repair is a new accessor type, not a small patch",
    }
    why = {
        "C03": "the array encoder writes compound / null elements without the shared constructor; a repair changes the wire format of the serializer in several places and is not small",
        "C20": "same root as C03",
        "C05": "pinned by the library's own tests, cannot change without editing the suite",
        "C13": "the re-attach-then-close path of `close_with_error` needs a redesign of how a detached link is re-attached",
        "C14": "`DeliveryFut` would have to learn the link's fate; touches the public error type",
        "C16": "needs either a queue in the link or the cut moved into the session; the common case is repaired (8e61c7a)",
        "C09": "the receiving link has to account for deliveries it is never handed (delivery-count, the count towards the automatic top-up, the session's record of unsettled ids), on rollback and when a controller disappears: a new path through the link's accounting, which C09's model covers and which would have to be re-verified; found in the last hour of the fourth session",
    }
    for p, k, w in known:
        out.append(f"| {p} | `{k}` | {w} — *{why_key.get(k, why.get(p, ''))}* |")
    out.append("")
    return "\n".join(out)


def section9():
    rows = []
    for meta in sorted(glob.glob(os.path.join(VERIF, "seeded", "*", "meta.json"))):
        try:
            j = json.load(open(meta))
        except Exception:
            continue
        rows.append(j)
    out = ["## 9. Seeded changes: which checks catch what\n"]
    if not rows:
        out.append("(The campaign's results are added here by `tools/gen_design.py` from `seeded/*/meta.json`.)\n")
        return "\n".join(out)
    out.append("Each change below was written by a fresh agent that was given only the property text and a scratch worktree of "
               "`/repo` (nothing from `/verif`), asked to break the property while the code still compiles and the existing tests "
               "pass, and to demonstrate the break. Each was confirmed, then applied to `/repo` (`git apply`), checked with the "
               "quick tier, and undone. `how` says which part of the check fired.\n")
    n5 = len([j for j in rows if re.search(r"-e\d$", j.get("id", ""))])
    m5 = len([j for j in rows if re.search(r"-e\d$", j.get("id", "")) and j.get("note")])
    n4 = len([j for j in rows if re.search(r"-d\d$", j.get("id", ""))])
    m4 = len([j for j in rows if re.search(r"-d\d$", j.get("id", "")) and j.get("note")])
    n3 = len([j for j in rows if re.search(r"-c\d$", j.get("id", ""))])
    m3 = len([j for j in rows if re.search(r"-c\d$", j.get("id", "")) and j.get("note")])
    out.append(f"Three rounds of two changes per property: ids `Cxx-1/2` (first session), `Cxx-b1/b2` (second), `Cxx-c1/c2` (third). From the "
               f"second round on the agents were shown one-line summaries of the earlier changes for their property and told to aim at other "
               f"functions, mechanisms and clauses of the statement; the third round ({n3} changes) was accordingly the hardest for the checks: "
               f"{m3} were missed when first tried (listener-side paths, resumption, streams instead of slices, two ends configured "
               f"differently, siblings instead of depth, a peer that keeps talking), every one of which led to a new scenario, a new model or a new theorem "
               f"listed below. A fourth round (`Cxx-d1/d2`, {n4} changes, fourth session) was run the same way: {m4} were missed when first tried "
               f"(the listener side once more, applications that drop futures or restate credit in the end-to-end runs, delivery-counts at the wrap, "
               f"peers that encode differently from us, legal-but-unusual frames, totals across several arrays, queues that are full at the wrong moment); "
               f"every one is caught now, and seven of them also by a proof obligation that did not exist before. A short fifth round (`Cxx-e1/e2`, {n5} changes "
               f"for six properties whose checks had been extended in the fourth session: C02, C06, C10, C12, C14, C17) followed at the end of that session: {m5} were missed when first tried and all 12 are caught now (C17-e1 by a proof obligation only: a failing input needs 65536 live sessions); the two for C10 led to the models of resumed and posted deliveries, which in turn led to the defects of §8 found in the last hours. Three earlier changes to `transaction/session.rs` (C10-c2, C18-b2, C18-d1) no longer applied after those repairs and were rebased (originals kept as `patch.orig.diff`); they are still caught.\n")
    out += ["| id | property | the change | caught by quick | how | caught by other checks |", "|---|---|---|---|---|---|"]
    for j in rows:
        summ = j.get('summary', '').replace('|', '/')
        if len(summ) > 260:
            summ = summ[:257].rsplit(' ', 1)[0] + ' …'
        out.append(f"| {j.get('id','')} | {j.get('property','')} | {summ} | {j.get('caught','')} | {j.get('how','')} | {', '.join(j.get('also_caught_by', []))} |")
    noted = [j for j in rows if j.get("note")]
    if noted:
        out.append("\nChanges the checks missed when they were first tried, and what was done about it (all are caught now; the table above is the state after strengthening):\n")
        for j in noted:
            out.append(f"* {j.get('id')}: {j.get('note','')}")
    missed = [j for j in rows if str(j.get("caught", "")).lower().startswith("no")]
    if missed:
        out.append("\nNot caught:\n")
        for j in missed:
            out.append(f"* {j.get('id')}: {j.get('summary','')}")
    out.append("")
    return "\n".join(out)


def main():
    text = HEAD + section7() + "\n" + section8() + "\n" + section9() + TAIL
    open(os.path.join(VERIF, "DESIGN.md"), "w").write(text)
    print(f"DESIGN.md: {len(text.splitlines())} lines")


if __name__ == "__main__":
    main()
