/-
  Reassembly of multi-frame deliveries (C10): model of
  `ReceiverInner::{on_incoming_transfer, on_incomplete_transfer, on_complete_transfer}`
  (link/receiver.rs) and `IncompleteTransfer::{new, or_assign, append}`
  (link/incomplete_transfer.rs).  Payloads are byte lists; the delivery handed
  to the application carries the merged fields and the concatenated payload
  (decoding of the payload is C03; decoding from a list of chunks equals
  decoding from their concatenation by construction of the chained reader).
-/
import Amqp.Gen.ReasmKernels

namespace Amqp.Reasm
open Amqp.Gen.ReasmK.on_incoming_transfer_order

abbrev Bytes := List UInt8

/-- the fields of a transfer frame that matter for reassembly -/
structure Frame where
  id : Option Nat            -- delivery-id
  tag : Option Bytes         -- delivery-tag
  fmt : Option Nat           -- message-format
  settled : Option Bool
  more : Bool
  aborted : Bool
  payload : Bytes
deriving Repr, DecidableEq

/-- `IncompleteTransfer` -/
structure Inc where
  id : Option Nat
  tag : Option Bytes
  fmt : Option Nat
  settled : Option Bool
  buf : List Bytes
deriving Repr, DecidableEq

inductive Out where
  | nothing
  | delivery (id : Nat) (tag : Bytes) (fmt : Option Nat) (settled : Bool) (payload : Bytes)
  | inconsistent            -- InconsistentFieldInMultiFrameDelivery
  | missingIdOrTag          -- DeliveryIdIsNone / DeliveryTagIsNone
deriving Repr, DecidableEq

/-- `or_assign!` for one optional field: `none` = contradiction -/
def orAssign {α : Type} [DecidableEq α] (mine other : Option α) : Option (Option α) :=
  match mine, other with
  | some a, some b => if a = b then some (some a) else none
  | some a, none => some (some a)
  | none, o => some o

/-- the `settled` rule of `or_assign` -/
def mergeSettled (mine other : Option Bool) : Option Bool :=
  match mine, other with
  | some v, some o => if !v then some o else some v
  | some v, none => some v
  | none, o => o

/-- source fact: `IncompleteTransfer::append` keeps a frame's payload by pushing it to the end of the list of
    payloads kept so far and touches that list in no other way (no folding, no reordering), which is what
    `buf ++ [payload]` says in the model -/
def appendOnlyPushes : Bool :=
  open Amqp.Gen.ReasmK.append_order in
  decide (idx_self___buffer___push___other__ < 1000) && decide (idx_drain = 1000) && decide (idx_insert = 1000) &&
  decide (idx_concat = 1000) && decide (idx_extend = 1000) && decide (idx_truncate = 1000) && decide (idx_swap = 1000) &&
  decide (idx_remove = 1000)

/-- source fact: a continuation frame's fields are checked against the delivery in progress (`or_assign`,
    whose `?` leaves on a contradiction) before its payload is appended -/
def checkedBeforeKept : Bool :=
  open Amqp.Gen.ReasmK.on_incomplete_transfer_order in
  decide (idx_incomplete___or_assign___transfer____ < idx_incomplete___append___payload__) &&
  decide (idx_incomplete___append___payload__ < 1000)

/-- `IncompleteTransfer::or_assign` + `append` -/
def merge (i : Inc) (f : Frame) : Option Inc := do
  let id ← orAssign i.id f.id
  let tag ← orAssign i.tag f.tag
  let fmt ← orAssign i.fmt f.fmt
  pure { id := id, tag := tag, fmt := fmt, settled := mergeSettled i.settled f.settled,
         buf := i.buf ++ [f.payload] }

def deliver (id : Option Nat) (tag : Option Bytes) (fmt : Option Nat) (settled : Option Bool)
    (payload : Bytes) : Out :=
  match id, tag with
  | some i, some t => .delivery i t fmt (settled.getD false) payload
  | _, _ => .missingIdOrTag

/-- source fact: the abort flag is looked at before the `more` flag and before the state of the frame,
    and the delivery under construction is dropped right there -/
def abortFirst : Bool :=
  decide (idx_if_transfer___aborted < idx_if_transfer___more) &&
  decide (idx_if_transfer___aborted < idx_transfer___state___clone____) &&
  decide (idx_self___incomplete_transfer___take____ < idx_if_transfer___more)

/-- `ReceiverInner::on_incoming_transfer` -/
def step (st : Option Inc) (f : Frame) : Option Inc × Out :=
  if abortFirst && f.aborted then (none, .nothing)
  else if f.more then
    match st with
    | some i => match merge i f with
      | some i' => (some i', .nothing)
      | none =>
        -- `?` leaves the incomplete transfer in place; had the payload been appended first it would stay in it
        (some (if checkedBeforeKept then i else { i with buf := i.buf ++ [f.payload] }), .inconsistent)
    | none => (some { id := f.id, tag := f.tag, fmt := f.fmt, settled := f.settled, buf := [f.payload] },
               .nothing)
  else if f.aborted then (none, .nothing)     -- reached only if the abort flag were looked at after `more`
  else
    match st with
    | some i => match merge i f with
      | some i' => (none, deliver i'.id i'.tag i'.fmt i'.settled i'.buf.flatten)
      | none => (none, .inconsistent)         -- the incomplete transfer was `take`n
    | none => (none, deliver f.id f.tag f.fmt f.settled f.payload)

/-- source facts about the `resume` flag: `on_incoming_transfer` looks at it after `aborted` and `more` (so only
    on a last frame), and `on_resuming_transfer` makes the frame a delivery of its own — leaving the delivery in
    progress untouched — only in the arm where both tags are known, under `remote != local`, and before the
    `else` / `_` arms, which complete the delivery in progress like any last frame -/
def resumeShape : Bool :=
  decide (idx_if_transfer___more < idx_else_if_transfer___resume) &&
  decide (idx_else_if_transfer___resume < idx_on_resuming_transfer) &&
  decide (idx_on_resuming_transfer < idx_on_complete_transfer) &&
  (open Amqp.Gen.ReasmK.on_resuming_transfer_order in
   decide (idx___Some___remote_____Some___Some___local__________ < idx_if_remote_____local) &&
   decide (idx_if_remote_____local < idx_count_number_of_sections_and_offset) &&
   decide (idx_count_number_of_sections_and_offset < idx_self___link___on_complete_transfer) &&
   decide (idx_self___link___on_complete_transfer < idx___else__) &&
   decide (idx___else__ < idx_self___on_complete_transfer) &&
   decide (idx_self___on_complete_transfer < idx______) &&
   decide (idx______ < 1000) &&
   decide (idx_remote_____local = 1000) && decide (idx_incomplete_transfer___take = 1000) &&
   decide (idx_incomplete_transfer___None = 1000))

/-- `on_incoming_transfer` for a frame that carries the `resume` flag (`on_resuming_transfer` for a last frame) -/
def stepR (st : Option Inc) (f : Frame) (resume : Bool) : Option Inc × Out :=
  if resumeShape && resume && !f.aborted && !f.more then
    match f.tag, st.map (·.tag) with
    | some remote, some (some loc) =>
      if remote ≠ loc then (st, deliver f.id f.tag f.fmt f.settled f.payload)   -- a delivery of its own
      else step st f
    | _, _ => step st f
  else step st f

def runR (st : Option Inc) : List (Frame × Bool) → Option Inc × List Out
  | [] => (st, [])
  | (f, r) :: fs =>
    let (s1, o) := stepR st f r
    let (s2, os) := runR s1 fs
    (s2, o :: os)

def run (st : Option Inc) : List Frame → Option Inc × List Out
  | [] => (st, [])
  | f :: fs =>
    let (s1, o) := step st f
    let (s2, os) := run s1 fs
    (s2, o :: os)

end Amqp.Reasm
