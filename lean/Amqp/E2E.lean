/-
  C01 — one link end to end: the sender's two cutting layers (`Amqp.LinkSplit`), a FIFO wire,
  and the receiver's reassembly (`Amqp.Reasm`).  The byte-level layers in between (frame
  encoder, transport fragmentation, frame decoder) are the subject of C06; the session's
  windows decide *when* a frame goes out, not what it carries (C07).
-/
import Amqp.LinkSplit
import Amqp.Reasm

namespace Amqp.E2E
open Amqp.LinkSplit Amqp.Frame

/-- a message as the sending application hands it over: delivery-tag, pre-settled?, encoded bytes -/
structure Msg where
  tag : Bytes
  settled : Bool
  payload : Bytes
deriving Repr, DecidableEq

/-- the transfer frame the receiver sees for a piece of delivery `id` -/
def toFrame (id : Nat) (msg : Msg) (p : Piece) : Amqp.Reasm.Frame :=
  { id := if p.hasTag then some id else none,
    tag := if p.hasTag then some msg.tag else none,
    fmt := if p.hasTag then some 0 else none,
    settled := if p.hasTag then some msg.settled else none,
    more := p.more, aborted := false, payload := p.payload }

/-- the frames of one delivery on the wire: `m` = the peer's max-message-size, `B` = frame body size -/
def wireOf (m B : Nat) (lens : Piece → SLens) (id : Nat) (msg : Msg) : List Amqp.Reasm.Frame :=
  (deliveryFrames m B lens msg.payload).map (toFrame id msg)

/-- all messages of a link, one after the other; the delivery-id of a message is the transfer-id
    of its first frame (C11) -/
def wireAll (m B : Nat) (lens : Piece → SLens) : Nat → List Msg → List Amqp.Reasm.Frame
  | _, [] => []
  | next, msg :: rest =>
    let fs := wireOf m B lens next msg
    fs ++ wireAll m B lens (next + fs.length) rest

/-- what `recv` hands to the receiving application, in order -/
def delivered (outs : List Amqp.Reasm.Out) : List (Bytes × Bytes) :=
  outs.filterMap (fun o => match o with
    | .delivery _ tag _ _ payload => some (tag, payload)
    | _ => none)

def errors (outs : List Amqp.Reasm.Out) : List Amqp.Reasm.Out :=
  outs.filter (fun o => match o with
    | .inconsistent => true
    | .missingIdOrTag => true
    | _ => false)

end Amqp.E2E
