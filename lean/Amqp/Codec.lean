/-
  The AMQP 1.0 wire codec for untyped values (C03, C04, C05, C20): model of
  `serde_amqp/src/ser.rs` (encoder), `size_ser.rs` (size), `de.rs` +
  `value/de.rs` + `primitives/array.rs` + `descriptor.rs` + `described.rs`
  (decoder of `Value`), `read/*` (consumption / allocation).

  Scalars are kept as their big-endian byte strings (`fixed k bs`), so the
  model needs no integer ↔ bytes conversions; the harness prints Rust values
  the same way.  Format codes, offsets and thresholds come from the source
  (`Amqp.Gen.Codes`).
-/
import Amqp.Gen.Codes

namespace Amqp.Codec
open Amqp.Gen.Codes

abbrev Bytes := List UInt8

inductive FixedKind where
  | ubyte | ushort | uint | ulong | byte | short | int | long
  | float | double | dec32 | dec64 | dec128 | char | timestamp | uuid
deriving Repr, DecidableEq

def FixedKind.width : FixedKind → Nat
  | .ubyte => 1 | .ushort => 2 | .uint => 4 | .ulong => 8
  | .byte => 1 | .short => 2 | .int => 4 | .long => 8
  | .float => 4 | .double => 8 | .dec32 => 4 | .dec64 => 8 | .dec128 => 16
  | .char => 4 | .timestamp => 8 | .uuid => 16

/-- full-width format code -/
def FixedKind.code : FixedKind → Nat
  | .ubyte => cUbyte | .ushort => cUshort | .uint => cUint | .ulong => cUlong
  | .byte => cByte | .short => cShort | .int => cInt | .long => cLong
  | .float => cFloat | .double => cDouble | .dec32 => cDecimal32 | .dec64 => cDecimal64
  | .dec128 => cDecimal128 | .char => cChar | .timestamp => cTimestamp | .uuid => cUuid

inductive VarKind where
  | binary | string | symbol
deriving Repr, DecidableEq

def VarKind.code8 : VarKind → Nat
  | .binary => cVbin8 | .string => cStr8 | .symbol => cSym8
def VarKind.code32 : VarKind → Nat
  | .binary => cVbin32 | .string => cStr32 | .symbol => cSym32

inductive Value where
  | null
  | bool (b : Bool)
  | fixed (k : FixedKind) (bs : Bytes)
  | var (k : VarKind) (bs : Bytes)
  | list (vs : List Value)
  /-- keys and values alternating, in wire order -/
  | map (kvs : List Value)
  | array (vs : List Value)
  | described (descriptor : Value) (value : Value)
deriving Repr

/-! ## bytes -/

def b8 (n : Nat) : UInt8 := UInt8.ofNat n

def be32 (n : Nat) : Bytes :=
  [b8 (n / 16777216 % 256), b8 (n / 65536 % 256), b8 (n / 256 % 256), b8 (n % 256)]

def fromBe : Bytes → Nat
  | [] => 0
  | b :: bs => b.toNat * 256 ^ bs.length + fromBe bs

/-- sign-extension byte of a one-byte two's-complement value -/
def ext (b : UInt8) : UInt8 := if b.toNat < 128 then 0 else 255

/-! ## UTF-8 validity (what `String::from_utf8` accepts) -/

def isCont (b : UInt8) : Bool := 128 ≤ b.toNat && b.toNat < 192

def validUtf8 : Bytes → Bool
  | [] => true
  | b0 :: rest =>
    if b0.toNat < 128 then validUtf8 rest
    else if 194 ≤ b0.toNat && b0.toNat < 224 then
      match rest with
      | b1 :: r => isCont b1 && validUtf8 r
      | _ => false
    else if 224 ≤ b0.toNat && b0.toNat < 240 then
      match rest with
      | b1 :: b2 :: r =>
        isCont b1 && isCont b2 &&
        (if b0.toNat = 224 then 160 ≤ b1.toNat else true) &&
        (if b0.toNat = 237 then b1.toNat < 160 else true) && validUtf8 r
      | _ => false
    else if 240 ≤ b0.toNat && b0.toNat < 245 then
      match rest with
      | b1 :: b2 :: b3 :: r =>
        isCont b1 && isCont b2 && isCont b3 &&
        (if b0.toNat = 240 then 144 ≤ b1.toNat else true) &&
        (if b0.toNat = 244 then b1.toNat < 144 else true) && validUtf8 r
      | _ => false
    else false

/-- `char::from_u32` accepts the scalar value held in four big-endian bytes -/
def validChar (bs : Bytes) : Bool :=
  let n := fromBe bs
  (n < 55296) || (57343 < n && n < 1114112)

/-! ## encoder -/

/-- `IsArrayElement` -/
inductive Ctx where
  | none | first | other
deriving Repr, DecidableEq

def Ctx.writesCode : Ctx → Bool
  | .other => false
  | _ => true

/-- the compact encodings chosen outside arrays (`uint0`, `smalluint`, `smallint`, …) -/
def smallForm : FixedKind → Bytes → Option Bytes
  | .uint, [a, b, c, d] =>
    if a = 0 ∧ b = 0 ∧ c = 0 then (if d = 0 then some [b8 cUint0] else some [b8 cSmallUint, d]) else none
  | .ulong, [a, b, c, d, e, f, g, h] =>
    if a = 0 ∧ b = 0 ∧ c = 0 ∧ d = 0 ∧ e = 0 ∧ f = 0 ∧ g = 0 then
      (if h = 0 then some [b8 cUlong0] else some [b8 cSmallUlong, h]) else none
  | .int, [a, b, c, d] =>
    if a = ext d ∧ b = ext d ∧ c = ext d then some [b8 cSmallInt, d] else none
  | .long, [a, b, c, d, e, f, g, h] =>
    if a = ext h ∧ b = ext h ∧ c = ext h ∧ d = ext h ∧ e = ext h ∧ f = ext h ∧ g = ext h then
      some [b8 cSmallLong, h] else none
  | _, _ => none

def encFixed (ctx : Ctx) (k : FixedKind) (bs : Bytes) : Bytes :=
  match ctx with
  | .none => match smallForm k bs with
    | some s => s
    | none => b8 k.code :: bs
  | .first => b8 k.code :: bs
  | .other => bs

def encBool (ctx : Ctx) (b : Bool) : Bytes :=
  match ctx with
  | .none => [b8 (if b then cBooleanTrue else cBooleanFalse)]
  | .first => [b8 cBoolean, if b then 1 else 0]
  | .other => [if b then 1 else 0]

/-- `serialize_str` / `serialize_bytes`; `none` = "too long" -/
def encVar (ctx : Ctx) (k : VarKind) (bs : Bytes) : Option Bytes :=
  match ctx with
  | .none =>
    if bs.length ≤ U8_MAX_MINUS_1 then some (b8 k.code8 :: b8 bs.length :: bs)
    else if bs.length ≤ U32_MAX_MINUS_4 then some (b8 k.code32 :: be32 bs.length ++ bs)
    else none
  | .first => some (b8 k.code32 :: be32 bs.length ++ bs)
  | .other => some (be32 bs.length ++ bs)

/-- `write_list` -/
def writeList (ctx : Ctx) (num : Nat) (buf : Bytes) : Option Bytes :=
  if buf.length = 0 then some [b8 cList0]
  else if buf.length ≤ U8_MAX_MINUS_1 then
    some ((if ctx.writesCode then [b8 cList8] else []) ++ [b8 (buf.length + OFFSET_LIST8), b8 num] ++ buf)
  else if buf.length ≤ U32_MAX_MINUS_4 then
    some ((if ctx.writesCode then [b8 cList32] else []) ++ be32 (buf.length + OFFSET_LIST32) ++ be32 num ++ buf)
  else none

/-- `write_map` -/
def writeMap (ctx : Ctx) (num : Nat) (buf : Bytes) : Option Bytes :=
  if buf.length ≤ U8_MAX_MINUS_1 then
    some ((if ctx.writesCode then [b8 cMap8] else []) ++ [b8 (buf.length + OFFSET_MAP8), b8 num] ++ buf)
  else if buf.length ≤ U32_MAX_MINUS_4 then
    some ((if ctx.writesCode then [b8 cMap32] else []) ++ be32 (buf.length + OFFSET_MAP32) ++ be32 num ++ buf)
  else none

/-- `write_array` (the size field counts the count field only: the element
    constructor is part of the buffer) -/
def writeArray (ctx : Ctx) (num : Nat) (buf : Bytes) : Option Bytes :=
  if buf.length ≤ U8_MAX_MINUS_1 then
    some ((if ctx.writesCode then [b8 cArray8] else []) ++ [b8 (buf.length + 1), b8 num] ++ buf)
  else if buf.length ≤ U32_MAX_MINUS_4 then
    some ((if ctx.writesCode then [b8 cArray32] else []) ++ be32 (buf.length + 4) ++ be32 num ++ buf)
  else none

mutual
  /-- `<Value as Serialize>::serialize` into `ser::Serializer` with `is_array_elem = ctx` -/
  def enc (ctx : Ctx) : Value → Option Bytes
    | .null => some [b8 cNull]
    | .bool b => some (encBool ctx b)
    | .fixed k bs => some (encFixed ctx k bs)
    | .var k bs => encVar ctx k bs
    | .list vs => do
      let buf ← encAll vs
      writeList ctx vs.length buf
    | .map kvs => do
      let buf ← encAll kvs
      writeMap ctx kvs.length buf
    | .array vs => do
      let buf ← encElems true vs
      writeArray ctx vs.length buf
    | .described d v => do
      let a ← enc ctx d
      let b ← enc ctx v
      some (b8 cDescribedType :: a ++ b)
  /-- elements of a list / entries of a map: each with a fresh serializer -/
  def encAll : List Value → Option Bytes
    | [] => some []
    | v :: vs => do
      let a ← enc .none v
      let b ← encAll vs
      some (a ++ b)
  /-- elements of an array: the first carries the constructor -/
  def encElems (isFirst : Bool) : List Value → Option Bytes
    | [] => some []
    | v :: vs => do
      let a ← enc (if isFirst then .first else .other) v
      let b ← encElems false vs
      some (a ++ b)
end

/-! ## serialized size (`size_ser.rs`) -/

def sizeFixed (ctx : Ctx) (k : FixedKind) (bs : Bytes) : Nat :=
  match ctx with
  | .none => match smallForm k bs with
    | some s => s.length
    | none => 1 + k.width
  | .first => 1 + k.width
  | .other => k.width

def sizeVar (ctx : Ctx) (len : Nat) : Option Nat :=
  match ctx with
  | .none =>
    if len ≤ U8_MAX_MINUS_1 then some (2 + len)
    else if len ≤ U32_MAX_MINUS_4 then some (5 + len) else none
  | .first => some (5 + len)
  | .other => some (4 + len)

def sizeList (ctx : Ctx) (len : Nat) : Option Nat :=
  if len = 0 then some 1
  else if len ≤ U8_MAX_MINUS_1 then some ((if ctx.writesCode then 1 else 0) + 2 + len)
  else if len ≤ U32_MAX_MINUS_4 then some ((if ctx.writesCode then 1 else 0) + 8 + len)
  else none

def sizeMapArr (ctx : Ctx) (len : Nat) : Option Nat :=
  if len ≤ U8_MAX_MINUS_1 then some ((if ctx.writesCode then 1 else 0) + 2 + len)
  else if len ≤ U32_MAX_MINUS_4 then some ((if ctx.writesCode then 1 else 0) + 8 + len)
  else none

mutual
  def size (ctx : Ctx) : Value → Option Nat
    | .null => some 1
    | .bool _ => some (match ctx with | .none => 1 | .first => 2 | .other => 1)
    | .fixed k bs => some (sizeFixed ctx k bs)
    | .var _ bs => sizeVar ctx bs.length
    | .list vs => do sizeList ctx (← sizeAll vs)
    | .map kvs => do sizeMapArr ctx (← sizeAll kvs)
    | .array vs => do sizeMapArr ctx (← sizeElems true vs)
    | .described d v => do some (1 + (← size ctx d) + (← size ctx v))
  def sizeAll : List Value → Option Nat
    | [] => some 0
    | v :: vs => do some ((← size .none v) + (← sizeAll vs))
  def sizeElems (isFirst : Bool) : List Value → Option Nat
    | [] => some 0
    | v :: vs => do some ((← size (if isFirst then .first else .other) v) + (← sizeElems false vs))
end

/-! ## decoder -/

inductive DErr where
  | eof | badCode | badValue | badLen | utf8 | depth | custom
  /-- the model's recursion budget ran out: an artefact of the model with no counterpart in the
      implementation; `Theorems.C04.fuel_never_runs_out` shows `decode` never returns it -/
  | fuel
deriving Repr, DecidableEq

/-- result of a decoding step: value, rest of the input, `elem_format_code` afterwards -/
abbrev Res (α : Type) := Except DErr α

def take? (n : Nat) (bs : Bytes) : Res (Bytes × Bytes) :=
  if bs.length < n then .error .eof else .ok (bs.take n, bs.drop n)

def next? : Bytes → Res (UInt8 × Bytes)
  | [] => .error .eof
  | b :: bs => .ok (b, bs)

def isCode (n : Nat) : Bool := discriminants.contains n

/-- the format code to dispatch on: the array's element code if set, else the next byte (consumed) -/
def codeOrRead (ec : Option Nat) (bs : Bytes) : Res (Nat × Bytes) :=
  match ec with
  | some c => .ok (c, bs)
  | none => match bs with
    | [] => .error .eof
    | b :: r => if isCode b.toNat then .ok (b.toNat, r) else .error .badCode

/-- the format code to dispatch on, without consuming -/
def codeOrPeek (ec : Option Nat) (bs : Bytes) : Res Nat :=
  match ec with
  | some c => .ok c
  | none => match bs with
    | [] => .error .eof
    | b :: _ => if isCode b.toNat then .ok b.toNat else .error .badCode

def kindOfCode (c : Nat) : Option FixedKind :=
  if c = cUbyte then some .ubyte else if c = cUshort then some .ushort
  else if c = cUint then some .uint else if c = cUlong then some .ulong
  else if c = cByte then some .byte else if c = cShort then some .short
  else if c = cInt then some .int else if c = cLong then some .long
  else if c = cFloat then some .float else if c = cDouble then some .double
  else if c = cDecimal32 then some .dec32 else if c = cDecimal64 then some .dec64
  else if c = cDecimal128 then some .dec128 else if c = cChar then some .char
  else if c = cTimestamp then some .timestamp else if c = cUuid then some .uuid
  else none

def varOfCode (c : Nat) : Option (VarKind × Bool) :=
  if c = cVbin8 then some (.binary, false) else if c = cVbin32 then some (.binary, true)
  else if c = cStr8 then some (.string, false) else if c = cStr32 then some (.string, true)
  else if c = cSym8 then some (.symbol, false) else if c = cSym32 then some (.symbol, true)
  else none

/-- scalars and variable-width values, after the code `c` has been determined (and consumed if it was read) -/
def decScalar (c : Nat) (bs : Bytes) : Option (Res (Value × Bytes)) :=
  if c = cNull then some (.ok (.null, bs))
  else if c = cBooleanTrue then some (.ok (.bool true, bs))
  else if c = cBooleanFalse then some (.ok (.bool false, bs))
  else if c = cBoolean then some (do
    let (b, r) ← next? bs
    if b = 0 then pure (.bool false, r) else if b = 1 then pure (.bool true, r) else .error .badValue)
  else if c = cUint0 then some (.ok (.fixed .uint [0, 0, 0, 0], bs))
  else if c = cUlong0 then some (.ok (.fixed .ulong [0, 0, 0, 0, 0, 0, 0, 0], bs))
  else if c = cSmallUint then some (do let (b, r) ← next? bs; pure (.fixed .uint [0, 0, 0, b], r))
  else if c = cSmallUlong then some (do let (b, r) ← next? bs; pure (.fixed .ulong [0, 0, 0, 0, 0, 0, 0, b], r))
  else if c = cSmallInt then some (do
    let (b, r) ← next? bs; pure (.fixed .int [ext b, ext b, ext b, b], r))
  else if c = cSmallLong then some (do
    let (b, r) ← next? bs
    pure (.fixed .long [ext b, ext b, ext b, ext b, ext b, ext b, ext b, b], r))
  else match kindOfCode c with
    | some k => some (do
      let (v, r) ← take? k.width bs
      if k = .char && !validChar v then .error .badValue else pure (.fixed k v, r))
    | none => match varOfCode c with
      | some (k, wide) => some (do
        let (len, r) ← (if wide then do let (l, r) ← take? 4 bs; pure (fromBe l, r)
                        else do let (b, r) ← next? bs; pure (b.toNat, r))
        let (v, r2) ← take? len r
        if k ≠ .binary && !validUtf8 v then .error .utf8 else pure (.var k v, r2))
      | none => none

mutual
  /-- structural equality of values (what the model uses for map keys) -/
  def Value.beq : Value → Value → Bool
    | .null, .null => true
    | .bool a, .bool b => a == b
    | .fixed k a, .fixed k' b => k == k' && a == b
    | .var k a, .var k' b => k == k' && a == b
    | .list a, .list b => Value.beqList a b
    | .map a, .map b => Value.beqList a b
    | .array a, .array b => Value.beqList a b
    | .described d v, .described d' v' => Value.beq d d' && Value.beq v v'
    | _, _ => false
  def Value.beqList : List Value → List Value → Bool
    | [], [] => true
    | a :: as, b :: bs => Value.beq a b && Value.beqList as bs
    | _, _ => false
end

/-- `IndexMap::insert`: a repeated key keeps its place and takes the new value -/
def mapInsert : List (Value × Value) → Value → Value → List (Value × Value)
  | [], k, v => [(k, v)]
  | (k', v') :: rest, k, v => if Value.beq k' k then (k', v) :: rest else (k', v') :: mapInsert rest k v

/-- the map visitor: insert entry after entry -/
def insertAll (acc : List (Value × Value)) : List Value → List (Value × Value)
  | k :: v :: rest => insertAll (mapInsert acc k v) rest
  | _ => acc

def flattenPairs : List (Value × Value) → List Value
  | [] => []
  | (k, v) :: r => k :: v :: flattenPairs r

/-- decoder state threaded through: rest of the input, `elem_format_code`,
    remaining budget of zero-width array elements -/
structure DSt where
  rest : Bytes
  ec : Option Nat
  zw : Nat

/-- element constructors without a body -/
def zeroWidth (c : Nat) : Bool :=
  c = cNull || c = cBooleanTrue || c = cBooleanFalse || c = cUint0 || c = cUlong0 || c = cList0

mutual
  /-- `Value::deserialize`.  `fuel` bounds the recursion of the model, `depth` is
      `remaining_depth` of the deserializer. -/
  def dec (fuel depth : Nat) (st : DSt) : Res (Value × DSt) :=
    match fuel with
    | 0 => .error .fuel
    | fuel + 1 =>
      let ec := st.ec
      let bs := st.rest
      do
      let c ← codeOrPeek ec bs
      if c = cDescribedType then
        -- `Described<Value>`: DescribedAccess::basic, then Descriptor, then Value
        if depth = 0 then .error .depth else
        match ec with
        | some _ =>
          -- array of described values: the identifier step consumes a byte that must be 0x00,
          -- then dispatches on the element code again, which is not a descriptor code
          (match bs with
           | [] => .error .eof
           | b :: _ => if b.toNat = cDescribedType then .error .custom else .error .badCode)
        | none =>
          match bs with
          | [] => .error .eof
          | _ :: r =>
            -- descriptor: symbol or ulong
            (match r with
             | [] => .error .eof
             | dc :: _ =>
               if dc.toNat = cSym8 ∨ dc.toNat = cSym32 ∨ dc.toNat = cUlong ∨ dc.toNat = cUlong0 ∨ dc.toNat = cSmallUlong then do
                 let (d, s1) ← dec fuel (depth - 1) { st with rest := r, ec := none }
                 -- second element of the DescribedAccess: `peek() == None` ends the sequence
                 if s1.rest.isEmpty then .error .custom else do
                 let (v, s2) ← dec fuel (depth - 1) s1
                 pure (.described d v, s2)
               else if isCode dc.toNat then .error .custom else .error .badCode)
      else if c = cList0 then do
        let (_, r) ← codeOrRead ec bs
        if depth = 0 then .error .depth else pure (.list [], { st with rest := r })
      else if c = cList8 ∨ c = cList32 then do
        let (_, r) ← codeOrRead ec bs
        let wide := decide (c = cList32)
        let (len, r1) ← (if wide then do let (l, r) ← take? 4 r; pure (fromBe l, r)
                         else do let (b, r) ← next? r; pure (b.toNat, r))
        let (count, r2) ← (if wide then do let (l, r) ← take? 4 r1; pure (fromBe l, r)
                           else do let (b, r) ← next? r1; pure (b.toNat, r))
        if wide && count > MAX_ARRAY_COUNT then .error .badValue else
        if len < (if wide then OFFSET_LIST32 else OFFSET_LIST8) then .error .badLen else
        if depth = 0 then .error .depth else do
        let (vs, s) ← decN fuel (depth - 1) count { st with rest := r2, ec := none }
        pure (.list vs, s)
      else if c = cMap8 ∨ c = cMap32 then do
        let (_, r) ← codeOrRead ec bs
        let wide := decide (c = cMap32)
        let (len, r1) ← (if wide then do let (l, r) ← take? 4 r; pure (fromBe l, r)
                         else do let (b, r) ← next? r; pure (b.toNat, r))
        let (count, r2) ← (if wide then do let (l, r) ← take? 4 r1; pure (fromBe l, r)
                           else do let (b, r) ← next? r1; pure (b.toNat, r))
        if wide && count > MAX_ARRAY_COUNT then .error .badValue else
        if len < (if wide then OFFSET_MAP32 else OFFSET_MAP8) then .error .badLen else
        if count % 2 ≠ 0 then .error .badLen else
        if depth = 0 then .error .depth else do
        -- the element code (if any) is *not* cleared by `deserialize_map`
        let (vs, s) ← decN fuel (depth - 1) count { st with rest := r2 }
        pure (.map (flattenPairs (insertAll [] vs)), s)
      else if c = cArray8 ∨ c = cArray32 then do
        let (_, r) ← codeOrRead ec bs
        let wide := decide (c = cArray32)
        let (len, r1) ← (if wide then do let (l, r) ← take? 4 r; pure (fromBe l, r)
                         else do let (b, r) ← next? r; pure (b.toNat, r))
        let (count, r2) ← (if wide then do let (l, r) ← take? 4 r1; pure (fromBe l, r)
                           else do let (b, r) ← next? r1; pure (b.toNat, r))
        if count > MAX_ARRAY_COUNT ∨ count > len then .error .badValue else
        if count = 0 then
          if depth = 0 then .error .depth else pure (.array [], { st with rest := r2, ec := none })
        else do
          let (cb, r3) ← next? r2
          if !isCode cb.toNat then .error .badCode else
          if zeroWidth cb.toNat && st.zw < count then .error .badValue else
          if len < (if wide then OFFSET_ARRAY32 else OFFSET_ARRAY8) then .error .badLen else
          if depth = 0 then .error .depth else do
          let size := len - (if wide then OFFSET_ARRAY32 else OFFSET_ARRAY8)
          let zw' := if zeroWidth cb.toNat then st.zw - count else st.zw
          let (vs, s) ← decArr fuel (depth - 1) count { rest := r3, ec := some cb.toNat, zw := zw' } r3.length size
          pure (.array vs, { s with ec := none })
      else do
        let (c', r) ← codeOrRead ec bs
        match decScalar c' r with
        | some res => do let (v, r') ← res; pure (v, { st with rest := r' })
        | none => .error .badCode
  /-- `count` consecutive values (list elements / map keys and values) -/
  def decN (fuel depth : Nat) (count : Nat) (st : DSt) : Res (List Value × DSt) :=
    match fuel with
    | 0 => .error .fuel
    | fuel + 1 =>
      match count with
      | 0 => pure ([], st)
      | n + 1 => do
        let (v, s) ← dec fuel depth st
        let (vs, s') ← decN fuel depth n s
        pure (v :: vs, s')
  /-- `ArrayAccess`: `count` elements sharing the element code; the bytes consumed since
      the first element must stay within `size` -/
  def decArr (fuel depth : Nat) (count : Nat) (st : DSt) (startLen size : Nat) : Res (List Value × DSt) :=
    match fuel with
    | 0 => .error .fuel
    | fuel + 1 =>
      match count with
      | 0 => pure ([], { st with ec := none })
      | n + 1 => do
        let (v, s) ← dec fuel depth st
        if startLen - s.rest.length > size then .error .badValue else do
        let (vs, s') ← decArr fuel depth n s startLen size
        pure (v :: vs, s')
end

/-- recursion budget of the model: enough for the encoding of any value of that length (C03) and for
    any input at all (C04: at most `MAX_NESTING_DEPTH` levels of at most `MAX_ARRAY_COUNT` entries) -/
def decodeFuel (n : Nat) : Nat :=
  (n + 1) * (MAX_ARRAY_COUNT + 2) + (MAX_NESTING_DEPTH + 1) * (MAX_ARRAY_COUNT + 3)

/-- `from_slice::<Value>` -/
def decode (bs : Bytes) : Res (Value × Bytes) := do
  let (v, s) ← dec (decodeFuel bs.length) MAX_NESTING_DEPTH
    { rest := bs, ec := none, zw := MAX_ARRAY_COUNT }
  pure (v, s.rest)

/-- `to_vec(&value)` -/
def encode (v : Value) : Option Bytes := enc .none v

end Amqp.Codec
