/-
  The search for a detach the peer has already sent (C13, C14, C15): model of
  `take_pending_remote_detach` (link/shared_inner.rs), which `detach_with_error` / `close_with_error`
  call before they write their own detach.  The link's incoming queue may hold deliveries the
  application has not read ahead of the peer's detach; `try_recv` hands out the head of the queue, or
  fails when the queue is empty — or closed, because the session is gone.
-/
import Amqp.Gen.PendingDetachKernels

namespace Amqp.PendingDetach

inductive Item where
  /-- the peer's detach: closing?, with an error? -/
  | detach (closed err : Bool)
  /-- anything else queued for the link (a transfer, a flow, an attach) -/
  | other
deriving Repr, DecidableEq

/-- source facts: a frame that is not a detach is skipped and the search goes on; ANY failure of
    `try_recv` (empty queue, closed queue) ends it -/
def skipsOthers : Bool :=
  open Amqp.Gen.PendingDetachK.pending_detach in
  decide (idx_try_recv____ < idx_Ok___LinkFrame_____Detach___detach_________return_Some___detach__) &&
  decide (idx_Ok___LinkFrame_____Detach___detach_________return_Some___detach__ < idx_Ok____frame_______continue) &&
  decide (idx_Ok____frame_______continue < 1000)

def anyFailureEnds : Bool :=
  open Amqp.Gen.PendingDetachK.pending_detach in decide (idx_Err___________return_None < 1000)

/-- one run of the function on a queue, given `fuel` turns of its loop; `none` = the loop is still
    turning when the fuel is spent.  With `skips = false` the function looks at the head only; with
    `ends = false` a failed `try_recv` makes it try again. -/
def take (skips ends : Bool) : Nat → List Item → Option (Option Item × List Item)
  | 0, _ => none
  | fuel + 1, [] => if ends then some (none, []) else take skips ends fuel []
  | fuel + 1, .detach c e :: rest => some (some (.detach c e), rest)
  | fuel + 1, .other :: rest => if skips then take skips ends fuel rest else some (none, rest)

/-- the function as the source has it now -/
def takeAsSource (queue : List Item) : Option (Option Item × List Item) :=
  take skipsOthers anyFailureEnds (queue.length + 1) queue

/-- the first detach in a queue -/
def firstDetach : List Item → Option Item
  | [] => none
  | .detach c e :: _ => some (.detach c e)
  | .other :: rest => firstDetach rest

end Amqp.PendingDetach
