/-
  `LazyValue` (C20, C04): the byte scanner of `serde_amqp/src/read/mod.rs`
  (`read_primitive_bytes_or_else`, `read_described_bytes`) that cuts the bytes of one value off the
  input without decoding it: by the constructor's category (`format.rs`, regenerated) a fixed number
  of bytes, or as many as the size field says; a described value is its descriptor and its value,
  neither of which may be described in turn.
-/
import Amqp.Codec

namespace Amqp.Lazy
open Amqp.Codec Amqp.Gen.Codes

/-- `Category::try_from`: (kind, width); `none` for the described constructor -/
def categoryOf (c : Nat) : Option (Nat × Nat) :=
  (categories.find? (fun t => t.1 == c)).map (fun t => t.2)

/-- `read_primitive_bytes_or_else(reader, |_| Err(InvalidFormatCode))` -/
def skim1 (bs : Bytes) : Res (Bytes × Bytes) :=
  match bs with
  | [] => .error .eof
  | c :: _ =>
    if !isCode c.toNat then .error .badCode else
    match categoryOf c.toNat with
    | none => .error .badCode
    | some (0, w) => take? (w + 1) bs
    | some (_, w) =>
      match take? (w + 1) bs with
      | .error e => .error e
      | .ok (hdr, _) => take? (1 + w + fromBe (hdr.drop 1)) bs

/-- `LazyValue::from_reader` / `from_slice::<LazyValue>`: the bytes of the first value, and the rest -/
def skim (bs : Bytes) : Res (Bytes × Bytes) :=
  match bs with
  | [] => .error .eof
  | c :: r =>
    if c.toNat = cDescribedType then
      match skim1 r with
      | .error e => .error e
      | .ok (d, r1) =>
        match skim1 r1 with
        | .error e => .error e
        | .ok (v, r2) => .ok (c :: d ++ v, r2)
    else skim1 (c :: r)

end Amqp.Lazy
