/-
  Failure propagation (C14): what the handles of a connection report after a failure, and the
  fate of the sends that wait for an outcome.

  `stopReason*` follow the two `match` expressions at the end of the connection's and the
  session's event loops (connection/engine.rs, session/engine.rs) and the wrapping of a
  connection's reason into a session's (`SessionStopReason::ConnectionStopped`).  The waiter
  model follows `Session::drop` / `UnsettledMessage::abandon_waiter` and the settling paths of
  `LinkRelay::on_incoming_disposition`.
-/
namespace Amqp.FailProp

inductive Cause where
  | transportDrop
  | peerClose (withError : Bool)
  | peerEnd (withError : Bool)
  | peerDetach (closed withError : Bool)
deriving Repr, DecidableEq

inductive Scope where
  | connection | session | link
deriving Repr, DecidableEq

/-- what an operation on a handle below the failed thing fails with -/
inductive ErrClass where
  | connClosed | connRemoteClosed | connRemoteClosedWithError
  | sessRemoteEnded | sessRemoteEndedWithError
  | linkRemoteDetached | linkRemoteClosed | linkRemoteDetachedWithError | linkRemoteClosedWithError
deriving Repr, DecidableEq

def Cause.scope : Cause → Scope
  | .transportDrop | .peerClose _ => .connection
  | .peerEnd _ => .session
  | .peerDetach _ _ => .link

def Cause.withError : Cause → Bool
  | .transportDrop => false
  | .peerClose e | .peerEnd e | .peerDetach _ e => e

/-- the error class a data-path operation of a link reports after the cause -/
def reported : Cause → ErrClass
  -- a transport failure is the connection's own affair: links only learn that it stopped
  | .transportDrop => .connClosed
  | .peerClose false => .connRemoteClosed
  | .peerClose true => .connRemoteClosedWithError
  | .peerEnd false => .sessRemoteEnded
  | .peerEnd true => .sessRemoteEndedWithError
  | .peerDetach false false => .linkRemoteDetached
  | .peerDetach true false => .linkRemoteClosed
  | .peerDetach false true => .linkRemoteDetachedWithError
  | .peerDetach true true => .linkRemoteClosedWithError

def ErrClass.scope : ErrClass → Scope
  | .connClosed | .connRemoteClosed | .connRemoteClosedWithError => .connection
  | .sessRemoteEnded | .sessRemoteEndedWithError => .session
  | _ => .link

def ErrClass.carriesCondition : ErrClass → Bool
  | .connRemoteClosedWithError | .sessRemoteEndedWithError | .linkRemoteDetachedWithError | .linkRemoteClosedWithError => true
  | _ => false

/-! ## sends that wait for an outcome -/

/-- an unsettled delivery of a sender: its tag and whether somebody still waits on its oneshot -/
structure Entry where
  tag : Nat
  waiting : Bool
deriving Repr, DecidableEq

inductive Ev where
  /-- an unsettled send: a new entry, somebody waits -/
  | send (tag : Nat)
  /-- a settling / terminal disposition for the tag: the entry goes, its waiter is answered -/
  | settle (tag : Nat)
  /-- the session endpoint is dropped (its engine stopped, for whatever reason) -/
  | sessionDropped
  /-- the sender processes a closing detach from the peer -/
  | peerClosedLink
deriving Repr, DecidableEq

inductive Wake where
  /-- the waiter of `tag` got its outcome -/
  | outcome (tag : Nat)
  /-- the waiter of `tag` was let go with an error -/
  | failed (tag : Nat)
deriving Repr, DecidableEq

def abandonAll (m : List Entry) : List Entry × List Wake :=
  (m.map (fun e => { e with waiting := false }), (m.filter (·.waiting)).map (fun e => Wake.failed e.tag))

def step (m : List Entry) : Ev → List Entry × List Wake
  | .send t => (m ++ [⟨t, true⟩], [])
  | .settle t => (m.filter (·.tag != t), (m.filter (fun e => e.tag == t && e.waiting)).map (fun e => Wake.outcome e.tag))
  | .sessionDropped => abandonAll m
  | .peerClosedLink => abandonAll m

def run (m : List Entry) : List Ev → List Entry × List Wake
  | [] => (m, [])
  | e :: es =>
    let (m1, w1) := step m e
    let (m2, w2) := run m1 es
    (m2, w1 ++ w2)

end Amqp.FailProp
