/-
  C18 — transactions on the listener (resource) side: the transaction manager of a
  `TxnSession` (`transaction/session.rs`, `manager.rs`) together with the coordinators of its
  control links (`coordinator.rs`), at the level of whole deliveries.

  Transaction ids are drawn from a counter: an id is never handed out twice.  (The code draws
  UUIDs and checks them against the live transactions only; a collision with a finished one is
  neglected.)
-/
import Amqp.Gen.TxnTables
import Amqp.Gen.TxnKernels

namespace Amqp.Txn
open Amqp.Gen.Txn Amqp.Gen.TxnK


/-- a delivery on a data link: the transaction it is posted under (if any), its link, a label -/
structure Post where
  txn : Option Nat
  link : Nat
  label : Nat
deriving DecidableEq, Repr

inductive Op where
  /-- a `declare` message on control link `c` -/
  | declare (c : Nat)
  /-- a transfer on a data link -/
  | post (p : Post)
  /-- a `discharge` message on control link `c` -/
  | discharge (c : Nat) (id : Nat) (fail : Option Bool)
  /-- control link `c` is closed or dropped -/
  | ctrlGone (c : Nat)
  /-- control link `c` is detached without being closed: it may be resumed, nothing is rolled back -/
  | ctrlDetached (c : Nat)
  /-- the session ends -/
  | sessionEnd
deriving DecidableEq, Repr

inductive Out where
  | declared (id : Nat)
  /-- outcome `accepted` of a discharge -/
  | accepted
  /-- outcome `rejected` with `amqp:transaction:unknown-id` -/
  | rejectedUnknown
  /-- the post is withheld (a provisional transactional disposition goes back) -/
  | buffered
  /-- the post is handed to its link -/
  | delivered
  /-- the session is ended with `amqp:transaction:unknown-id` -/
  | sessionError
  | none
deriving DecidableEq, Repr

structure St where
  /-- `txn_manager.txns`: live transactions with their buffered posts, oldest first -/
  live : List (Nat × List Post)
  /-- `TxnCoordinator.txn_ids`, per control link -/
  owner : List (Nat × Nat)
  /-- what has been handed to the links, in order -/
  delivered : List Post
  next : Nat
  dead : Bool
  /-- (ghost) ids whose discharge committed -/
  committed : List Nat
  /-- (ghost) ids rolled back or aborted -/
  dropped : List Nat
  /-- (ghost) every post so far -/
  posted : List Post
deriving Repr

def init : St := { live := [], owner := [], delivered := [], next := 0, dead := false, committed := [], dropped := [], posted := [] }

def liveKeys (s : St) : List Nat := s.live.map (·.1)

def lookup (s : St) (id : Nat) : Option (List Post) := (s.live.find? (·.1 == id)).map (·.2)

def eraseLive (s : St) (id : Nat) : List (Nat × List Post) := s.live.filter (·.1 != id)

/-- `ResourceTransaction::on_incoming_post`: appended to the transaction's frames -/
def buffer (live : List (Nat × List Post)) (id : Nat) (p : Post) : List (Nat × List Post) :=
  live.map (fun e => if e.1 == id then (e.1, e.2 ++ [p]) else e)

/-- the coordinator looks the id up among its own before it asks the session -/
def ownCheckFirst : Bool :=
  decide (on_discharge_order.idx_self___txn_ids___remove < on_discharge_order.idx_rollback_transaction ∧
          on_discharge_order.idx_self___txn_ids___remove < on_discharge_order.idx_commit_transaction ∧
          on_discharge_order.idx_TransactionError_____UnknownId < on_discharge_order.idx_rollback_transaction)

/-- a transactional transfer is looked up before it is buffered, and an unknown id is an error -/
def postLookupFirst : Bool :=
  decide (on_incoming_transfer_order.idx_get_mut < on_incoming_transfer_order.idx_on_incoming_post ∧
          on_incoming_transfer_order.idx_Error_____UnknownTxnId < on_incoming_transfer_order.idx_on_incoming_post)

/-- commit takes the transaction out of the map before it replays anything -/
def commitRemovesFirst : Bool :=
  decide (commit_order.idx_swap_remove < commit_order.idx_deliver_incoming_transfer ∧
          commit_order.idx_deliver_incoming_transfer < commit_order.idx_last_Accepted ∧
          -- the replay hands the frames to their links without counting them as arriving again
          commit_order.idx_on_incoming_transfer = 1000)

/-- a dropped coordinator aborts the transactions it declared -/
def dropAborts : Bool := decide (coordinator_drop_order.idx_drain < coordinator_drop_order.idx_AbortTransaction)

def step (s : St) (op : Op) : St × Out :=
  if s.dead then (s, .none) else
  match op with
  | .declare c =>
    ({ s with live := s.live ++ [(s.next, [])], owner := s.owner ++ [(c, s.next)], next := s.next + 1 }, .declared s.next)
  | .post p =>
    match p.txn with
    | none => ({ s with delivered := s.delivered ++ [p], posted := s.posted ++ [p] }, .delivered)
    | some id =>
      if postLookupFirst && (liveKeys s).contains id then
        ({ s with live := buffer s.live id p, posted := s.posted ++ [p] }, .buffered)
      else ({ s with dead := true }, .sessionError)
  | .discharge c id fail =>
    if ownCheckFirst && !(s.owner.contains (c, id)) then (s, .rejectedUnknown)
    else
      let owner' := s.owner.filter (· != (c, id))
      match discharge_action fail with
      | .commit =>
        match commit_lookup ((lookup s id).map (fun _ => ())), lookup s id with
        | .found, some posts =>
          ({ s with live := eraseLive s id, owner := owner', delivered := s.delivered ++ posts, committed := s.committed ++ [id] }, .accepted)
        | _, _ => ({ s with owner := owner' }, .rejectedUnknown)
      | .rollback =>
        match rollback_lookup ((lookup s id).map (fun _ => ())) with
        | .found => ({ s with live := eraseLive s id, owner := owner', dropped := s.dropped ++ [id] }, .accepted)
        | .unknownId => ({ s with owner := owner' }, .rejectedUnknown)
  | .ctrlGone c =>
    if dropAborts then
      let ids := (s.owner.filter (·.1 == c)).map (·.2)
      ({ s with live := s.live.filter (fun e => !ids.contains e.1), owner := s.owner.filter (·.1 != c),
                dropped := s.dropped ++ ids.filter (fun i => (liveKeys s).contains i) }, .none)
    else ({ s with owner := s.owner.filter (·.1 != c) }, .none)
  | .ctrlDetached _ => (s, .none)
  | .sessionEnd => ({ s with dead := true }, .none)

def run : St → List Op → St × List Out
  | s, [] => (s, [])
  | s, op :: ops =>
    let (s', o) := step s op
    let (s'', os) := run s' ops
    (s'', o :: os)

/-- what the receiving application on link `l` has been handed, in order -/
def deliveredOn (s : St) (l : Nat) : List Nat := (s.delivered.filter (·.link == l)).map (·.label)

end Amqp.Txn
