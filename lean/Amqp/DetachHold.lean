/-
  C13 / C01 — a detach and the transfers the peer's window holds back: model of
  `Session::on_outgoing_transfer`, `on_outgoing_detach` and
  `prepare_session_frames_from_buffered_transfers` (session/mod.rs) at the level of which frame
  leaves when.  The counters of the window are C07's; here the window is a number of places.
-/
import Amqp.Gen.SessLifeKernels

namespace Amqp.DetachHold
open Amqp.Gen.SessLife

/-- what a link hands to the session -/
inductive Item where
  | xfer (link : Nat) (uid : Nat)
  | detach (link : Nat)
deriving DecidableEq, Repr

def Item.link : Item → Nat
  | .xfer l _ => l
  | .detach l => l

structure St where
  /-- remote-incoming-window -/
  riw : Nat
  /-- `remote_incoming_window_exhausted_buffer` -/
  buf : List Item
deriving Repr

inductive Op where
  | hand (i : Item)
  /-- a flow from the peer sets the window -/
  | window (n : Nat)
deriving DecidableEq, Repr

/-- the source looks a detach up among *all* the held transfers (`iter().any`) for one of its link, and
    queues it if there is one; the link's handle is given back only where the detach is written -/
def detachWaits : Bool :=
  decide (on_outgoing_detach_order.idx_remote_incoming_window_exhausted_buffer___iter_______any <
            on_outgoing_detach_order.idx_transfer___handle_____detach___handle ∧
          on_outgoing_detach_inner_order.idx_deallocate_link < on_outgoing_detach_inner_order.idx_SessionFrameBody_____Detach ∧
          on_outgoing_detach_order.idx_transfer___handle_____detach___handle < on_outgoing_detach_order.idx_if_held ∧
          on_outgoing_detach_order.idx_if_held < on_outgoing_detach_order.idx_push_back ∧
          on_outgoing_detach_order.idx_push_back < on_outgoing_detach_order.idx_on_outgoing_detach_inner)

/-- the drain takes from the front, sends a transfer only into an open window, sends a held detach
    in any case, and puts back what cannot go -/
def drainInOrder : Bool :=
  decide (drain_order.idx_pop_front < drain_order.idx_if_window_open ∧
          drain_order.idx_if_window_open < drain_order.idx_HeldFrame_____Detach ∧
          drain_order.idx_HeldFrame_____Detach < drain_order.idx_push_front)

/-- `prepare_session_frames_from_buffered_transfers` -/
def drain (riw : Nat) : List Item → Nat × List Item × List Item
  | [] => (riw, [], [])
  | .xfer l u :: rest =>
    if 0 < riw then
      let (r, buf, out) := drain (riw - 1) rest
      (r, buf, .xfer l u :: out)
    else (riw, .xfer l u :: rest, [])
  | .detach l :: rest =>
    let (r, buf, out) := drain riw rest
    (r, buf, .detach l :: out)

def holdsXferOf (buf : List Item) (l : Nat) : Bool :=
  buf.any (fun i => match i with
    | .xfer l' _ => l' == l
    | .detach _ => false)

def step (s : St) : Op → St × List Item
  | .hand (.xfer l u) =>
    if s.riw = 0 then ({ s with buf := s.buf ++ [.xfer l u] }, [])
    else if s.buf.isEmpty then ({ s with riw := s.riw - 1 }, [.xfer l u])
    else
      let (r, buf, out) := drain s.riw s.buf
      if 0 < r then ({ riw := r - 1, buf := buf }, out ++ [.xfer l u])
      else ({ riw := r, buf := buf ++ [.xfer l u] }, out)
  | .hand (.detach l) =>
    if detachWaits && holdsXferOf s.buf l then ({ s with buf := s.buf ++ [.detach l] }, [])
    else (s, [.detach l])
  | .window n =>
    if 0 < n ∧ !s.buf.isEmpty then
      let (r, buf, out) := drain n s.buf
      ({ riw := r, buf := buf }, out)
    else ({ s with riw := n }, [])

def run : St → List Op → St × List Item
  | s, [] => (s, [])
  | s, op :: ops =>
    let (s1, o1) := step s op
    let (s2, o2) := run s1 ops
    (s2, o1 ++ o2)

/-- what the links handed over, in order -/
def handed : List Op → List Item
  | [] => []
  | .hand i :: ops => i :: handed ops
  | .window _ :: ops => handed ops

def ofLink (l : Nat) (is : List Item) : List Item := is.filter (fun i => i.link == l)

end Amqp.DetachHold
