/-
  Session lifecycle (C13): model of `SessionEngine` (session/engine.rs) — the end handshake —
  on top of the transition tables generated from `Session` (session/mod.rs) and the arms /
  arguments read off `end_session`.

  Events are taken up one at a time: the peer's end, other frames of the peer for this
  session (which the session can act on, or which fail), the application's end, frames of the
  session's own links.  Outputs: what the session writes on its channel.
-/
import Amqp.Gen.Fsm
import Amqp.Gen.SessLifeKernels

namespace Amqp.SessLife
open Amqp.Gen.Fsm Amqp.Gen.SessLife

inductive Event where
  | peerEnd (withError : Bool)
  /-- the peer's end, taken up while frames of the session's links are still queued for it -/
  | peerEndQueued (withError : Bool)
  /-- another frame of the peer on this session; `ok = false`: acting on it fails (unattached
      handle, transfer to a sender, …) -/
  | peerFrame (ok : Bool)
  /-- `SessionHandle::end` / `end_with_error` -/
  | ctlEnd (withError : Bool)
  /-- a frame from one of the session's links -/
  | linkOut
deriving Repr, DecidableEq

inductive Out where
  | end_ (withError : Bool)
  | frame
deriving Repr, DecidableEq

inductive Res where
  | ok | remoteEnded | remoteEndedWithError | illegalState | failed
deriving Repr, DecidableEq

inductive Phase where
  | running
  | waitEnd (discard : Bool) (thenIncomingEnd : Bool)
  | stopped
deriving Repr, DecidableEq

structure St where
  ss : SState
  phase : Phase
  res : Option Res
  /-- the link-frame channel has been closed and drained -/
  linksClosed : Bool
deriving Repr, DecidableEq

inductive Err where
  | remoteEnded | remoteEndedWithError | illegalState | failed
deriving Repr, DecidableEq

def Err.res : Err → Res
  | .remoteEnded => .remoteEnded | .remoteEndedWithError => .remoteEndedWithError
  | .illegalState => .illegalState | .failed => .failed

def overwrite (s : St) (e : Err) : St := { s with res := some e.res }

/-- `end_session(error)`; `withError = error.is_some()` -/
def endSession (s : St) (withError : Bool) : St × List Out × Option Err :=
  match Sess.end_session_arm s.ss with
  | 0 => ({ s with phase := .stopped }, [], none)
  | 1 =>
    match Sess.send_end s.ss withError with
    | some c =>
      ({ s with ss := c, phase := .waitEnd (end_session.arg_wait_for_remote_end_0 (if withError then some 0 else none)) true },
       [.end_ withError], none)
    | none => (s, [], some .illegalState)
  | 2 => ({ s with phase := .waitEnd end_session.arg_wait_for_remote_end_1 false }, [], none)
  | 3 =>
    match Sess.send_end s.ss withError with
    | some c => ({ s with ss := c, phase := .stopped }, [.end_ withError], none)
    | none => (s, [], some .illegalState)
  | _ => ({ s with phase := .waitEnd end_session.arg_wait_for_remote_end_2 false }, [], none)

/-- `on_error`: every failure ends the session with an error, a remote end without one -/
def onError (s : St) (e : Err) : St × List Out :=
  let we := match e with | .remoteEnded | .remoteEndedWithError => false | _ => true
  let (s1, os, err) := endSession s we
  match err with
  | none => (overwrite s1 e, os)
  | some e2 => ({ overwrite s1 e2 with phase := .stopped }, os)

/-- `on_incoming(End)` -/
def onIncomingEnd (s : St) (we : Bool) : St × List Out × Option Err :=
  match Sess.on_incoming_end s.ss with
  | none => (s, [], some .illegalState)
  | some c =>
    if c = .endReceived then
      -- the links' frames are flushed, the end is answered
      match Sess.send_end c false with
      | some c2 => ({ s with ss := c2, linksClosed := true }, [.end_ false], some (if we then .remoteEndedWithError else .remoteEnded))
      | none => ({ s with ss := c, linksClosed := true }, [], some .illegalState)
    else ({ s with ss := c }, [], if we then some .remoteEndedWithError else none)

/-- `on_incoming(End)` with link frames still queued: the state has left MAPPED when the queue is drained, the
    first queued frame is refused (`on_outgoing_link_frames`) and the arm leaves before it has answered -/
def onIncomingEndQueued (s : St) (we : Bool) : St × List Out × Option Err :=
  match Sess.on_incoming_end s.ss with
  | none => (s, [], some .illegalState)
  | some c =>
    if c = .endReceived then
      if Sess.on_outgoing_link_frames_arm c = 0 then onIncomingEnd s we
      else ({ s with ss := c, linksClosed := true }, [], some .illegalState)
    else ({ s with ss := c }, [], if we then some .remoteEndedWithError else none)

def settle (s : St) : St := if s.ss = .unmapped then { s with phase := .stopped } else s

def stepRunning (s : St) : Event → St × List Out
  | .peerEnd we =>
    let (s1, os, err) := onIncomingEnd s we
    match err with
    | none => (settle s1, os)
    | some e => let (s2, os2) := onError s1 e; (s2, os ++ os2)
  | .peerEndQueued we =>
    let (s1, os, err) := onIncomingEndQueued s we
    match err with
    | none => (settle s1, os)
    | some e => let (s2, os2) := onError s1 e; (s2, os ++ os2)
  | .peerFrame ok =>
    if ok then (s, []) else let (s2, os2) := onError s .failed; (s2, os2)
  | .ctlEnd we =>
    match Sess.send_end s.ss we with
    | some c => (settle { s with ss := c, linksClosed := true }, [.end_ we])
    | none => let (s2, os2) := onError { s with linksClosed := true } .illegalState; (s2, os2)
  | .linkOut =>
    if s.linksClosed then (s, [])
    else if Sess.on_outgoing_link_frames_arm s.ss = 0 then (s, [.frame])
    else let (s2, os2) := onError s .illegalState; (s2, os2)

def stepWait (s : St) (discard thenEnd : Bool) : Event → St × List Out
  | .peerEnd we | .peerEndQueued we =>
    if thenEnd then
      match Sess.on_incoming_end s.ss with
      | some c => if we then ({ overwrite s .remoteEndedWithError with ss := c, phase := .stopped }, [])
                  else ({ s with ss := c, phase := .stopped }, [])
      | none => ({ overwrite s .illegalState with phase := .stopped }, [])
    else ({ s with phase := .stopped }, [])
  | .peerFrame ok =>
    if discard || ok then (s, [])
    else ({ overwrite s .failed with phase := .stopped }, [])     -- stops without having seen the peer's end
  | _ => (s, [])

def step (s : St) (e : Event) : St × List Out :=
  match s.phase with
  | .running => stepRunning s e
  | .waitEnd d t => stepWait s d t e
  | .stopped => (s, [])

def run (s : St) : List Event → St × List Out
  | [] => (s, [])
  | e :: es =>
    let (s1, o1) := step s e
    let (s2, o2) := run s1 es
    (s2, o1 ++ o2)

/-- a session whose begin has been answered -/
def mapped0 : St := { ss := .mapped, phase := .running, res := none, linksClosed := false }

end Amqp.SessLife
