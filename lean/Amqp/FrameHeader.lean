/-
  Frame header decoding (C15): model of the first lines of `FrameDecoder::decode`
  (frames/amqp.rs) and `FrameCodec::decode` (frames/sasl.rs).  `Buf::get_u8 / get_u16` panic
  when the buffer is too short; the model makes the read partial (`none` = panic) so that the
  guard's effect can be stated.
-/
import Amqp.Gen.FrameHeaderKernels

namespace Amqp.FrameHeader
open Amqp.Gen.FrameHeader

abbrev Bytes := List Nat

inductive Res where
  /-- doff, type, channel, body -/
  | header (channel : Nat) (body : Bytes)
  | tooShort
  | notImplemented
  /-- `Buf::get_*` on too few bytes -/
  | panic
deriving Repr, DecidableEq

/-- `get_u8, get_u8, get_u16`: panics unless four bytes are there -/
def readHeader (src : Bytes) : Option (Nat × Nat × Nat × Bytes) :=
  match src with
  | d :: t :: c1 :: c0 :: rest => some (d, t, c1 * 256 + c0, rest)
  | _ => none

/-- is the length guard evaluated before the first read? (read off the source) -/
def guardFirst (lenIdx getIdx : Nat) : Bool := decide (lenIdx < getIdx)

def decodeAmqp (src : Bytes) : Res :=
  if guardFirst amqp_decode_order.idx_src___len_______4 amqp_decode_order.idx_get_u8 && amqp_decode.cond_if_0 src.length then .tooShort
  else
    match readHeader src with
    | none => .panic
    | some (doff, ftype, ch, body) =>
      if amqp_decode.cond_if_1 ftype then .notImplemented
      else if doff != 2 then .notImplemented
      else .header ch body

def decodeSasl (src : Bytes) : Res :=
  if guardFirst sasl_decode_order.idx_src___len_______4 sasl_decode_order.idx_get_u8 && sasl_decode.cond_if_0 src.length then .tooShort
  else
    match readHeader src with
    | none => .panic
    | some (doff, ftype, ch, body) =>
      if sasl_decode.cond_if_1 ftype then .notImplemented
      else if sasl_decode.cond_if_2 doff then .notImplemented
      else .header ch body

end Amqp.FrameHeader
