/-
  C16 — what a dropped `send` or `recv` future leaves behind.

  An `async fn` that is dropped keeps what it wrote into `self` (and into the shared link
  state) and loses what it held in its own frame.  The two models below follow
  `SenderLink::send_payload` and `ReceiverInner::recv_inner` step by step at that
  granularity: a *poll* runs the future up to its next pending await, a *cancel* drops it.

  Where the awaits stand relative to the state changes is read off the source by the
  translator (`Amqp.Gen.Cancel`); the models take those positions as parameters, so a
  reordering in the source changes the model and, where it matters, breaks the theorems.
-/
import Amqp.Gen.CancelKernels

namespace Amqp.Cancel
open Amqp.Gen.Cancel

/-! ## facts read off the source -/

/-- `credit_and_room_or_detached`: the credit and the room are waited for, and the credit is
    taken after the last await of the function -/
def creditTakenLast : Bool :=
  decide (room_order.idx_credit_available < room_order.idx_take_credit ∧
          room_order.idx_reserve_many < room_order.idx_take_credit ∧
          room_order.idx_last___await < room_order.idx_take_credit)

/-- `send_payload_with_transfer`: the arm that was handed permits queues the transfers and ends
    before the first await of the function; the unsettled entry is made before anything is queued
    (so that the peer's disposition always finds it) -/
def reservedArmAwaitFree : Bool :=
  decide (queue_order.idx_Some___permits______ < queue_order.idx_permit___send ∧
          queue_order.idx_permit___send < queue_order.idx_None____ ∧
          queue_order.idx_None____ < queue_order.idx___await ∧
          queue_order.idx_unsettled___write < queue_order.idx_Some___permits______)

/-- `send_payload` goes through `credit_and_room_or_detached` first -/
def roomPathFirst : Bool :=
  decide (send_payload_order.idx_credit_and_room_or_detached < send_payload_order.idx_get_delivery_tag_or_detached ∧
          send_payload_order.idx_get_delivery_tag_or_detached < send_payload_order.idx_send_payload_with_transfer)

/-- a delivery that fits the queue is sent without an await between the credit and the last transfer -/
def atomicPath : Bool := creditTakenLast && reservedArmAwaitFree && roomPathFirst

/-- `recv_inner`: the transfer taken from `incoming` is put into `self.parked_transfer` before
    room is awaited, and handled after -/
def parkedBeforeRoom : Bool :=
  decide (recv_order.idx_self___parked_transfer___take____ < recv_order.idx_self___incoming___recv____ ∧
          recv_order.idx_self___incoming___recv____ < recv_order.idx_self___parked_transfer___Some___frame__ ∧
          recv_order.idx_self___parked_transfer___Some___frame__ < recv_order.idx_reserve_many ∧
          recv_order.idx_reserve_many < recv_order.idx_on_incoming_transfer)

/-- `accept_automatically`: with room reserved nothing is awaited (the only await of the function
    stands before the disposition is made) -/
def acceptAwaitFree : Bool :=
  decide (accept_order.idx_last___await < accept_order.idx_disposition ∧
          accept_order.idx_disposition < accept_order.idx_permit___send ∧
          accept_order.idx_permit___send < accept_order.idx_fetch_add)

/-- `update_credit_if_auto`: the counter is reset after the flow is queued -/
def topupResetLast : Bool :=
  decide (topup_order.idx_send_flow < topup_order.idx_store ∧ topup_order.idx_last___await < topup_order.idx_store)

/-- which transfers are parked: the last transfer of EVERY delivery that is not aborted, settled by the
    sender or not (the condition is outside the translatable subset, so its text is what is pinned) -/
def parksEveryLastTransfer : Bool :=
  recv_inner.cond_if_1_src ==
    "self . auto_accept && matches ! (& frame , LinkFrame :: Transfer { performative , .. } if ! performative . more && ! performative . aborted)"

def recvParks : Bool := parkedBeforeRoom && acceptAwaitFree && parksEveryLastTransfer

/-! ## frames -/

/-- transfer `i` of the `t` transfers of message `k` -/
structure Fr where
  k : Nat
  i : Nat
  t : Nat
deriving DecidableEq, Repr

def Fr.last (f : Fr) : Bool := f.i + 1 == f.t

/-- the transfers of message `k`, cut into `t` -/
def frames (k t : Nat) : List Fr := (List.range t).map (fun i => ⟨k, i, t⟩)

/-- how many transfers the link makes of an encoded message of `len` bytes (`transfer_count`) -/
def transfers (maxMsg len : Nat) : Nat := transfer_count.value len maxMsg

/-- `transfers <= writer.max_capacity()` -/
def fits (t cap : Nat) : Bool := send_payload.cond_if_0 t cap

/-! ## send -/

/-- the send in progress: what the future holds -/
structure Cur where
  k : Nat
  t : Nat
  /-- goes the reserve-then-commit way -/
  atomic : Bool
  /-- `none`: no credit taken yet; `some i`: credit taken and `i` transfers queued -/
  pushed : Option Nat
deriving DecidableEq, Repr

structure St where
  cap : Nat
  maxMsg : Nat
  credit : Nat
  /-- how far the delivery-count has advanced -/
  dc : Nat
  /-- the link-to-session queue, oldest first -/
  q : List Fr
  /-- what the session engine has taken out of the queue so far -/
  wire : List Fr
  cur : Option Cur
  /-- (ghost) the deliveries a credit was taken for, oldest first -/
  begun : List (Nat × Nat)
  /-- (ghost) the sends that returned `Ok` -/
  done : List Nat
  /-- (ghost) the sends that were started -/
  started : List Nat
  /-- (ghost) credit granted so far -/
  granted : Nat
deriving Repr

inductive Ev where
  /-- the application calls `send` with message `k` of `len` encoded bytes -/
  | start (k len : Nat)
  /-- the future is polled: it runs until it has to wait -/
  | poll
  /-- the future is dropped -/
  | cancel
  /-- the peer grants `n` more credits -/
  | grant (n : Nat)
  /-- the session engine takes up to `n` frames from the queue -/
  | drain (n : Nat)
deriving DecidableEq, Repr

def init (cap maxMsg : Nat) : St :=
  { cap, maxMsg, credit := 0, dc := 0, q := [], wire := [], cur := none, begun := [], done := [], started := [], granted := 0 }

/-- the old path after its credit: one `writer.send(frame).await` per transfer, as many as the queue takes -/
def pushSome (s : St) (c : Cur) (i : Nat) : St :=
  let n := Nat.min (c.t - i) (s.cap - s.q.length)
  let q' := s.q ++ ((frames c.k c.t).drop i).take n
  if i + n = c.t then { s with q := q', cur := none, done := s.done ++ [c.k] }
  else { s with q := q', cur := some { c with pushed := some (i + n) } }

def poll (s : St) : St :=
  match s.cur with
  | none => s
  | some c =>
    if c.atomic then
      -- `credit_available(1)` and `reserve_many(t)` change nothing; then, without an await,
      -- `take_credit(1)` and one `permit.send` per transfer
      if 1 ≤ s.credit ∧ s.q.length + c.t ≤ s.cap then
        { s with credit := s.credit - 1, dc := s.dc + 1, q := s.q ++ frames c.k c.t, cur := none,
                 begun := s.begun ++ [(c.k, c.t)], done := s.done ++ [c.k] }
      else s
    else
      match c.pushed with
      | none =>
        if 1 ≤ s.credit then
          pushSome { s with credit := s.credit - 1, dc := s.dc + 1, begun := s.begun ++ [(c.k, c.t)] } c 0
        else s
      | some i => pushSome s c i

def step (s : St) : Ev → St
  | .start k len =>
    match s.cur with
    | some _ => s          -- `send` takes `&mut self`: one at a time
    | none =>
      let t := transfers s.maxMsg len
      { s with cur := some { k, t, atomic := atomicPath && fits t s.cap, pushed := none }, started := s.started ++ [k] }
  | .poll => poll s
  | .cancel => { s with cur := none }
  | .grant n => { s with credit := s.credit + n, granted := s.granted + n }
  | .drain n => { s with q := s.q.drop n, wire := s.wire ++ s.q.take n }

def run (s : St) (evs : List Ev) : St := evs.foldl step s

/-- everything that has left the link so far, in order -/
def St.sent (s : St) : List Fr := s.wire ++ s.q

/-- the transfers the send in progress still owes -/
def owed : Option Cur → List Fr
  | some ⟨k, t, _, some i⟩ => (frames k t).drop i
  | _ => []

/-- a cancel that cuts a delivery short or wastes a credit: the future is dropped after it took a credit -/
def harmful (s : St) : Ev → Bool
  | .cancel => match s.cur with
    | some ⟨_, _, _, some _⟩ => true
    | _ => false
  | _ => false

/-- no harmful cancel anywhere along the run -/
def harmless : St → List Ev → Bool
  | _, [] => true
  | s, e :: es => !harmful s e && harmless (step s e) es

/-- the frames are whole deliveries one after the other -/
def wholeOf (ds : List (Nat × Nat)) : List Fr := ds.flatMap (fun d => frames d.1 d.2)

/-- executable check used by the correspondence runs: `fs` is made of whole deliveries
    (each `0 .. t-1` of one `k`), returns them -/
def parseWhole : Nat → List Fr → Option (List (Nat × Nat))
  | _, [] => some []
  | 0, _ :: _ => none
  | fuel + 1, f :: rest =>
    if f.i = 0 ∧ 0 < f.t ∧ (f :: rest).take f.t = frames f.k f.t then
      match parseWhole fuel ((f :: rest).drop f.t) with
      | some ds => some ((f.k, f.t) :: ds)
      | none => none
    else none

def isWhole (fs : List Fr) : Bool := (parseWhole fs.length fs).isSome

/-! ## recv -/

structure RSt where
  /-- auto-accept -/
  auto : Bool
  /-- capacity and occupancy of the link-to-session queue -/
  outCap : Nat
  outLen : Nat
  /-- the link's queue of transfers from the session -/
  incoming : List Fr
  /-- `incomplete_transfer` -/
  partialD : List Fr
  /-- `parked_transfer` -/
  parked : Option Fr
  /-- the transfer the future itself holds while it waits for room (lost when it is dropped) -/
  held : Option Fr
  /-- the deliveries returned by the calls that completed -/
  returned : List (List Fr)
  /-- (ghost) everything that arrived -/
  arrived : List Fr
  /-- (ghost) what dropped futures took with them -/
  lost : List Fr
deriving Repr

inductive REv where
  | arrive (f : Fr)
  | poll
  | cancel
  /-- the session engine empties `n` places of the link-to-session queue / other links fill `n` -/
  | outDrain (n : Nat)
  | outFill (n : Nat)
deriving DecidableEq, Repr

def rinit (auto : Bool) (outCap : Nat) : RSt :=
  { auto, outCap, outLen := 0, incoming := [], partialD := [], parked := none, held := none, returned := [], arrived := [], lost := [] }

/-- places `recv_inner` reserves: `outgoing.max_capacity().min(2)` -/
def need (outCap : Nat) : Nat := Nat.min outCap 2

/-- the transfer `recv_inner` looks at next: the parked one, the one this future already holds,
    the next in the queue -/
def rtake (s : RSt) : Option (Fr × RSt) :=
  match s.parked with
  | some f => some (f, { s with parked := none })
  | none =>
    match s.held with
    | some f => some (f, { s with held := none })
    | none =>
      match s.incoming with
      | f :: rest => some (f, { s with incoming := rest })
      | [] => none

/-- the last transfer of a delivery.  `parks` = the source parks the transfer before it waits. -/
def rfinish (parks : Bool) (f : Fr) (s : RSt) : RSt :=
  if s.auto then
    if s.outLen + need s.outCap ≤ s.outCap then
      -- room: the delivery is put together, accepted and returned without an await
      { s with returned := s.returned ++ [s.partialD ++ [f]], partialD := [], outLen := s.outLen + 1 }
    else if parks then { s with parked := some f }
    else { s with held := some f }
  else { s with returned := s.returned ++ [s.partialD ++ [f]], partialD := [] }

/-- one call of `recv` polled once: the loop over `recv_inner` until a delivery is complete or
    something has to be waited for -/
def rpoll (parks : Bool) : Nat → RSt → RSt
  | 0, s => s
  | fuel + 1, s =>
    match rtake s with
    | none => s
    | some (f, s1) =>
      if f.last then rfinish parks f s1
      else rpoll parks fuel { s1 with partialD := s1.partialD ++ [f] }

def rstep (parks : Bool) (s : RSt) : REv → RSt
  | .arrive f => { s with incoming := s.incoming ++ [f], arrived := s.arrived ++ [f] }
  | .poll => rpoll parks (s.incoming.length + 2) s
  | .cancel => { s with held := none, lost := s.lost ++ s.held.toList }
  | .outDrain n => { s with outLen := s.outLen - n }
  | .outFill n => { s with outLen := Nat.min s.outCap (s.outLen + n) }

def rrun (parks : Bool) (s : RSt) (evs : List REv) : RSt := evs.foldl (rstep parks) s

/-- everything that arrived, where it is now -/
def RSt.account (s : RSt) : List Fr :=
  s.returned.flatten ++ s.partialD ++ s.parked.toList ++ s.held.toList ++ s.incoming

/-- a returned delivery is whole: it ends with a last transfer and has none before -/
def WholeD (d : List Fr) : Prop := ∃ body f, d = body ++ [f] ∧ f.last = true ∧ ∀ g ∈ body, g.last = false

end Amqp.Cancel
