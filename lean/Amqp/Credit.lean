/-
  Sender link credit (C08): model of `fe2o3-amqp/src/link/state.rs`
  `LinkFlowState<Sender>::on_incoming_flow`, `consume_link_credit`, and of the
  wait protocol of `Consume for SenderFlowState` against `Producer::produce`
  (tokio `Notify`: a `Notified` future completes once `notify_waiters()` has
  been called after the future was created; no permit is stored).
-/
import Amqp.U32
import Amqp.Gen.CreditKernels
import Amqp.Gen.ListenerKernels

namespace Amqp.Credit
open Amqp Amqp.Gen.Credit

structure SSt where
  dc : Nat            -- delivery_count
  lc : Nat            -- link_credit
  initDc : Nat        -- initial_delivery_count
  drain : Bool
deriving Repr, DecidableEq

/-- link part of a flow frame from the receiver -/
structure LFlow where
  dc : Option Nat
  credit : Option Nat
  drain : Bool
  echo : Bool
deriving Repr, DecidableEq

/-- flow sent back: (delivery-count, link-credit, drain) -/
structure Echo where
  dc : Nat
  lc : Nat
  drain : Bool
deriving Repr, DecidableEq

/-- the credit update of `on_incoming_flow` (only when the flow carries link-credit) -/
def grant (s : SSt) (f : LFlow) : SSt :=
  match f.credit with
  | some c => { s with lc := sender_on_incoming_flow.assign_link_credit_0 f.dc c s.dc s.initDc }
  | none => s

/-- state after a drain request: all credit used up -/
def drained (s : SSt) : SSt :=
  { s with
    dc := sender_on_incoming_flow.assign_delivery_count_0 s.dc s.lc
    lc := sender_on_incoming_flow.assign_link_credit_1 }

def echoOf (s : SSt) : Echo := ⟨s.dc, s.lc, s.drain⟩

/-- `LinkFlowState<SenderMarker>::on_incoming_flow` -/
def onFlow (s : SSt) (f : LFlow) : SSt × Option Echo :=
  let s2 : SSt := { grant s f with drain := sender_on_incoming_flow.assign_drain_0 f.drain }
  if sender_on_incoming_flow.cond_if_0 f.drain then
    (drained s2, some (echoOf (drained s2)))
  else (s2, if f.echo then some (echoOf s2) else none)

/-- `consume_link_credit`: `none` = insufficient credit, else new state and the
    delivery tag (the delivery-count before the increment) -/
def consume (s : SSt) (n : Nat) : Option (SSt × Nat) :=
  if consume_link_credit.cond_if_0 n s.lc then none
  else some ({ s with
    dc := consume_link_credit.assign_delivery_count_0 n s.dc
    lc := consume_link_credit.assign_link_credit_0 n s.lc }, s.dc)

/-- `TryConsume::try_consume` (the non-waiting taker behind the rollback of a dropped transaction):
    its own test and arithmetic, regenerated from the source -/
def tryConsume (s : SSt) (n : Nat) : Option (SSt × Nat) :=
  if try_consume.cond_if_0 n s.lc then none
  else some ({ s with
    dc := try_consume.assign_delivery_count_0 n s.dc
    lc := try_consume.assign_link_credit_0 n s.lc }, s.dc)

/-- source fact: `SenderLink::credit_and_room_or_detached` waits for one credit and takes one credit for
    a delivery (`credit_available(1)`, `take_credit(1)`) — not one per transfer frame -/
def oneCreditPerDelivery : Bool :=
  open one_credit in decide (idx_credit_available___1__ < idx_take_credit___1__) && decide (idx_take_credit___1__ < 1000)

inductive Op where
  | flow (f : LFlow)
  | send           -- one delivery: consume(1), however many frames carry it
deriving Repr, DecidableEq

inductive Out where
  | echo (e : Echo)
  | sent (tag : Nat)
  | blocked
deriving Repr, DecidableEq

def step (s : SSt) : Op → SSt × List Out
  | .flow f => match onFlow s f with
    | (s', some e) => (s', [.echo e])
    | (s', none) => (s', [])
  | .send => match consume s 1 with
    | some (s', tag) => (s', [.sent tag])
    | none => (s, [.blocked])

def run (s : SSt) : List Op → SSt × List Out
  | [] => (s, [])
  | op :: ops =>
    let (s1, o1) := step s op
    let (s2, o2) := run s1 ops
    (s2, o1 ++ o2)

/-- source fact: in `credit_and_room_or_detached` the credit is waited for, then room is awaited, then the
    credit is TAKEN through `take_credit`, which is `consume_link_credit(..).ok()` — it looks at the credit
    again — and a `None` sends the loop round again -/
def takeRechecks : Bool :=
  (open take_rechecks in
    decide (idx_credit_available___1_____await < idx_reserve_many___transfers_____await) &&
    decide (idx_reserve_many___transfers_____await < idx_match_self___flow_state___take_credit___1__) &&
    decide (idx_match_self___flow_state___take_credit___1__ < idx_Some___tag_______return_Ok_____tag___permits____) &&
    decide (idx_Some___tag_______return_Ok_____tag___permits____ < idx_None_____continue) &&
    decide (idx_None_____continue < 1000)) &&
  (open take_credit_checks in decide (idx_consume_link_credit_____self___state_______lock___count_____ok____ < 1000))

/-- a send that has seen a credit waits for room in the link-to-session queue; meanwhile the session task
    applies the flows that arrive (`whileWaiting`); then the send takes its credit.  With `rechecks` it takes
    it through `consume` (and goes round again when there is none); without, it takes it whatever is there.
    `none` = goes round the loop again (waits for credit) -/
def takeAfterRoom (rechecks : Bool) (s : SSt) (whileWaiting : List LFlow) : SSt × Option Nat :=
  let s1 := replay' s whileWaiting
  if rechecks then
    match consume s1 1 with
    | some (s2, tag) => (s2, some tag)
    | none => (s1, none)
  else
    ({ s1 with dc := consume_link_credit.assign_delivery_count_0 1 s1.dc, lc := consume_link_credit.assign_link_credit_0 1 s1.lc }, some s1.dc)
where
  replay' (s : SSt) (flows : List LFlow) : SSt := flows.foldl (fun st f => (onFlow st f).1) s

def takeAfterRoomAsSource (s : SSt) (whileWaiting : List LFlow) : SSt × Option Nat :=
  takeAfterRoom takeRechecks s whileWaiting

/-- link flows that reached a listener's session before the application accepted the link are kept
    and applied when it does: one after the other, in the order they arrived -/
def replay (s : SSt) (flows : List LFlow) : SSt := flows.foldl (fun st f => (onFlow st f).1) s

/-- source fact: the listener replays the buffered flows oldest first (a `for` over the vector; no `pop`,
    no `rev`) -/
def replayOldestFirst : Bool :=
  open Amqp.Gen.ListenerK.replay_order in
  decide (idx_pending_link_flows___remove < idx_for_flow_in_pending_flows) &&
  decide (idx_for_flow_in_pending_flows < idx_on_incoming_flow) &&
  decide (idx_on_incoming_flow < 1000) && decide (idx_pop____ = 1000) && decide (idx___rev____ = 1000)

/-- what the listener does with the buffered flows, in the order the source has now -/
def replayAsSource (s : SSt) (flows : List LFlow) : SSt :=
  replay s (if replayOldestFirst then flows else flows.reverse)

/-! ## the wait protocol -/

/-- does `consume` create the `Notified` future before it checks the credit? (from the source) -/
def notifiedFirst : Bool :=
  decide (sender_consume.idx_notified < sender_consume.idx_consume_link_credit)

inductive Pc where
  | start
  | snapped (n : Nat)     -- `Notified` created when `calls = n`, credit not yet checked
  | failed                -- credit check failed, `Notified` not yet created
  | parked (n : Nat)      -- awaiting a `Notified` created when `calls = n`
  | done
deriving Repr, DecidableEq

structure NSt where
  credit : Nat
  need : Nat
  calls : Nat             -- number of `notify_waiters()` calls so far
  pending : Bool          -- the producer updated the state but has not notified yet
  pc : Pc
deriving Repr, DecidableEq

inductive Act where
  | cStep                 -- the consumer task takes its next step (if enabled)
  | pUpdate (c : Nat)     -- session task: `update_state` (sets the credit)
  | pNotify               -- session task: `notify_waiters()`
deriving Repr, DecidableEq

/-- one step of the consumer; `none` when it is blocked -/
def cStep (first : Bool) (s : NSt) : Option NSt :=
  match s.pc with
  | .start =>
    if first then some { s with pc := .snapped s.calls }
    else if s.credit ≥ s.need then some { s with credit := s.credit - s.need, pc := .done }
    else some { s with pc := .failed }
  | .snapped n =>
    if s.credit ≥ s.need then some { s with credit := s.credit - s.need, pc := .done }
    else some { s with pc := .parked n }
  | .failed => some { s with pc := .parked s.calls }
  | .parked n => if s.calls > n then some { s with pc := .start } else none
  | .done => none

def nStep (first : Bool) (s : NSt) : Act → NSt
  | .cStep => (cStep first s).getD s
  | .pUpdate c => if s.pending then s else { s with credit := c, pending := true }
  | .pNotify => if s.pending then { s with calls := s.calls + 1, pending := false } else s

def nRun (first : Bool) (s : NSt) : List Act → NSt
  | [] => s
  | a :: as => nRun first (nStep first s a) as

def nInit (credit need : Nat) : NSt :=
  { credit := credit, need := need, calls := 0, pending := false, pc := .start }

/-- the consumer alone, `k` steps -/
def cRun (first : Bool) (s : NSt) : Nat → NSt
  | 0 => s
  | k + 1 => cRun first ((cStep first s).getD s) k

end Amqp.Credit
