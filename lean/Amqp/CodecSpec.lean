/-
  C05 — the AMQP 1.0 type system (spec part 1, §1.2 and §1.6) written down on its own: every
  encoding the specification permits for a value, as a function of the choices the encoding
  peer is free to make (`Ch`).  Nothing here refers to the implementation or to the constants
  generated from it: constructors are the literal bytes of the specification.
-/
import Amqp.Codec

namespace Amqp.CodecSpec
open Amqp.Codec (Bytes Value FixedKind VarKind)

/-- the choices of an encoder -/
inductive Ch where
  /-- a scalar: `form` 0 = the full-width encoding, 1 = the one-byte form (smalluint, smallint, …;
      for booleans: 0x56 + byte), 2 = the zero-width form (uint0, ulong0); `wide` = 32-bit length -/
  | leaf (form : Nat) (wide : Bool)
  /-- a list, map or array: 32-bit or 8-bit header (for an empty list, `zero` = list0) -/
  | node (wide : Bool) (zero : Bool) (children : List Ch)
  | desc (d v : Ch)
deriving Repr

def be32 (n : Nat) : Bytes :=
  [UInt8.ofNat (n / 16777216 % 256), UInt8.ofNat (n / 65536 % 256), UInt8.ofNat (n / 256 % 256), UInt8.ofNat (n % 256)]

/-- §1.6: the full-width constructor of each fixed-width primitive -/
def fullCode : FixedKind → UInt8
  | .ubyte => 0x50 | .ushort => 0x60 | .uint => 0x70 | .ulong => 0x80
  | .byte => 0x51 | .short => 0x61 | .int => 0x71 | .long => 0x81
  | .float => 0x72 | .double => 0x82 | .dec32 => 0x74 | .dec64 => 0x84 | .dec128 => 0x94
  | .char => 0x73 | .timestamp => 0x83 | .uuid => 0x98

def width : FixedKind → Nat
  | .ubyte => 1 | .ushort => 2 | .uint => 4 | .ulong => 8
  | .byte => 1 | .short => 2 | .int => 4 | .long => 8
  | .float => 4 | .double => 8 | .dec32 => 4 | .dec64 => 8 | .dec128 => 16
  | .char => 4 | .timestamp => 8 | .uuid => 16

/-- sign extension of a one-byte two's-complement number -/
def sx (b : UInt8) : UInt8 := if b.toNat < 128 then 0 else 255

/-- §1.6.1–1.6.22: a fixed-width primitive given by its big-endian bytes -/
def sFixed (form : Nat) (k : FixedKind) (bs : Bytes) : Option Bytes :=
  if bs.length ≠ width k then none else
  match form with
  | 0 => some (fullCode k :: bs)
  | 1 =>
    match k, bs with
    | .uint, [0, 0, 0, d] => some [0x52, d]
    | .ulong, [0, 0, 0, 0, 0, 0, 0, d] => some [0x53, d]
    | .int, [a, b, c, d] => if a = sx d ∧ b = sx d ∧ c = sx d then some [0x54, d] else none
    | .long, [a, b, c, d, e, f, g, h] =>
      if a = sx h ∧ b = sx h ∧ c = sx h ∧ d = sx h ∧ e = sx h ∧ f = sx h ∧ g = sx h then some [0x55, h] else none
    | _, _ => none
  | 2 =>
    match k, bs with
    | .uint, [0, 0, 0, 0] => some [0x43]
    | .ulong, [0, 0, 0, 0, 0, 0, 0, 0] => some [0x44]
    | _, _ => none
  | _ => none

/-- §1.6.2 -/
def sBool (form : Nat) (b : Bool) : Option Bytes :=
  match form with
  | 0 => some [if b then 0x41 else 0x42]
  | 1 => some [0x56, if b then 1 else 0]
  | _ => none

def code8 : VarKind → UInt8
  | .binary => 0xa0 | .string => 0xa1 | .symbol => 0xa3
def code32 : VarKind → UInt8
  | .binary => 0xb0 | .string => 0xb1 | .symbol => 0xb3

/-- §1.6.19–1.6.22: variable-width: one-octet or four-octet length -/
def sVar (wide : Bool) (k : VarKind) (bs : Bytes) : Option Bytes :=
  if wide then (if bs.length < 4294967296 then some (code32 k :: be32 bs.length ++ bs) else none)
  else (if bs.length < 256 then some (code8 k :: UInt8.ofNat bs.length :: bs) else none)

/-- the constructor and the bare data of an array element (all elements of an array share the constructor) -/
def sElem : Value → Option (UInt8 × Bytes)
  | .bool b => some (0x56, [if b then 1 else 0])
  | .fixed k bs => if bs.length = width k then some (fullCode k, bs) else none
  | .var k bs => if bs.length < 4294967296 then some (code32 k, be32 bs.length ++ bs) else none
  | _ => none

def sElems (c : UInt8) : List Value → Option Bytes
  | [] => some []
  | v :: vs => do
    let (c', body) ← sElem v
    if c' ≠ c then none else do
    let rest ← sElems c vs
    some (body ++ rest)

/-- the element choice of an array: the compact (one-byte) or the full-width constructor for its integers,
    the 8- or 32-bit length form for its strings / binaries / symbols.  Zero-width element constructors
    (0x41 / 0x42 / 0x43 / 0x44) are not among the choices (see the recorded exception). -/
def sElemF (form : Nat) (ewide : Bool) : Value → Option (UInt8 × Bytes)
  | .bool b => some (0x56, [if b then 1 else 0])
  | .fixed k bs =>
    if form = 2 then none else
    match sFixed form k bs with
    | some (c :: d) => some (c, d)
    | _ => none
  | .var k bs =>
    match sVar ewide k bs with
    | some (c :: d) => some (c, d)
    | _ => none
  | _ => none

def sElemsF (form : Nat) (ewide : Bool) (c : UInt8) : List Value → Option Bytes
  | [] => some []
  | v :: vs => do
    let (c', body) ← sElemF form ewide v
    if c' ≠ c then none else do
    let rest ← sElemsF form ewide c vs
    some (body ++ rest)

/-- the element choice carried by an array's `node`: its single child, if it is a leaf; the encoder's
    own choice (full width, 32-bit lengths) otherwise -/
def elemChoice : List Ch → Nat × Bool
  | [.leaf form wide] => (form, wide)
  | _ => (0, true)

mutual
  /-- every encoding of `v` the specification permits, by the choices made -/
  def sEnc : Ch → Value → Option Bytes
    | _, .null => some [0x40]
    | .leaf form _, .bool b => sBool form b
    | .leaf form _, .fixed k bs => sFixed form k bs
    | .leaf _ wide, .var k bs => sVar wide k bs
    | .node wide zero cs, .list vs => do
      let body ← sEncAll cs vs
      -- §1.6.23–25: size counts the count field and the data; count = number of elements
      if zero then (if vs.isEmpty then some [0x45] else none)
      else if wide then
        (if body.length + 4 < 4294967296 ∧ vs.length < 4294967296 then some (0xd0 :: be32 (body.length + 4) ++ be32 vs.length ++ body) else none)
      else
        (if body.length + 1 < 256 ∧ vs.length < 256 then some (0xc0 :: UInt8.ofNat (body.length + 1) :: UInt8.ofNat vs.length :: body) else none)
    | .node wide _ cs, .map kvs => do
      -- §1.6.26–27: count = number of keys plus number of values
      let body ← sEncAll cs kvs
      if kvs.length % 2 ≠ 0 then none
      else if wide then
        (if body.length + 4 < 4294967296 ∧ kvs.length < 4294967296 then some (0xd1 :: be32 (body.length + 4) ++ be32 kvs.length ++ body) else none)
      else
        (if body.length + 1 < 256 ∧ kvs.length < 256 then some (0xc1 :: UInt8.ofNat (body.length + 1) :: UInt8.ofNat kvs.length :: body) else none)
    | .node wide _ cs, .array vs =>
      -- §1.6.28–29: size counts the count field, the element constructor and the data
      match vs with
      | [] =>
        if wide then some (0xf0 :: be32 4 ++ be32 0) else some [0xe0, 1, 0]
      | v :: _ => do
        let (c, _) ← sElemF (elemChoice cs).1 (elemChoice cs).2 v
        let body ← sElemsF (elemChoice cs).1 (elemChoice cs).2 c vs
        if wide then
          (if body.length + 5 < 4294967296 ∧ vs.length < 4294967296 then some (0xf0 :: be32 (body.length + 5) ++ be32 vs.length ++ c :: body) else none)
        else
          (if body.length + 2 < 256 ∧ vs.length < 256 then some (0xe0 :: UInt8.ofNat (body.length + 2) :: UInt8.ofNat vs.length :: c :: body) else none)
    | .desc cd cv, .described d v => do
      -- §1.2: descriptor, then the value; a descriptor is a symbol or an unsigned long
      let a ← sEnc cd d
      let b ← sEnc cv v
      match d with
      | .var .symbol _ => some (0x00 :: a ++ b)
      | .fixed .ulong _ => some (0x00 :: a ++ b)
      | _ => none
    | _, _ => none
  def sEncAll : List Ch → List Value → Option Bytes
    | [], [] => some []
    | c :: cs, v :: vs => do
      let a ← sEnc c v
      let b ← sEncAll cs vs
      some (a ++ b)
    | _, _ => none
end

end Amqp.CodecSpec
