/-
  Frames on the wire (C06): model of
  `FrameEncoder::{new, encode_transfer, encode}` (frames/amqp.rs),
  `Transport::start_send` and the length-delimited codecs (transport/mod.rs).

  Performative encodings are opaque byte strings supplied by the caller (their
  correctness is C03/C05); what is modelled here is the size arithmetic, the
  splitting of a transfer into continuation frames, the re-chunking done by
  `start_send`, the 4-byte length prefix, and the stream decoder.
-/
import Amqp.Gen.FrameKernels

namespace Amqp.Frame
open Amqp.Gen.FrameK

/-- `length_field_length` of both codecs -/
def lengthFieldLen : Nat := length_delimited_encoder.arg_length_field_length_0

/-- `FrameEncoder::new(max_frame_size).max_frame_body_size` -/
def frameEncoderBody (maxFrameSize : Nat) : Nat := frame_encoder_new.field_max_frame_body_size_0 maxFrameSize

/-- the encoder's `max_frame_length` for a negotiated max-frame-size (`set_encoder_max_frame_size`) -/
def encoderMaxLen (maxFrameSize : Nat) : Nat := set_encoder_max_frame_size.arg_set_max_frame_length_0 maxFrameSize

abbrev Bytes := List UInt8

/-- big-endian 32-bit length prefix -/
def be32 (n : Nat) : Bytes :=
  [UInt8.ofNat (n / 16777216 % 256), UInt8.ofNat (n / 65536 % 256),
   UInt8.ofNat (n / 256 % 256), UInt8.ofNat (n % 256)]

def readBe32 (b0 b1 b2 b3 : UInt8) : Nat :=
  b0.toNat * 16777216 + b1.toNat * 65536 + b2.toNat * 256 + b3.toNat

/-- `write_header`: doff = 2, type = 0, channel -/
def header (channel : Nat) : Bytes :=
  [2, 0, UInt8.ofNat (channel / 256 % 256), UInt8.ofNat (channel % 256)]

/-- the four encodings of a transfer performative used by `encode_transfer` -/
structure Perfs where
  p0 : Bytes    -- as given
  p1 : Bytes    -- `more := true`
  p2 : Bytes    -- continuation fields only, `more := true`
  p3 : Bytes    -- continuation fields only, `more := orig_more`
deriving DecidableEq

/-- the `while remaining_bytes > max_frame_body_size` loop (fuel = bytes left):
    the payload pieces of the middle frames and what is left for the last frame -/
def middleLoop (B : Nat) (p2len : Nat) : Nat → Nat → Bytes → List Bytes × Bytes
  | 0, _, rest => ([], rest)
  | fuel + 1, remaining, rest =>
    if encode_transfer.cond_while_0 remaining B then
      let k := encode_transfer.let_split_index_1 p2len B
      let rest' := rest.drop k
      -- `remaining_bytes = buf.len() + payload.len()` at the end of the loop body
      let (cs, r) := middleLoop B p2len fuel (encode_transfer.assign_remaining_bytes_0 p2len rest'.length) rest'
      (rest.take k :: cs, r)
    else ([], rest)

/-- the loop entered with `let mut remaining_bytes = buf.len() + payload.len()` -/
def middle (B : Nat) (p2len : Nat) (fuel : Nat) (rest : Bytes) : List Bytes × Bytes :=
  middleLoop B p2len fuel (encode_transfer.let_remaining_bytes_1 p2len rest.length) rest

/-- `FrameEncoder::encode_transfer` with `max_frame_body_size = B`: the
    (performative encoding, payload piece) of every frame, in order -/
def split (B : Nat) (p : Perfs) (payload : Bytes) : List (Bytes × Bytes) :=
  if encode_transfer.cond_if_0 p.p0.length payload.length B then
    let k1 := encode_transfer.let_split_index_0 p.p1.length B
    let (mids, rest) := middle B p.p2.length payload.length (payload.drop k1)
    (p.p1, payload.take k1) :: mids.map (fun c => (p.p2, c)) ++ [(p.p3, rest)]
  else [(p.p0, payload)]

/-! ## the session engine's cut (`frames::amqp::split_transfer`)

The session engine cuts an outgoing transfer to the frame size *before* the
session numbers it, so that every frame on the wire is one session transfer. -/

/-- which performative a piece carries -/
inductive SKind where
  | whole   -- the transfer as given
  | first   -- as given with `more := true`
  | cont    -- continuation fields only, `more := true`
  | last    -- continuation fields only, `more := orig_more`
deriving Repr, DecidableEq

/-- `encoded_len` of the three performatives measured by `split_transfer`
    (a delivery-tag without delivery-id is measured with the widest id) -/
structure SLens where
  whole : Nat
  first : Nat
  rest  : Nat
deriving Repr

/-- the `while rest_len + payload.len() > max_frame_body_size` loop (fuel = bytes left) -/
def sMiddle (B restLen : Nat) : Nat → Bytes → List Bytes × Bytes
  | 0, rest => ([], rest)
  | fuel + 1, rest =>
    if split_transfer.cond_while_0 B rest.length restLen then
      let k := split_transfer.arg_split_to_1 B restLen
      let (cs, r) := sMiddle B restLen fuel (rest.drop k)
      (rest.take k :: cs, r)
    else ([], rest)

/-- `split_transfer(transfer, payload, B)`: kind and payload of every piece, in order -/
def sessionSplit (B : Nat) (l : SLens) (payload : Bytes) : List (SKind × Bytes) :=
  if split_transfer.cond_if_1 B payload.length l.whole then [(.whole, payload)]
  else if split_transfer.cond_if_2 l.first B l.rest then [(.whole, payload)]
  else
    let k := split_transfer.arg_split_to_0 l.first B payload.length
    let (mids, rest) := sMiddle B l.rest payload.length (payload.drop k)
    (.first, payload.take k) :: mids.map (fun c => (SKind.cont, c)) ++ [(.last, rest)]

/-- the frames written to the buffer, in order (without length prefixes) -/
def encodeTransfer (B : Nat) (channel : Nat) (p : Perfs) (payload : Bytes) : List Bytes :=
  (split B p payload).map (fun qc => header channel ++ qc.1 ++ qc.2)

/-- `Transport::start_send`'s loop: cut the buffer into pieces of `E` bytes (fuel = length) -/
def chunks (E : Nat) : Nat → Bytes → List Bytes
  | 0, buf => [buf]
  | fuel + 1, buf =>
    if start_send.cond_while_0 buf.length E then buf.take E :: chunks E fuel (buf.drop E) else [buf]

/-- length-delimited encoder: length field counts itself (`length_adjustment(-4)`) -/
def prefixed (chunk : Bytes) : Bytes := be32 (chunk.length + lengthFieldLen) ++ chunk

/-- what `start_send` puts on the wire for a transfer, with the encoder's
    `max_frame_length = E` -/
def wireTransfer (E : Nat) (channel : Nat) (p : Perfs) (payload : Bytes) : List Bytes :=
  let B := frameEncoderBody E
  let buf := (encodeTransfer B channel p payload).flatten
  (chunks E buf.length buf).map prefixed

/-- any other frame: header + performative, one chunk if it fits -/
def wireOther (E : Nat) (channel : Nat) (perf : Bytes) : List Bytes :=
  let buf := header channel ++ perf
  (chunks E buf.length buf).map prefixed

/-! ## stream decoder (length-delimited, `length_adjustment(-4)`) -/

inductive DecErr where
  | tooShort      -- length field smaller than the field itself
  | tooLong       -- frame longer than max_frame_length
deriving Repr, DecidableEq

structure DecSt where
  buf : Bytes
  failed : Option DecErr
deriving Repr, DecidableEq

/-- extract complete frames from the buffer (fuel = buffer length) -/
def drain (maxLen : Nat) : Nat → Bytes → List Bytes × Bytes × Option DecErr
  | 0, buf => ([], buf, none)
  | fuel + 1, buf =>
    match buf with
    | b0 :: b1 :: b2 :: b3 :: rest =>
      let l := readBe32 b0 b1 b2 b3
      if l < lengthFieldLen then ([], buf, some .tooShort)
      -- tokio's codec compares the length field itself (prefix included) with max_frame_length
      else if l > maxLen then ([], buf, some .tooLong)
      else if rest.length < l - lengthFieldLen then ([], buf, none)
      else
        let (fs, r, e) := drain maxLen fuel (rest.drop (l - lengthFieldLen))
        (rest.take (l - lengthFieldLen) :: fs, r, e)
    | _ => ([], buf, none)

/-- feed one chunk of bytes read from the socket -/
def feed (maxLen : Nat) (st : DecSt) (chunk : Bytes) : DecSt × List Bytes :=
  match st.failed with
  | some _ => (st, [])
  | none =>
    let buf := st.buf ++ chunk
    let (fs, r, e) := drain maxLen buf.length buf
    ({ buf := r, failed := e }, fs)

def feedAll (maxLen : Nat) (st : DecSt) : List Bytes → DecSt × List Bytes
  | [] => (st, [])
  | c :: cs =>
    let (s1, f1) := feed maxLen st c
    let (s2, f2) := feedAll maxLen s1 cs
    (s2, f1 ++ f2)

def decInit : DecSt := { buf := [], failed := none }

end Amqp.Frame
