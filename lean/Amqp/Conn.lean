/-
  Connection lifecycle (C12): model of `ConnectionEngine` (connection/engine.rs) on top of
  the transition tables generated from `Connection` (connection/mod.rs).

  One engine, one peer.  Inputs are events in the order the engine takes them up: frames
  from the peer, requests from the local handles (close, a session's frame), heartbeat
  ticks.  Outputs are the frames written to the transport.  While the engine is inside
  `wait_for_remote_close` it reads the transport only: local events are never taken up again.
-/
import Amqp.Gen.Fsm

namespace Amqp.Conn
open Amqp.Gen.Fsm

/-- frames the peer can send (after the protocol header) -/
inductive PFrame where
  | open_
  | close (withError : Bool)
  /-- begin answering our begin on `remoteChannel` (`none`: a remotely initiated session) -/
  | begin (channel : Nat) (remoteChannel : Option Nat)
  /-- attach / flow / transfer / disposition / detach on a channel -/
  | session (channel : Nat)
  | end_ (channel : Nat)
  | empty
deriving Repr, DecidableEq

inductive Event where
  | peer (f : PFrame)
  /-- the transport's read half ended -/
  | eof
  /-- `ConnectionHandle::close` / `close_with_error` -/
  | ctlClose (withError : Bool)
  /-- a session asks for a channel (`Session::begin`): allocate + send begin -/
  | ctlBegin
  /-- a frame from a local session on its outgoing channel (attach … end) -/
  | sessFrame (channel : Nat) (isEnd : Bool)
  | heartbeat
deriving Repr, DecidableEq

inductive Out where
  | header
  | open_
  | close (withError : Bool)
  /-- begin / attach / … / end forwarded for a local session -/
  | frame (channel : Nat)
  | empty
  /-- a peer frame handed to the session on that incoming channel -/
  | toSession (channel : Nat)
deriving Repr, DecidableEq

/-- how the engine task ended, as seen by `ConnectionHandle::close / on_close` -/
inductive Res where
  | ok
  | remoteClosed
  | remoteClosedWithError
  | illegalState
  | notFound
  | notImplemented
  | transport
deriving Repr, DecidableEq

inductive Phase where
  | running
  /-- inside `wait_for_remote_close(discard)`, entered from `close_connection` -/
  | waitClose (discard : Bool)
  | stopped
deriving Repr, DecidableEq

structure St where
  cs : CState
  phase : Phase
  /-- outgoing channels handed out (`session_by_outgoing_channel`, a slab) -/
  outCh : List Nat
  /-- vacated slab keys, most recent first -/
  freeCh : List Nat
  /-- outgoing channels whose session has sent its end / has been sent the peer's end: a session
      stops, and gives its channel back, when both have happened -/
  endSent : List Nat
  endRecv : List Nat
  /-- incoming channel ↦ outgoing channel (`session_by_incoming_channel`) -/
  inCh : List (Nat × Nat)
  /-- first error recorded by the event loop (`outcome`) -/
  res : Option Res
  /-- `outgoing_session_frames` has been closed (after a local or remote close) -/
  sessClosed : Bool
  /-- the transport's read half has ended: every further read sees the end again -/
  dead : Bool
deriving Repr, DecidableEq

inductive Err where
  | illegalState | notFound | notImplemented | remoteClosed | remoteClosedWithError | transport
deriving Repr, DecidableEq

def Err.res : Err → Res
  | .illegalState => .illegalState | .notFound => .notFound | .notImplemented => .notImplemented
  | .remoteClosed => .remoteClosed | .remoteClosedWithError => .remoteClosedWithError | .transport => .transport

/-- `Slab::vacant_entry().key()`: the most recently vacated key, else the next new one -/
def freshChannel (used free : List Nat) : Nat :=
  match free with
  | c :: _ => c
  | [] => used.length

/-- `on_incoming`: new state, outputs, error (the state may change even when an error is returned) -/
def PFrame.isClose : PFrame → Bool
  | .close _ => true
  | _ => false

/-- `deallocate_session` once the session on outgoing channel `oc` has exchanged both ends -/
def release (s : St) (oc : Nat) : St :=
  if s.endSent.contains oc && s.endRecv.contains oc && s.outCh.contains oc then
    { s with outCh := s.outCh.filter (· != oc), freeCh := oc :: s.freeCh,
             endSent := s.endSent.filter (· != oc), endRecv := s.endRecv.filter (· != oc) }
  else s

def onIncoming (s : St) (f : PFrame) : St × List Out × Option Err :=
  if Conn.on_incoming_drops s.cs ∧ f.isClose = false then (s, [], none)
  else
    match f with
    | .open_ =>
      match Conn.on_incoming_open s.cs with
      | some c => ({ s with cs := c }, [], none)
      | none => (s, [], some .illegalState)
    | .begin ch rc =>
      match Conn.on_incoming_begin s.cs with
      | none => (s, [], some .illegalState)
      | some _ =>
        match rc with
        | none => (s, [], some .notImplemented)
        | some oc =>
          if s.outCh.contains oc then
            ({ s with inCh := (ch, oc) :: s.inCh.filter (fun p => p.1 != ch) }, [.toSession ch], none)
          else (s, [], some .notFound)
    | .session ch =>
      if Conn.forward_to_session_arm s.cs = 0 then
        if s.inCh.any (fun p => p.1 == ch) then (s, [.toSession ch], none) else (s, [], some .notFound)
      else (s, [], some .illegalState)
    | .end_ ch =>
      match Conn.on_incoming_end s.cs with
      | none => (s, [], some .illegalState)
      | some _ =>
        match s.inCh.find? (fun p => p.1 == ch) with
        | some p =>
          (release { s with inCh := s.inCh.filter (fun q => q.1 != ch), endRecv := p.2 :: s.endRecv } p.2, [.toSession ch], none)
        | none => (s, [], some .notFound)
    | .close we =>
      match Conn.on_incoming_close s.cs with
      | none => (s, [], some .illegalState)
      | some c =>
        if c = .closeReceived then
          -- flush what sessions had queued (none pending in this model), answer with a close
          match Conn.send_close c false with
          | some c2 => ({ s with cs := c2, sessClosed := true }, [.close false],
                        some (if we then .remoteClosedWithError else .remoteClosed))
          | none => ({ s with cs := c, sessClosed := true }, [], some .illegalState)
        else
          ({ s with cs := c }, [], if we then some .remoteClosedWithError else none)
    | .empty => (s, [], none)

/-- what `send_close` writes when the state does not allow a close: nothing if it checks first -/
def refusedClose (withError : Bool) : List Out :=
  if Conn.send_close_checks_first then [] else [.close withError]

/-- `close_connection(error)`: what is sent right away and which wait (if any) follows -/
def closeConnection (s : St) (withError : Bool) : St × List Out × Option Err :=
  match Conn.close_connection_arm s.cs with
  | 0 => (s, [], some .illegalState)
  | 1 =>
    match Conn.send_close s.cs withError with
    | some c => ({ s with cs := c, phase := .waitClose false }, [.close withError], none)
    | none => (s, refusedClose withError, some .illegalState)
  | 2 =>
    match Conn.send_close s.cs withError with
    | some c => ({ s with cs := c, phase := .stopped }, [.close withError], none)
    | none => (s, refusedClose withError, some .illegalState)
  | 3 => ({ s with phase := .waitClose false }, [], none)
  | 4 => ({ s with phase := .waitClose true }, [], none)
  | _ => ({ s with phase := .stopped }, [], none)

def record (s : St) (e : Err) : St := { s with res := match s.res with | some r => some r | none => some e.res }
def overwrite (s : St) (e : Err) : St := { s with res := some e.res }

/-- `on_error` after an error `e` of the event loop: the outcome is the error, unless handling it
    fails, in which case the handling error replaces it -/
def onError (s : St) (e : Err) : St × List Out :=
  match e with
  | .transport => ({ overwrite s e with phase := .stopped }, [])
  | .illegalState | .notFound | .notImplemented =>
    let (s1, os, err) := closeConnection s true
    match err with
    | none => (overwrite s1 e, os)
    | some e2 => ({ overwrite s1 e2 with phase := .stopped }, os)
  | .remoteClosed | .remoteClosedWithError =>
    let (s1, os, err) := closeConnection s false
    match err with
    | none => (overwrite s1 e, os)
    | some e2 => ({ overwrite s1 e2 with phase := .stopped }, os)

/-- does the event loop treat the end of the incoming stream in this state as an error? (generated table) -/
def eofIsError (c : CState) : Bool := Conn.on_eof_arm_is_err.getD (Conn.on_eof_arm c) true

/-- after an event handled without error: stop at `End` -/
def settle (s : St) : St := if s.cs = .ended then { s with phase := .stopped } else s

/-- one event taken up by the event loop -/
def stepRunning (s : St) : Event → St × List Out
  | .peer f =>
    let (s1, os, err) := onIncoming s f
    match err with
    | none => (settle s1, os)
    | some e => let (s2, os2) := onError s1 e; (s2, os ++ os2)
  | .eof =>
    -- the event loop's table for a closed incoming stream (generated): an error unless the
    -- endpoint no longer expects anything from the peer
    if eofIsError s.cs then (let (s2, os2) := onError s .illegalState; (s2, os2))
    else ({ s with phase := .stopped }, [])
  | .ctlClose we =>
    if Conn.on_control_close_ignored s.cs then (s, [])
    else
    match Conn.send_close s.cs we with
    | some c => (settle { s with cs := c, sessClosed := true }, [.close we])
    | none =>
      let (s2, os2) := onError { s with sessClosed := true } .illegalState
      (s2, refusedClose we ++ os2)
  | .ctlBegin =>
    match Conn.allocate_session s.cs with
    | none => (s, [])
    | some _ =>
      let ch := freshChannel s.outCh s.freeCh
      let s1 := { s with outCh := s.outCh ++ [ch], freeCh := s.freeCh.drop 1 }
      -- the session's begin frame comes through `outgoing_session_frames`
      if s.sessClosed then (s1, [])
      else if Conn.on_outgoing_session_frames_arm s.cs = 0 then (s1, [.frame ch])
      else let (s2, os2) := onError s1 .illegalState; (s2, os2)
  | .sessFrame ch isEnd =>
    -- a session that has sent its end stops and gives its channel back (`deallocate_session`)
    let s0 := if isEnd then release { s with endSent := ch :: s.endSent } ch else s
    if s.sessClosed then (s0, [])
    else if Conn.on_outgoing_session_frames_arm s.cs = 0 then (s0, [.frame ch])
    else let (s2, os2) := onError s0 .illegalState; (s2, os2)
  | .heartbeat =>
    match Conn.on_heartbeat_arm s.cs with
    | 0 => (s, [])
    | 1 => ({ s with phase := .stopped }, [])
    | _ => (s, [.empty])

/-- inside `wait_for_remote_close(discard)`: only the transport is read -/
def stepWait (s : St) (discard : Bool) : Event → St × List Out
  | .peer (.close we) =>
    match Conn.on_incoming_close s.cs with
    | some c =>
      if c = .closeReceived then
        -- cannot happen after our close was sent (table), kept for totality
        ({ s with cs := c, phase := .stopped }, [])
      else if we then ({ overwrite s .remoteClosedWithError with cs := c, phase := .stopped }, [])
      else ({ s with cs := c, phase := .stopped }, [])
    | none => ({ overwrite s .illegalState with phase := .stopped }, [])
  | .peer f =>
    if discard then (s, [])
    else
      let (s1, os, err) := onIncoming s f
      match err with
      | none => (s1, os)
      | some e => ({ overwrite s1 e with phase := .stopped }, os)
  | .eof => ({ overwrite s .transport with phase := .stopped }, [])
  | _ => (s, [])

def step1 (s : St) (e : Event) : St × List Out :=
  match s.phase with
  | .running => stepRunning s e
  | .waitClose d => stepWait s d e
  | .stopped => (s, [])

def Event.isPeer : Event → Bool
  | .peer _ => true
  | _ => false

def markDead (s : St) (e : Event) : St := if e = .eof then { s with dead := true } else s

/-- a wait for the peer's close that begins (or continues) on a dead transport ends at once -/
def finishWait (r : St × List Out) : St × List Out :=
  match r.1.phase with
  | .waitClose d => if r.1.dead then ((stepWait r.1 d .eof).1, r.2 ++ (stepWait r.1 d .eof).2) else r
  | _ => r

/-- one event; once the read half has ended nothing more arrives from the peer -/
def step (s : St) (e : Event) : St × List Out :=
  if s.dead && e.isPeer then (s, []) else finishWait (step1 (markDead s e) e)

def run (s : St) : List Event → St × List Out
  | [] => (s, [])
  | e :: es =>
    let (s1, o1) := step s e
    let (s2, o2) := run s1 es
    (s2, o1 ++ o2)

/-- the client's `open`: header exchange, our open, the peer's first frame -/
def opened0 : St :=
  { cs := .headerExchange, phase := .running, outCh := [], freeCh := [], endSent := [], endRecv := [], inCh := [], res := none, sessClosed := false, dead := false }

/-- `ConnectionEngine::open`: send open, take the peer's first frame; on anything but an open
    the connection is closed (`close_connection(None)`) and opening fails -/
def openWith (first : Option PFrame) : St × List Out × Bool :=
  match Conn.send_open opened0.cs with
  | none => (opened0, [.header], false)
  | some c =>
    let s := { opened0 with cs := c }
    match first with
    | some .open_ =>
      match Conn.on_incoming_open s.cs with
      | some c2 => ({ s with cs := c2 }, [.header, .open_], true)
      | none => (s, [.header, .open_], false)
    | some (.close we) =>
      -- the peer refused: `close_connection(None)` from OpenSent sends a close and waits
      let (s1, os, _) := closeConnection s false
      ({ s1 with res := some (if we then .remoteClosedWithError else .remoteClosed) }, [.header, .open_] ++ os, false)
    | some _ =>
      let (s1, os, _) := closeConnection s false
      ({ s1 with res := some .illegalState }, [.header, .open_] ++ os, false)
    | none =>
      let (s1, os, _) := closeConnection s false
      ({ s1 with res := some .transport }, [.header, .open_] ++ os, false)

end Amqp.Conn
