/-
  Output-handle / channel allocation (C11, C17): model of `slab::Slab`
  (`vacant_entry().key()`, `insert`, `try_remove`) as used by
  `Session::{allocate_link, deallocate_link}` (session/mod.rs) and
  `Connection::{allocate_session, deallocate_session}` (connection/mod.rs),
  together with the link-name table.
-/
namespace Amqp.Handles

/-- `slab::Slab<String>`: live entries, LIFO stack of vacated keys, number of slots ever used -/
structure Slab where
  live : List (Nat × String)
  free : List Nat
  len : Nat
deriving Repr, DecidableEq

def Slab.empty : Slab := { live := [], free := [], len := 0 }

/-- `vacant_entry().key()` -/
def Slab.vacantKey (s : Slab) : Nat :=
  match s.free with
  | k :: _ => k
  | [] => s.len

/-- `VacantEntry::insert` -/
def Slab.insert (s : Slab) (v : String) : Slab × Nat :=
  match s.free with
  | k :: rest => ({ s with live := (k, v) :: s.live, free := rest }, k)
  | [] => ({ s with live := (s.len, v) :: s.live, len := s.len + 1 }, s.len)

/-- `try_remove` -/
def Slab.remove (s : Slab) (k : Nat) : Slab × Option String :=
  match s.live.find? (·.1 == k) with
  | some (_, v) => ({ s with live := s.live.filter (·.1 != k), free := k :: s.free }, some v)
  | none => (s, none)

/-- the session's view: slab of link names by output handle + the set of names in use -/
structure Links where
  slab : Slab
  names : List String
deriving Repr, DecidableEq

def Links.empty : Links := { slab := Slab.empty, names := [] }

inductive Res where
  | handle (h : Nat)
  | duplicateName
  | freed
  | unknown
deriving Repr, DecidableEq

/-- `allocate_link` (state check omitted: the session is mapped) -/
def allocate (l : Links) (name : String) : Links × Res :=
  if l.names.contains name then (l, .duplicateName)
  else
    let (s, k) := l.slab.insert name
    ({ slab := s, names := name :: l.names }, .handle k)

/-- `deallocate_link` (called by `on_outgoing_detach`) -/
def deallocate (l : Links) (h : Nat) : Links × Res :=
  match l.slab.remove h with
  | (s, some name) => ({ slab := s, names := l.names.filter (· != name) }, .freed)
  | (_, none) => (l, .unknown)

inductive Op where
  | alloc (name : String)
  | free (h : Nat)
deriving Repr, DecidableEq

def step (l : Links) : Op → Links × Res
  | .alloc n => allocate l n
  | .free h => deallocate l h

def run (l : Links) : List Op → Links × List Res
  | [] => (l, [])
  | op :: ops =>
    let (l1, r) := step l op
    let (l2, rs) := run l1 ops
    (l2, r :: rs)

end Amqp.Handles
