/-
  Negotiated limits (C17): channel allocation under the agreed channel-max
  (`Connection::allocate_session`, a slab bounded by `min(local, remote)`), and the heartbeat
  schedule derived from the peer's idle-time-out (`ConnectionEngine::open_inner`,
  `HeartBeat`: a tokio interval — first tick at once, then one per period).
-/
import Amqp.Handles
import Amqp.Gen.LimitsKernels

namespace Amqp.Limits
open Amqp.Handles Amqp.Gen.Limits

/-- channel-max both sides can live with -/
def agreed (localMax remoteMax : Nat) : Nat := on_incoming_open.assign_agreed_channel_max_0 remoteMax localMax

inductive AllocRes where
  | channel (ch : Nat)
  | maxReached
deriving Repr, DecidableEq

/-- `allocate_session`: the slab's vacant key, refused if above the agreed channel-max -/
def allocate (s : Slab) (bound : Nat) : Slab × AllocRes :=
  let k := s.vacantKey
  if allocate_session.cond_if_0 k bound then (s, .maxReached)
  else ((s.insert "").1, .channel k)

def free (s : Slab) (ch : Nat) : Slab := (s.remove ch).1

inductive Op where
  | alloc
  | free (ch : Nat)
deriving Repr

def step (bound : Nat) (s : Slab) : Op → Slab × Option AllocRes
  | .alloc => let (s1, r) := allocate s bound; (s1, some r)
  | .free ch => (free s ch, none)

def run (bound : Nat) (s : Slab) : List Op → Slab × List (Option AllocRes)
  | [] => (s, [])
  | op :: ops =>
    let (s1, r) := step bound s op
    let (s2, rs) := run bound s1 ops
    (s2, r :: rs)

/-- period of the heartbeat, in microseconds, for a peer that advertised `idle` ms (`none`: no heartbeat) -/
def heartbeatPeriod (idle : Nat) : Option Nat :=
  if idle = 0 then none else some (open_inner.let_period_0 idle)

/-- instants (µs after the open) at which the idle client writes an empty frame, up to `horizon` -/
def beats (period horizon : Nat) : List Nat :=
  (List.range (horizon / period + 1)).map (· * period)

end Amqp.Limits
