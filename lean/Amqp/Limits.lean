/-
  Negotiated limits (C17): channel allocation under the agreed channel-max
  (`Connection::allocate_session`, a slab bounded by `min(local, remote)`), and the heartbeat
  schedule derived from the peer's idle-time-out (`ConnectionEngine::open_inner`,
  `HeartBeat`: a tokio interval — first tick at once, then one per period).
-/
import Amqp.Handles
import Amqp.Gen.LimitsKernels

namespace Amqp.Limits
open Amqp.Handles Amqp.Gen.Limits

/-- channel-max both sides can live with -/
def agreed (localMax remoteMax : Nat) : Nat := on_incoming_open.assign_agreed_channel_max_0 remoteMax localMax

inductive AllocRes where
  | channel (ch : Nat)
  | maxReached
deriving Repr, DecidableEq

/-- `allocate_session`: the slab's vacant key, refused if above the agreed channel-max -/
def allocate (s : Slab) (bound : Nat) : Slab × AllocRes :=
  let k := s.vacantKey
  if allocate_session.cond_if_0 (outgoing_channel := k) (self_agreed_channel_max := bound) then (s, .maxReached)
  else ((s.insert "").1, .channel k)

def free (s : Slab) (ch : Nat) : Slab := (s.remove ch).1

inductive Op where
  | alloc
  | free (ch : Nat)
deriving Repr

def step (bound : Nat) (s : Slab) : Op → Slab × Option AllocRes
  | .alloc => let (s1, r) := allocate s bound; (s1, some r)
  | .free ch => (free s ch, none)

def run (bound : Nat) (s : Slab) : List Op → Slab × List (Option AllocRes)
  | [] => (s, [])
  | op :: ops =>
    let (s1, r) := step bound s op
    let (s2, rs) := run bound s1 ops
    (s2, r :: rs)

/-- period of the heartbeat, in microseconds, for a peer that advertised `idle` ms (`none`: no heartbeat) -/
def heartbeatPeriod (idle : Nat) : Option Nat :=
  if idle = 0 then none else some (open_inner.let_period_0 idle)

/-- instants (µs after the open) at which the idle client writes an empty frame, up to `horizon` -/
def beats (period horizon : Nat) : List Nat :=
  (List.range (horizon / period + 1)).map (· * period)

/-! ## the endpoint's own idle deadline (`Transport::poll_next`) -/

inductive Poll where
  | frame | timeout | pending
deriving Repr, DecidableEq

/-- source facts: the codec is polled before the deadline is looked at, and reading a frame re-arms it -/
def inputFirst : Bool :=
  decide (poll_next_order.idx_framed_read___poll_next < poll_next_order.idx_delay___poll___cx__) &&
  decide (poll_next_order.idx_delay___reset < 1000)

/-- one poll, given whether input is waiting and whether the deadline has passed -/
def poll (inputFirst inputPending deadlinePassed : Bool) : Poll :=
  if inputFirst then (if inputPending then .frame else if deadlinePassed then .timeout else .pending)
  else (if deadlinePassed then .timeout else if inputPending then .frame else .pending)

/-- frames waiting to be read, and the instant at which the deadline falls -/
structure Reader where
  waiting : Nat
  deadline : Nat
deriving Repr

inductive REv where
  /-- a frame arrives from the peer -/
  | arrive
  /-- the engine polls its input at `now` -/
  | pollAt (now : Nat)
deriving Repr

def rstep (ifirst : Bool) (T : Nat) (r : Reader) : REv → Reader × Option Poll
  | .arrive => ({ r with waiting := r.waiting + 1 }, none)
  | .pollAt now =>
    match poll ifirst (decide (0 < r.waiting)) (decide (r.deadline ≤ now)) with
    | .frame => ({ waiting := r.waiting - 1, deadline := now + T }, some .frame)
    | .timeout => (r, some .timeout)
    | .pending => (r, some .pending)

end Amqp.Limits
