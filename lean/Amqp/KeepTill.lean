/-
  Rewinding a delivery under way to a section number and offset (C10): model of
  `IncompleteTransfer::{position_of_section_number_and_offset, keep_buffer_till_section_number_and_offset}`
  (link/incomplete_transfer.rs) and `is_section_header` (link/receiver_link.rs).  A transfer that continues a
  delivery may carry the state `received` (section-number, section-offset): the sender goes on from that point,
  and what the receiver holds beyond it is dropped before the frame's payload is appended.
-/
import Amqp.Gen.ReasmKernels

namespace Amqp.KeepTill

abbrev Bytes := List UInt8

/-- `is_section_header`: a described type whose descriptor is one of the nine section codes -/
def isSectionHeader (b0 b1 b2 : UInt8) : Bool :=
  b0 == 0x00 && (b1 == 0x53 || b1 == 0x80) && decide (0x70 ≤ b2.toNat) && decide (b2.toNat ≤ 0x78)

/-- the loop of `position_of_section_number_and_offset` over the windows of three bytes -/
def posLoop : Bytes → Nat → Nat → Nat → Nat → Nat → Option Nat
  | b0 :: b1 :: b2 :: rest, i, cn, co, n, o =>
    let co1 := co + 1
    let cn2 := if isSectionHeader b0 b1 b2 then cn + 1 else cn
    let co2 := if isSectionHeader b0 b1 b2 then 0 else co1
    if cn2 = n ∧ co2 = o then some i else posLoop (b1 :: b2 :: rest) (i + 1) cn2 co2 n o
  | _, _, _, _, _, _ => none

/-- `position_of_section_number_and_offset` (the byte iterator over the chunks yields their concatenation:
    `Amqp.Chunks.byte_iterator_is_the_concatenation`) -/
def position (buf : List Bytes) (n o : Nat) : Option Nat := posLoop buf.flatten 0 0 0 n o

/-- source facts: once the chunk that holds the position has been cut, the chunks after it are emptied, and
    nothing else is done to the list -/
def keepShape : Bool :=
  open Amqp.Gen.ReasmK.keep_order in
  decide (idx_if_found__ < idx_chunk___clear____) &&
  decide (idx_chunk___clear____ < idx___else_if_chunk___len_______index__) &&
  decide (idx___else_if_chunk___len_______index__ < idx_index_____chunk___len____) &&
  decide (idx_index_____chunk___len____ < idx_chunk___split_off___index__) &&
  decide (idx_chunk___split_off___index__ < idx_found___true) &&
  decide (idx_found___true < 1000) &&
  decide (idx_remove = 1000) && decide (idx_truncate = 1000) && decide (idx_push = 1000) &&
  decide (idx_drain = 1000) && decide (idx_retain = 1000)

/-- the loop of `keep_buffer_till_section_number_and_offset` -/
def keepLoop : List Bytes → Nat → Bool → List Bytes
  | [], _, _ => []
  | c :: cs, index, found =>
    if found then (if keepShape then [] else c.take index) :: keepLoop cs index true
    else if c.length < index then c :: keepLoop cs (index - c.length) false
    else c.take index :: keepLoop cs index true

/-- `keep_buffer_till_section_number_and_offset` -/
def keepTill (buf : List Bytes) (n o : Nat) : List Bytes :=
  match position buf n o with
  | some index => keepLoop buf index false
  | none => buf

/-- what the loop did before the fix: every chunk after the one that holds the position was cut at the same
    index instead of being emptied -/
def keepLoopOld : List Bytes → Nat → List Bytes
  | [], _ => []
  | c :: cs, index => if c.length < index then c :: keepLoopOld cs (index - c.length) else c.take index :: keepLoopOld cs index

end Amqp.KeepTill
