/-
  Routing of incoming link frames (C11): model of the three tables of `session::Session`
  (session/mod.rs) —

    link_name_by_output_handle : Slab<String>                        (our handles)
    link_by_name               : HashMap<String, Option<LinkRelay>>  (Some = waits for the peer's attach)
    link_by_input_handle       : HashMap<InputHandle, LinkRelay>     (the peer's handles)

  and of `allocate_link`, `deallocate_link`, `on_incoming_attach`, `on_incoming_detach` and the lookup
  every other link frame goes through (`on_incoming_transfer`, `on_incoming_flow`, …).  A link endpoint
  is identified by a number that is never reused (`lid`: the relay is a channel to that endpoint; the
  output handle, which IS reused, is carried along).  Hash maps are association lists in which a key
  occurs at most once.
-/
import Amqp.Handles
import Amqp.Gen.RoutingKernels

namespace Amqp.Routing
open Amqp.Handles

/-- a relay: the endpoint it leads to and the output handle it was given -/
structure Relay where
  lid : Nat
  out : Nat
deriving Repr, DecidableEq

structure Tab where
  slab : Slab
  byName : List (String × Option Relay)
  byIn : List (Nat × Relay)
  /-- next endpoint number -/
  next : Nat
deriving Repr, DecidableEq

def Tab.empty : Tab := { slab := Slab.empty, byName := [], byIn := [], next := 0 }

/-- `HashMap::insert` -/
def put {β : Type} (k : Nat) (v : β) (m : List (Nat × β)) : List (Nat × β) :=
  (k, v) :: m.filter (·.1 != k)

/-- `HashMap::get` -/
def get {β : Type} (k : Nat) (m : List (Nat × β)) : Option β :=
  (m.find? (·.1 == k)).map (·.2)

/-- `HashMap::remove` -/
def del {β : Type} (k : Nat) (m : List (Nat × β)) : List (Nat × β) :=
  m.filter (·.1 != k)

def getName (n : String) (m : List (String × Option Relay)) : Option (Option Relay) :=
  (m.find? (·.1 == n)).map (·.2)

def putName (n : String) (v : Option Relay) (m : List (String × Option Relay)) : List (String × Option Relay) :=
  (n, v) :: m.filter (·.1 != n)

inductive Op where
  /-- a local endpoint attaches under this name -/
  | alloc (name : String)
  /-- the peer's attach: link name and the handle the peer chose -/
  | inAttach (name : String) (h : Nat)
  /-- any other link frame of the peer (transfer, flow, …) on this handle -/
  | inFrame (h : Nat)
  /-- the peer's detach -/
  | inDetach (h : Nat)
  /-- our detach goes out: `deallocate_link(output handle)` -/
  | dealloc (out : Nat)
deriving Repr, DecidableEq

inductive Out where
  /-- `allocate_link`: endpoint number and output handle -/
  | allocated (lid out : Nat)
  | duplicateName
  /-- the frame was handed to this endpoint -/
  | to (lid : Nat)
  | handleInUse
  | nameNotFound
  | unattached
  | done
deriving Repr, DecidableEq

def step (t : Tab) : Op → Tab × Out
  | .alloc name =>
    match getName name t.byName with
    | some _ => (t, .duplicateName)
    | none =>
      let (s, k) := t.slab.insert name
      ({ t with slab := s, byName := putName name (some { lid := t.next, out := k }) t.byName, next := t.next + 1 },
       .allocated t.next k)
  | .inAttach name h =>
    match getName name t.byName with
    | some (some r) => ({ t with byName := putName name none t.byName, byIn := put h r t.byIn }, .to r.lid)
    | some none => (t, .handleInUse)
    | none => (t, .nameNotFound)
  | .inFrame h =>
    match get h t.byIn with
    | some r => (t, .to r.lid)
    | none => (t, .unattached)
  | .inDetach h =>
    match get h t.byIn with
    | some r => ({ t with byIn := del h t.byIn }, .to r.lid)
    | none => (t, .unattached)
  | .dealloc k =>
    match t.slab.remove k with
    | (s, some name) => ({ t with slab := s, byName := t.byName.filter (·.1 != name) }, .done)
    | (_, none) => (t, .done)

def run (t : Tab) : List Op → Tab × List Out
  | [] => (t, [])
  | op :: ops =>
    let (t1, o) := step t op
    let (t2, os) := run t1 ops
    (t2, o :: os)

/-! ## the specification: what the peer's handles designate -/

/-- the peer's view: handle ↦ endpoint, set by an attach that was accepted, cleared by its detach -/
abbrev Desig := Nat → Option Nat

def Desig.set (d : Desig) (h : Nat) (lid : Nat) : Desig := fun x => if x = h then some lid else d x
def Desig.clear (d : Desig) (h : Nat) : Desig := fun x => if x = h then none else d x

/-- how an operation and its outcome change what the peer's handles designate -/
def desigStep (d : Desig) : Op → Out → Desig
  | .inAttach _ h, .to lid => d.set h lid
  | .inDetach h, .to _ => d.clear h
  | _, _ => d

/-- source facts (regenerated from session/mod.rs on every run): the statements this model mirrors are
    there, and in this order — `allocate_link` looks the name up before it takes a slot and records the
    name after; `deallocate_link` frees the slot and forgets the name; the peer's attach is looked up by
    name, the waiting relay is TAKEN (so a second attach finds none) and stored under the peer's
    handle; the peer's detach REMOVES the entry of its handle; a transfer is looked up under its handle -/
def sourceShape : Bool :=
  open Amqp.Gen.RoutingK in
  decide (allocate_link_order.idx_link_by_name___contains_key < allocate_link_order.idx_vacant_entry) &&
  decide (allocate_link_order.idx_vacant_entry < allocate_link_order.idx_entry___insert) &&
  decide (allocate_link_order.idx_entry___insert < allocate_link_order.idx_link_by_name___insert) &&
  decide (allocate_link_order.idx_link_by_name___insert < 1000) &&
  decide (deallocate_link_order.idx_link_name_by_output_handle___try_remove < deallocate_link_order.idx_link_by_name___remove) &&
  decide (deallocate_link_order.idx_link_by_name___remove < 1000) &&
  decide (on_incoming_attach_order.idx_link_by_name___get_mut < on_incoming_attach_order.idx_link___take____) &&
  decide (on_incoming_attach_order.idx_link___take____ < on_incoming_attach_order.idx_link_by_input_handle___insert) &&
  decide (on_incoming_attach_order.idx_link_by_input_handle___insert < 1000) &&
  decide (on_incoming_detach_order.idx_link_by_input_handle___remove < 1000) &&
  decide (on_incoming_transfer_order.idx_link_by_input_handle___get_mut < 1000)

end Amqp.Routing
