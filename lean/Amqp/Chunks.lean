/-
  C01 / C10 / C20 — a delivery that arrived in several transfer frames is decoded from the list of the
  frames' payloads, not from one buffer: `Vec<Payload>::into_reader()` puts an `IoReader` on top of
  `ByteReader` (fe2o3-amqp/src/util/mod.rs), whose `io::Read::read` walks the chunks.  This is the model
  of that `read`, of `std::io::Read::read_exact` over it (what the io reader calls), and of the byte
  iterator over the chunks that the receiver uses to find section boundaries.  The conditions and the
  arithmetic of `read` are regenerated from the source (`Amqp.Gen.ChunksK`).
-/
import Amqp.Gen.ChunksKernels

namespace Amqp.Chunks
open Amqp.Gen.ChunksK

abbrev Bytes := List UInt8

/-- result of one pass over the chunks: the bytes copied into the destination, the chunks afterwards,
    and the count the function returns -/
structure Pass where
  copied : Bytes
  chunks : List Bytes
  count : Nat
deriving Repr, DecidableEq

/-- the `for payload in self.inner.iter_mut()` loop of `ByteReader::read` for a destination of `n`
    bytes, entered with `nbytes_read = got` -/
def readLoop (n : Nat) : Nat → List Bytes → Pass
  | got, [] => ⟨[], [], got⟩
  | got, p :: rest =>
    if byte_reader_read.cond_if_0 n got p.length then
      -- `payload.split_to(dst.len() - nbytes_read)`, copy, `nbytes_read = dst.len()`, `break`
      let k := byte_reader_read.arg_split_to_0 n got
      ⟨p.take k, p.drop k :: rest, byte_reader_read.assign_nbytes_read_0 n⟩
    else if byte_reader_read.cond_if_1 n p.length then
      -- the whole chunk is copied and left empty; `nbytes_read += remaining`
      let r := readLoop n (byte_reader_read.assign_nbytes_read_1 got (byte_reader_read.let_remaining_0 p.length)) rest
      ⟨p ++ r.copied, [] :: r.chunks, r.count⟩
    else
      -- neither branch: the chunk is passed over
      let r := readLoop n got rest
      ⟨r.copied, p :: r.chunks, r.count⟩

/-- `ByteReader::read(&mut [0; n])` -/
def read (cs : List Bytes) (n : Nat) : Pass := readLoop n byte_reader_read.let_nbytes_read_0 cs

/-- source shape: one loop over the chunks; the first branch splits, sets the count to the length of the
    destination and leaves the loop; the second adds what it copied -/
def sourceShape : Bool :=
  open byte_reader_read_order in
  decide (idx_for_payload_in_self___inner___iter_mut____ < idx_split_to) &&
  decide (idx_split_to < idx_nbytes_read___dst___len____) &&
  decide (idx_nbytes_read___dst___len____ < idx_break__) &&
  decide (idx_break__ < idx_else_if) &&
  decide (idx_else_if < idx_nbytes_read_____remaining) &&
  decide (idx_nbytes_read_____remaining < 1000)

/-- `std::io::Read::read_exact` (the default method) over `ByteReader::read`: keep reading into what is
    left of the destination until it is full or a read brings nothing (`UnexpectedEof`).
    `none` = the error; fuel = one turn per byte and one more -/
def readExact : Nat → List Bytes → Nat → Option (Bytes × List Bytes)
  | _, cs, 0 => some ([], cs)
  | 0, _, _ + 1 => none
  | fuel + 1, cs, n + 1 =>
    let r := read cs (n + 1)
    if r.count = 0 then none
    else
      match readExact fuel r.chunks (n + 1 - r.count) with
      | none => none
      | some (bs, cs') => some (r.copied.take r.count ++ bs, cs')

/-- `Vec<Payload>::as_byte_iterator()` run forward: the first byte of the first chunk that still has one,
    again and again (`ByteReaderIter::next`) -/
def iterNext : List Bytes → Option (UInt8 × List Bytes)
  | [] => none
  | [] :: rest => (iterNext rest).map (fun (b, r) => (b, [] :: r))
  | (b :: p) :: rest => some (b, p :: rest)

def iterAll : Nat → List Bytes → Bytes
  | 0, _ => []
  | fuel + 1, cs =>
    match iterNext cs with
    | none => []
    | some (b, cs') => b :: iterAll fuel cs'

/-- `ByteReaderIter::len` -/
def iterLen (cs : List Bytes) : Nat := (cs.map List.length).sum

end Amqp.Chunks
