/-
  Semantics given to Rust's fixed-width integer operators when integer
  kernels are translated from /repo (tools/rs2lean).  Values are `Nat`s that
  are assumed to be `< 2^32` (resp. `< 2^16`, `< 2^64`); each operator returns a value in
  range again.  This file is part of the trusted base: it states what
  `wrapping_add`, `saturating_sub`, … mean.
-/
namespace Amqp

def U32.size : Nat := 4294967296
def U16.size : Nat := 65536

@[simp] theorem U32.size_eq : U32.size = 4294967296 := rfl
@[simp] theorem U16.size_eq : U16.size = 65536 := rfl

/-- `u32::wrapping_add` -/
def wadd32 (a b : Nat) : Nat := (a + b) % 4294967296
/-- `u32::wrapping_sub`.  Written without the pattern `(x + 2^32) % 2^32`, whose
    weak-head normalisation by the kernel peels the literal one successor at a
    time; `Theorems/Lemmas/U32.lean` proves `wsub32 a b = (a % 2^32 + 2^32 - b % 2^32) % 2^32`. -/
def wsub32 (a b : Nat) : Nat :=
  if b % 4294967296 ≤ a % 4294967296 then a % 4294967296 - b % 4294967296
  else 4294967296 - (b % 4294967296 - a % 4294967296)
/-- `u32::saturating_add` -/
def sadd32 (a b : Nat) : Nat := if a + b ≥ 4294967296 then 4294967295 else a + b
/-- `u32::saturating_sub` -/
def ssub32 (a b : Nat) : Nat := a - b
/-- `u32::checked_sub` -/
def csub32 (a b : Nat) : Option Nat := if b ≤ a then some (a - b) else none
/-- `u32::checked_add` -/
def cadd32 (a b : Nat) : Option Nat := if a + b < 4294967296 then some (a + b) else none

/-- plain `a - b` on `u32`: the test profile panics on underflow; the model
    truncates at zero and panic-freedom is a separate obligation where it matters -/
def psub32 (a b : Nat) : Nat := a - b
def psub16 (a b : Nat) : Nat := a - b
def psub64 (a b : Nat) : Nat := a - b
def wadd16 (a b : Nat) : Nat := (a + b) % 65536
def sadd16 (a b : Nat) : Nat := if a + b ≥ 65536 then 65535 else a + b
def ssub16 (a b : Nat) : Nat := a - b
def ssub64 (a b : Nat) : Nat := a - b
def sadd64 (a b : Nat) : Nat := if a + b ≥ 18446744073709551616 then 18446744073709551615 else a + b
def csub64 (a b : Nat) : Option Nat := if b ≤ a then some (a - b) else none

/-- serial-number distance from `a` forward to `b` (RFC 1982 on 2^32) -/
def sdist (a b : Nat) : Nat := wsub32 b a

/-- `t` lies in the serial window `[base, base+len)` -/
def inWindow (base len t : Nat) : Prop := sdist base t < len

instance (base len t : Nat) : Decidable (inWindow base len t) := by
  unfold inWindow; infer_instance

end Amqp
