/-
  C19 — the SASL layer: the listener's negotiation loop, the PLAIN and SCRAM acceptors, and the
  client's side of SCRAM.

  Hash, HMAC and PBKDF2 are parameters (`Crypto`): the theorems hold for every choice of
  them, and the correspondence runs instantiate them with tables computed by the harness'
  own implementation.  Everything else (message syntax, base64, state machines, comparisons)
  is modelled as the code has it.
-/
import Amqp.Frame
import Amqp.Gen.SaslTables
import Amqp.Gen.SaslKernels

namespace Amqp.Sasl
open Amqp.Frame (Bytes)
open Amqp.Gen.Sasl (FrameKind OnCode ListenerOnFrame ClientOnFrame listener_on_code listener_on_frame client_on_code client_on_frame)
open Amqp.Gen.SaslK

/-- `SaslCode`, generated from fe2o3-amqp-types -/
abbrev Code := Amqp.Gen.Sasl.Code

/-! ## bytes -/

def str (s : String) : Bytes := s.toUTF8.toList

/-- `slice.split(|b| *b == sep)`: `n` separators give `n + 1` pieces -/
def splitOn (sep : UInt8) : Bytes → List Bytes
  | [] => [[]]
  | b :: bs =>
    if b = sep then [] :: splitOn sep bs
    else match splitOn sep bs with
      | [] => [[b]]
      | p :: ps => (b :: p) :: ps

def stripPrefix (p : Bytes) (s : Bytes) : Option Bytes :=
  if s.take p.length = p then some (s.drop p.length) else none

def startsWith (s p : Bytes) : Bool := s.take p.length = p

/-- pieces joined by `sep` -/
def joinWith (sep : UInt8) : List Bytes → Bytes
  | [] => []
  | [p] => p
  | p :: ps => p ++ sep :: joinWith sep ps

/-! ### base64 (RFC 4648 standard alphabet, canonical padding required, no stray bits) -/

def b64Char (n : Nat) : UInt8 :=
  if n < 26 then (65 + n).toUInt8 else if n < 52 then (97 + (n - 26)).toUInt8
  else if n < 62 then (48 + (n - 52)).toUInt8 else if n = 62 then 43 else 47

def b64Val (c : UInt8) : Option Nat :=
  let n := c.toNat
  if 65 ≤ n ∧ n ≤ 90 then some (n - 65) else if 97 ≤ n ∧ n ≤ 122 then some (n - 97 + 26)
  else if 48 ≤ n ∧ n ≤ 57 then some (n - 48 + 52) else if n = 43 then some 62 else if n = 47 then some 63 else none

def b64Encode : Bytes → Bytes
  | [] => []
  | [a] => [b64Char (a.toNat / 4), b64Char (a.toNat % 4 * 16), 61, 61]
  | [a, b] => [b64Char (a.toNat / 4), b64Char (a.toNat % 4 * 16 + b.toNat / 16), b64Char (b.toNat % 16 * 4), 61]
  | a :: b :: c :: rest =>
    b64Char (a.toNat / 4) :: b64Char (a.toNat % 4 * 16 + b.toNat / 16) :: b64Char (b.toNat % 16 * 4 + c.toNat / 64) ::
      b64Char (c.toNat % 64) :: b64Encode rest

def b64Decode : Bytes → Option Bytes
  | [] => some []
  | [a, b, 61, 61] => do
    let x ← b64Val a; let y ← b64Val b
    if y % 16 = 0 then some [(x * 4 + y / 16).toUInt8] else none
  | [a, b, c, 61] => do
    let x ← b64Val a; let y ← b64Val b; let z ← b64Val c
    if z % 4 = 0 then some [(x * 4 + y / 16).toUInt8, (y % 16 * 16 + z / 4).toUInt8] else none
  | a :: b :: c :: d :: rest => do
    let x ← b64Val a; let y ← b64Val b; let z ← b64Val c; let w ← b64Val d
    let tail ← b64Decode rest
    some ((x * 4 + y / 16).toUInt8 :: (y % 16 * 16 + z / 4).toUInt8 :: (z % 4 * 64 + w).toUInt8 :: tail)
  | _ => none

/-! ### UTF-8 well-formedness (`std::str::from_utf8`) -/

def isCont (b : UInt8) : Bool := 0x80 ≤ b.toNat && b.toNat ≤ 0xBF

def validUtf8 : Bytes → Bool
  | [] => true
  | b :: rest =>
    let n := b.toNat
    if n < 0x80 then validUtf8 rest
    else if 0xC2 ≤ n ∧ n ≤ 0xDF then
      match rest with
      | c :: r => isCont c && validUtf8 r
      | _ => false
    else if 0xE0 ≤ n ∧ n ≤ 0xEF then
      match rest with
      | c :: d :: r =>
        let lo := if n = 0xE0 then 0xA0 else 0x80
        let hi := if n = 0xED then 0x9F else 0xBF
        (lo ≤ c.toNat && c.toNat ≤ hi) && isCont d && validUtf8 r
      | _ => false
    else if 0xF0 ≤ n ∧ n ≤ 0xF4 then
      match rest with
      | c :: d :: e :: r =>
        let lo := if n = 0xF0 then 0x90 else 0x80
        let hi := if n = 0xF4 then 0x8F else 0xBF
        (lo ≤ c.toNat && c.toNat ≤ hi) && isCont d && isCont e && validUtf8 r
      | _ => false
    else false
termination_by b => b.length
decreasing_by all_goals simp_wf <;> omega

/-- decimal digits of a `u32` (`str::parse::<u32>`: optional `+`, digits only, no overflow) -/
def parseU32 (s : Bytes) : Option Nat :=
  let ds := match s with
    | 43 :: r => r
    | r => r
  if ds.isEmpty then none
  else if ds.all (fun c => 48 ≤ c.toNat && c.toNat ≤ 57) then
    let v := ds.foldl (fun acc c => acc * 10 + (c.toNat - 48)) 0
    if v < 4294967296 then some v else none
  else none

def xorBytes (a b : Bytes) : Option Bytes :=
  if a.length = b.length then some (List.zipWith (fun x y => x ^^^ y) a b) else none

/-! ## PLAIN (`SaslPlainMechanism`) -/

/-- `validate_init`: the response is `[authzid] NUL authcid NUL passwd` -/
def plainValidate (user pass : Bytes) (resp : Option Bytes) : Code :=
  match resp with
  | none => .auth
  | some r =>
    match splitOn 0 r with
    | [_authzid, authcid, passwd] => if validate_credential.cond_if_0 authcid passwd pass user then .ok else .auth
    | _ => .auth

/-! ## what an acceptor answers -/

inductive ServerFrame where
  | challenge (c : Bytes)
  | outcome (code : Code) (extra : Option Bytes)
deriving DecidableEq, Repr

structure Acceptor (σ : Type) where
  onInit : σ → Bytes → Option Bytes → σ × ServerFrame
  onResponse : σ → Bytes → σ × ServerFrame

def plainAcceptor (user pass : Bytes) : Acceptor Unit where
  onInit := fun _ _mech resp => ((), .outcome (plainValidate user pass resp) none)
  onResponse := fun _ _ => ((), .outcome .sys none)

def anonymousAcceptor : Acceptor Unit where
  onInit := fun _ _ _ => ((), .outcome .ok none)
  onResponse := fun _ _ => ((), .outcome .ok none)

/-! ## the listener's loop (`negotiate_sasl_with_framed`) -/

inductive ClientFrame where
  | init (mech : Bytes) (resp : Option Bytes)
  | response (r : Bytes)
  /-- a SASL frame only a server sends: mechanisms, challenge, outcome -/
  | other (k : FrameKind)
deriving DecidableEq, Repr

def ClientFrame.kind : ClientFrame → FrameKind
  | .init _ _ => .init
  | .response _ => .response
  | .other k => k

inductive In where
  | frame (f : ClientFrame)
  /-- something that is not a SASL frame: an AMQP frame, an undecodable body, a frame over 512 bytes -/
  | bad
  | eof
deriving DecidableEq, Repr

inductive Hdr where
  | sasl | amqp | other
deriving DecidableEq, Repr

inductive Verdict where
  /-- the SASL layer is done and the AMQP header exchange begins -/
  | passed
  | failedCode (c : Code)
  | failedIo
  | failedHeader
deriving DecidableEq, Repr

/-- the acceptor is asked, or the frame is refused (`none`), as the generated table of the loop's
    `match` on the frame has it -/
def listenAsk {σ : Type} (acc : Acceptor σ) (s : σ) (f : ClientFrame) : Option (σ × ServerFrame) :=
  match f, listener_on_frame f.kind with
  | .init m r, .askInit => some (acc.onInit s m r)
  | .response r, .askResponse => some (acc.onResponse s r)
  | _, _ => none

def listenLoop {σ : Type} (acc : Acceptor σ) : σ → List In → List ServerFrame × Verdict
  | _, [] => ([], .failedIo)
  | _, .eof :: _ => ([], .failedIo)
  | _, .bad :: _ => ([], .failedIo)
  | s, .frame f :: rest =>
    match listenAsk acc s f with
    | none => ([.outcome .sys none], .failedCode .sys)
    | some (s', .challenge c) => let (out, v) := listenLoop acc s' rest; (.challenge c :: out, v)
    | some (_, .outcome code x) =>
      -- the outcome is written, then the generated table of `match code` decides
      match listener_on_code code with
      | .proceeds => ([.outcome code x], .passed)
      | .fails => ([.outcome code x], .failedCode code)

/-- the whole SASL layer of the listener: header first -/
def listen {σ : Type} (acc : Acceptor σ) (s : σ) (h : Hdr) (ins : List In) : List ServerFrame × Verdict :=
  match h with
  | .sasl => listenLoop acc s ins
  | _ => ([], .failedHeader)

/-! ## SCRAM -/

structure Crypto where
  /-- `HMAC(key, message)` -/
  hmac : Bytes → Bytes → Bytes
  /-- `H(message)` -/
  h : Bytes → Bytes
  /-- `Hi(Normalize(password), salt, i)`; `none` = SASLprep or PBKDF2 refused -/
  hi : Bytes → Bytes → Nat → Option Bytes

structure Stored where
  salt : Bytes
  iterations : Nat
  storedKey : Bytes
  serverKey : Bytes
deriving DecidableEq, Repr

def comma : UInt8 := 44

def authMessage (clientFirstBare serverFirst clientFinalWithoutProof : Bytes) : Bytes :=
  clientFirstBare ++ comma :: serverFirst ++ comma :: clientFinalWithoutProof

/-! ### server (`ScramAuthenticator`) -/

inductive SrvState where
  | initial
  | firstSent (user clientFirstBare nonce serverFirst : Bytes)
  | finalSent
deriving DecidableEq, Repr

def natDigits (n : Nat) : Bytes := (toString n).toUTF8.toList

/-- `ScramVersion::compute_server_first_message`; `none` = refused (any reason) -/
def serverFirst (creds : Bytes → Option Stored) (serverNonceB64 : Bytes) (clientFirst : Bytes) :
    Option (Bytes × Bytes × Bytes × Bytes) :=
  if !validUtf8 clientFirst then none else
  match stripPrefix (str "n,,") clientFirst with
  | none => none
  | some bare =>
    let parts := splitOn comma bare
    match parts.head? >>= stripPrefix (str "n="), parts[1]? >>= stripPrefix (str "r=") with
    | some user, some cnonce =>
      match creds user with
      | none => none
      | some st =>
        let nonce := cnonce ++ serverNonceB64
        let msg := str "r=" ++ nonce ++ comma :: str "s=" ++ b64Encode st.salt ++ comma :: str "i=" ++ natDigits st.iterations
        some (user, bare, nonce, msg)
    | _, _ => none

/-- `ScramVersion::compute_server_final_message`: `some v` = the proof verified and `v` is the
    server-final message -/
def serverFinal (cr : Crypto) (clientFinal nonce clientFirstBare serverFirstMsg : Bytes) (st : Stored) : Option Bytes :=
  if !validUtf8 clientFinal then none else
  let parts := splitOn comma clientFinal
  match parts.head? >>= stripPrefix (str "c=") with
  | none => none
  | some cb =>
    if b64Decode cb ≠ some (str "n,,") then none else
    match parts[1]? >>= stripPrefix (str "r=") with
    | none => none
    | some n =>
      if n ≠ nonce then none else
      match parts.getLast? >>= stripPrefix (str "p=") with
      | none => none
      | some proofB64 =>
        let woLen := clientFinal.length - (proofB64.length + 2 + 1)
        let auth := authMessage clientFirstBare serverFirstMsg (clientFinal.take woLen)
        let clientSig := cr.hmac st.storedKey auth
        match b64Decode proofB64 with
        | none => none
        | some proof =>
          match xorBytes proof clientSig with
          | none => none
          | some clientKey =>
            if cr.h clientKey ≠ st.storedKey then none
            else some (str "v=" ++ b64Encode (cr.hmac st.serverKey auth))

/-- the SCRAM acceptor: `mech` is the mechanism it offers, `nonces` supplies the server nonce of
    each init (base64 of 32 random bytes in the code) -/
def scramOnInit (mech : Bytes) (creds : Bytes → Option Stored) (serverNonceB64 : Bytes)
    (_s : SrvState) (m : Bytes) (resp : Option Bytes) : SrvState × ServerFrame :=
  if m ≠ mech then (_s, .outcome .auth none) else
  match resp with
  | none => (_s, .outcome .auth none)
  | some cf =>
    match serverFirst creds serverNonceB64 cf with
    | none => (_s, .outcome .auth none)
    | some (user, bare, nonce, msg) => (.firstSent user bare nonce msg, .challenge msg)

def scramOnResponse (cr : Crypto) (creds : Bytes → Option Stored) (s : SrvState) (r : Bytes) : SrvState × ServerFrame :=
  match s with
  | .firstSent user bare nonce msg =>
    match creds user with
    | none => (s, .outcome .auth none)
    | some st =>
      match serverFinal cr r nonce bare msg st with
      | some v => (.finalSent, .outcome .ok (some v))
      | none => (s, .outcome .auth none)
  | _ => (s, .outcome .auth none)

/-- the acceptor with one server nonce per connection attempt (each `on_init` draws a fresh one;
    the state carries the ones still to be used) -/
def scramAcceptor (cr : Crypto) (mech : Bytes) (creds : Bytes → Option Stored) : Acceptor (SrvState × List Bytes) where
  onInit := fun (s, nonces) m resp =>
    let (s', f) := scramOnInit mech creds (nonces.headD []) s m resp
    ((s', nonces.tail), f)
  onResponse := fun (s, nonces) r =>
    let (s', f) := scramOnResponse cr creds s r
    ((s', nonces), f)

/-! ### client (`ScramClient`, `SaslProfile::on_frame`, `Builder::negotiate_sasl`) -/

inductive CliState where
  | initial
  | firstSent (nonce clientFirstBare : Bytes)
  | finalSent (serverSignature : Bytes)
  | complete
deriving DecidableEq, Repr

/-- `client_first_message`: (message, bare) -/
def clientFirst (user nonce : Bytes) : Bytes × Bytes :=
  let bare := str "n=" ++ user ++ comma :: str "r=" ++ nonce
  (str "n,," ++ bare, bare)

/-- `ScramVersion::compute_client_final_message`: (client-final, expected server signature) -/
def clientFinal (cr : Crypto) (clientNonce password serverFirstMsg clientFirstBare : Bytes) : Option (Bytes × Bytes) :=
  let parts := splitOn comma serverFirstMsg
  if parts.length < 3 then none
  else if startsWith (parts.headD []) (str "m=") then none
  else
    match stripPrefix (str "r=") (parts.headD []) with
    | none => none
    | some nonce =>
      if !startsWith nonce clientNonce then none else
      match (parts[1]? >>= stripPrefix (str "s=")) >>= b64Decode with
      | none => none
      | some salt =>
        match (parts[2]? >>= stripPrefix (str "i=")) >>= parseU32 with
        | none => none
        | some iters =>
          match cr.hi password salt iters with
          | none => none
          | some salted =>
            let withoutProof := str "c=biws,r=" ++ nonce
            let auth := authMessage clientFirstBare serverFirstMsg withoutProof
            let clientKey := cr.hmac salted (str "Client Key")
            let clientSig := cr.hmac (cr.h clientKey) auth
            match xorBytes clientKey clientSig with
            | none => none
            | some proof =>
              let final := withoutProof ++ comma :: str "p=" ++ b64Encode proof
              let serverSig := cr.hmac (cr.hmac salted (str "Server Key")) auth
              some (final, serverSig)

/-- `validate_server_final` -/
def validServerFinal (serverFinalMsg expectedSig : Bytes) : Bool :=
  validUtf8 serverFinalMsg &&
  match (splitOn comma serverFinalMsg).head? >>= stripPrefix (str "v=") with
  | none => false
  | some sig => b64Decode sig == some expectedSig

/-- frames a server sends -/
inductive SrvFrame where
  | mechanisms (ms : List Bytes)
  | challenge (c : Bytes)
  | outcome (code : Code) (extra : Option Bytes)
  /-- init / response: not for a client -/
  | other (k : FrameKind)
deriving DecidableEq, Repr

def SrvFrame.kind : SrvFrame → FrameKind
  | .mechanisms _ => .mechanisms
  | .challenge _ => .challenge
  | .outcome _ _ => .outcome
  | .other k => k

inductive SrvIn where
  | frame (f : SrvFrame)
  | bad
  | eof
deriving DecidableEq, Repr

inductive CliVerdict where
  | authenticated
  | refused (c : Code)
  | error
deriving DecidableEq, Repr

inductive CliOut where
  | init (mech : Bytes) (resp : Option Bytes)
  | response (r : Bytes)
deriving DecidableEq, Repr

inductive CliStepRes where
  /-- a frame was answered; the exchange goes on -/
  | cont (s : CliState) (nonces : List Bytes) (out : CliOut)
  /-- `negotiate_sasl` returns -/
  | done (v : CliVerdict)
deriving DecidableEq, Repr

/-- one frame from the server, as `SaslProfile::on_frame` and the loop around it treat it (SCRAM
    profile with mechanism name `mech`; `nonces` = the client nonces still to be drawn, one per
    Mechanisms frame) -/
def scramCliStep (cr : Crypto) (mech user password : Bytes) (s : CliState) (nonces : List Bytes) : SrvIn → CliStepRes
  | .eof => .done .error
  | .bad => .done .error
  | .frame f =>
    match f, client_on_frame f.kind with
    | .mechanisms ms, .sendInit =>
      if ms.contains mech then
        let nonce := nonces.headD []
        .cont (.firstSent nonce (clientFirst user nonce).2) nonces.tail (.init mech (some (clientFirst user nonce).1))
      else .done .error
    | .challenge c, .answerChallenge =>
      if !validUtf8 c then .done .error else
      match s with
      | .firstSent nonce bare =>
        match clientFinal cr nonce password c bare with
        | none => .done .error
        | some (final, sig) => .cont (.finalSent sig) nonces (.response final)
      | _ => .done .error
    | .outcome code extra, .takeOutcome =>
      -- `on_frame` checks the server-final of an outcome `ok`; then the loop's `match outcome.code`
      if code == .ok && !(match extra, s with
          | some sf, .finalSent sig => validServerFinal sf sig
          | _, _ => false) then .done .error
      else match client_on_code code with
        | .proceeds => .done .authenticated
        | .fails => .done (.refused code)
    | _, _ => .done .error

/-- `Builder::negotiate_sasl` with a SCRAM profile -/
def scramClientLoop (cr : Crypto) (mech user password : Bytes) :
    CliState → List Bytes → List SrvIn → List CliOut × CliVerdict
  | _, _, [] => ([], .error)
  | s, nonces, i :: rest =>
    match scramCliStep cr mech user password s nonces i with
    | .done v => ([], v)
    | .cont s' nonces' o =>
      let (out, v) := scramClientLoop cr mech user password s' nonces' rest
      (o :: out, v)

/-- PLAIN / ANONYMOUS / EXTERNAL on the client: no challenge is answered -/
def simpleClientLoop (mech : Bytes) (resp : Option Bytes) : List SrvIn → List CliOut × CliVerdict
  | [] => ([], .error)
  | .eof :: _ => ([], .error)
  | .bad :: _ => ([], .error)
  | .frame f :: rest =>
    match f, client_on_frame f.kind with
    | .mechanisms ms, .sendInit =>
      if ms.contains mech then
        let (out, v) := simpleClientLoop mech resp rest
        (.init mech resp :: out, v)
      else ([], .error)
    | .outcome code _, .takeOutcome =>
      match client_on_code code with
      | .proceeds => ([], .authenticated)
      | .fails => ([], .refused code)
    | _, _ => ([], .error)

end Amqp.Sasl
