/-
  Link detach handshake (C13): model of `detach_with_error` / `close_with_error`
  (link/shared_inner.rs) for an attached link, on top of the `LinkState` tables generated from
  link/mod.rs.  The two paths in which the two sides ask for different things at the same
  moment (a close crossing a non-closing detach) go on to `reattach_and_then_close`, which is
  not modelled (recorded finding); they are reported as `mismatch`.
-/
import Amqp.Gen.Fsm

namespace Amqp.LinkLife
open Amqp.Gen.Fsm

inductive Req where
  | detach | close
deriving Repr, DecidableEq

structure PeerDetach where
  closed : Bool
  withError : Bool
deriving Repr, DecidableEq

inductive Res where
  | ok
  /-- the error the peer attached to its detach -/
  | remoteError
  | closedByRemote
  | illegalState
  /-- continues with re-attach-then-close -/
  | mismatch
deriving Repr, DecidableEq

structure Outcome where
  /-- the detach frames written, by their `closed` flag -/
  sent : List Bool
  state : LState
  res : Res
deriving Repr, DecidableEq

def onIncomingDetach (s : LState) (p : PeerDetach) : Option LState :=
  if p.closed then Link.on_incoming_detach_closed s else Link.on_incoming_detach_not_closed s

/-- a call on an attached link.  `pending`: a detach of the peer that is already in the link's
    queue when the call is made; `answer`: the peer's answer to the detach the call sends. -/
def call (req : Req) (pending : Option PeerDetach) (answer : PeerDetach) : Outcome :=
  let s0 := LState.attached
  match pending with
  | some p =>
    match onIncomingDetach s0 p with
    | none => { sent := [], state := s0, res := .illegalState }
    | some s1 =>
      match req with
      | .detach =>
        match Link.send_detach s1 p.closed with
        | none => { sent := [], state := s1, res := .illegalState }
        | some s2 =>
          { sent := [p.closed], state := s2,
            res := if p.withError then .remoteError else if p.closed then .closedByRemote else .ok }
      | .close =>
        if p.closed then
          match Link.send_detach s1 true with
          | none => { sent := [], state := s1, res := .illegalState }
          | some s2 => { sent := [true], state := s2, res := if p.withError then .remoteError else .ok }
        else
          match Link.send_detach s1 false with
          | none => { sent := [], state := s1, res := .illegalState }
          | some s2 => { sent := [false], state := s2, res := if p.withError then .remoteError else .mismatch }
  | none =>
    let wantClosed := decide (req = .close)
    match Link.send_detach s0 wantClosed with
    | none => { sent := [], state := s0, res := .illegalState }
    | some s1 =>
      if answer.closed = wantClosed then
        match onIncomingDetach s1 answer with
        | none => { sent := [wantClosed], state := s1, res := .illegalState }
        | some s2 => { sent := [wantClosed], state := s2, res := if answer.withError then .remoteError else .ok }
      else { sent := [wantClosed], state := s1, res := .mismatch }

end Amqp.LinkLife
