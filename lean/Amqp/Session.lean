/-
  Session flow control (C07): model of `fe2o3-amqp/src/session/mod.rs`
  `on_outgoing_transfer(_inner)`, `on_incoming_flow(_inner)`,
  `prepare_session_frames_from_buffered_*`, `on_incoming_transfer`,
  `maybe_outgoing_session_flow`, `on_incoming_begin`, `on_outgoing_flow`.

  All arithmetic and all branch conditions are *generated* from the source
  (`Amqp.Gen.Session`); this file supplies the control flow, which is tied to
  the implementation by the correspondence harness (`harness/src/bin/session.rs`).
-/
import Amqp.U32
import Amqp.Gen.SessionKernels

namespace Amqp.Session
open Amqp Amqp.Gen.Session

/-- a transfer frame handed to the session by a link (`LinkFrame::Transfer`) -/
structure Xfer where
  /-- identity of the frame (stands for handle + payload); ghost -/
  uid : Nat
  /-- `transfer.delivery_tag.is_some()`: first frame of a delivery as seen by the session -/
  hasTag : Bool
  /-- `transfer.settled` -/
  settled : Option Bool
deriving Repr, DecidableEq

structure St where
  noi : Nat                 -- next_outgoing_id
  riw : Nat                 -- remote_incoming_window
  nii : Nat                 -- next_incoming_id
  row : Nat                 -- remote_outgoing_window
  nfc : Nat                 -- need_flow_count
  initOid : Nat             -- initial_outgoing_id
  iw : Nat                  -- incoming_window (local, constant)
  ow : Nat                  -- outgoing_window (local, constant)
  buf : List Xfer           -- remote_incoming_window_exhausted_buffer
  mapped : Bool             -- local_state == Mapped
deriving Repr, DecidableEq

/-- what the session hands to the connection -/
inductive Out where
  /-- transfer frame with its implicit transfer-id and the stamped delivery-id -/
  | transfer (tid : Nat) (deliveryId : Option Nat) (recordUnsettled : Bool) (x : Xfer)
  /-- flow frame: the four session fields it carries -/
  | flow (nii iw noi ow : Nat) (link : Bool)
deriving Repr, DecidableEq

/-- the peer's flow frame, session part (+ whether the link layer answers with an echo) -/
structure InFlow where
  nif : Option Nat          -- next_incoming_id
  iw : Nat                  -- incoming_window
  noi : Nat                 -- next_outgoing_id
  ow : Nat                  -- outgoing_window
  linkEcho : Bool           -- the link handler returned `Some(LinkFlow)`
deriving Repr, DecidableEq

inductive Op where
  | outXfer (x : Xfer)
  | inFlow (f : InFlow)
  | inXfer
  | inBegin (noi iw ow : Nat)
  | outLinkFlow
deriving Repr, DecidableEq

/-- `on_outgoing_transfer_inner` -/
def sendInner (s : St) (x : Xfer) : St × Out :=
  let did := if x.hasTag then some (on_outgoing_transfer_inner.let_delivery_id_0 s.noi) else none
  let rec_ := x.hasTag && on_outgoing_transfer_inner.cond_if_0 x.settled
  ({ s with
      noi := on_outgoing_transfer_inner.assign_next_outgoing_id_0 s.noi
      riw := on_outgoing_transfer_inner.assign_remote_incoming_window_0 s.riw },
   .transfer s.noi did rec_ x)

/-- `prepare_session_frames_from_buffered_transfers`: the `while` loop, by
    structural recursion on the buffered frames still to be looked at -/
def drainBuf (s : St) : List Xfer → St × List Out
  | [] => ({ s with buf := [] }, [])
  | x :: rest =>
    if prepare_buffered.let_window_open_0 s.riw then
      let (s1, o) := sendInner s x
      let (s2, os) := drainBuf s1 rest
      (s2, o :: os)
    else ({ s with buf := x :: rest }, [])

/-- `on_outgoing_flow`'s session fields -/
def flowOut (s : St) (link : Bool) : Out := .flow s.nii s.iw s.noi s.ow link

/-- `Session::on_outgoing_transfer` -/
def onOutgoingTransfer (s : St) (x : Xfer) : St × List Out :=
  if on_outgoing_transfer.cond_if_0 s.riw then
    ({ s with buf := s.buf ++ [x] }, [])
  else if on_outgoing_transfer.cond_if_1 s.buf.isEmpty then
    let (s1, o) := sendInner s x
    (s1, [o])
  else
    let (s1, os) := drainBuf s s.buf
    if prepare_buffered_and_current.cond_if_0 s1.riw then
      let (s2, o) := sendInner s1 x
      (s2, os ++ [o])
    else ({ s1 with buf := s1.buf ++ [x] }, os)

/-- `on_incoming_flow_inner`: the session counters after a flow -/
def applyFlow (s : St) (f : InFlow) : St :=
  { s with
    nii := on_incoming_flow_inner.assign_next_incoming_id_0 f.noi
    row := on_incoming_flow_inner.assign_remote_outgoing_window_0 f.ow
    riw :=
      match f.nif with
      | some nif => on_incoming_flow_inner.assign_remote_incoming_window_0 f.iw nif s.noi
      | none => on_incoming_flow_inner.assign_remote_incoming_window_1 f.iw s.initOid s.noi }

/-- the link layer's echo flow, stamped by `on_outgoing_flow` before the buffer is drained -/
def echoOut (s : St) (f : InFlow) : List Out :=
  if f.linkEcho then [flowOut s true] else []

/-- `Session::on_incoming_flow` (+ `_inner`) -/
def onIncomingFlow (s : St) (f : InFlow) : St × List Out :=
  let s2 := applyFlow s f
  if on_incoming_flow.cond_if_0 s2.riw s2.buf.isEmpty then
    let (s3, os) := drainBuf s2 s2.buf
    (s3, echoOut s2 f ++ os)
  else (s2, echoOut s2 f)

/-- `Session::on_incoming_transfer` followed by `maybe_outgoing_session_flow`
    (as sequenced by `SessionEngine::on_incoming`) -/
def onIncomingTransfer (s : St) : St × List Out :=
  let s1 := { s with
    nii := on_incoming_transfer.assign_next_incoming_id_0 s.nii
    row := on_incoming_transfer.assign_remote_outgoing_window_0 s.row
    nfc := on_incoming_transfer.assign_need_flow_count_0 s.nfc }
  if s1.mapped && maybe_outgoing_session_flow.cond_if_1 s1.iw s1.nfc then
    let s2 := { s1 with nfc := maybe_outgoing_session_flow.assign_need_flow_count_0 }
    (s2, [flowOut s2 false])
  else (s1, [])

/-- `Session::on_incoming_begin` (counters only) -/
def onIncomingBegin (s : St) (noi iw ow : Nat) : St :=
  { s with
    nii := on_incoming_begin.assign_next_incoming_id_0 noi
    riw := on_incoming_begin.assign_remote_incoming_window_0 iw
    row := on_incoming_begin.assign_remote_outgoing_window_0 ow
    mapped := true }

def step (s : St) : Op → St × List Out
  | .outXfer x => onOutgoingTransfer s x
  | .inFlow f => onIncomingFlow s f
  | .inXfer => onIncomingTransfer s
  | .inBegin noi iw ow => (onIncomingBegin s noi iw ow, [])
  | .outLinkFlow => (s, [flowOut s true])

/-- run a history, collecting everything emitted -/
def run (s : St) : List Op → St × List Out
  | [] => (s, [])
  | op :: ops =>
    let (s1, o1) := step s op
    let (s2, o2) := run s1 ops
    (s2, o1 ++ o2)

def init (noi iw ow : Nat) : St :=
  { noi := noi, riw := 0, nii := 0, row := 0, nfc := 0, initOid := noi, iw := iw, ow := ow,
    buf := [], mapped := false }

end Amqp.Session
