/-
  The two layers that cut one delivery into several transfers before the session
  numbers them (C11, C01):

  * `SenderLink::link_transfers` (link/sender_link.rs)
    cuts at the peer's max-message-size;
  * `frames::amqp::split_transfer`, called by the session engine, cuts each of those
    at the frame size (`Amqp.Frame.sessionSplit`).

  What matters to the session is which of the resulting transfers still carry the
  delivery-tag: it stamps a fresh delivery-id on every transfer that has one.
-/
import Amqp.Frame
import Amqp.Gen.LinkSplitKernels

namespace Amqp.LinkSplit
open Amqp.Gen.LinkSplit Amqp.Frame

/-- in the source, `transfer.delivery_tag = None` stands before the `while` loop of the
    middle transfers (and not only inside it) -/
def tagClearedBeforeLoop : Bool :=
  decide (link_split_order.idx_transfer___delivery_tag___None < link_split_order.idx_while)

structure Piece where
  hasTag : Bool
  more : Bool
  payload : Bytes
deriving Repr, DecidableEq

/-- the `while payload.len() > max_message_size` loop (fuel = bytes left) -/
def lMiddle (m : Nat) : Nat → Bytes → List Bytes × Bytes
  | 0, rest => ([], rest)
  | fuel + 1, rest =>
    if link_split.cond_while_0 rest.length m then
      let k := link_split.arg_split_to_1 m
      let (cs, r) := lMiddle m fuel (rest.drop k)
      (rest.take k :: cs, r)
    else ([], rest)

/-- the transfers handed to the session for one delivery, `m` = max-message-size (0 = none) -/
def linkSplitWith (cleared : Bool) (m : Nat) (payload : Bytes) : List Piece :=
  if link_split.cond_if_0 payload.length m then [⟨true, false, payload⟩]
  else
    let k := link_split.arg_split_to_0 m
    let (mids, rest) := lMiddle m payload.length (payload.drop k)
    ⟨true, true, payload.take k⟩ :: mids.map (fun c => ⟨false, true, c⟩) ++
      -- the last transfer has lost its tag if the clearing happens before the loop, or the loop ran
      [⟨!(cleared || !mids.isEmpty), false, rest⟩]

def linkSplit (m : Nat) (payload : Bytes) : List Piece := linkSplitWith tagClearedBeforeLoop m payload

/-- a transfer as the session sees it after the engine's frame-size cut: does it carry the
    tag, is it marked `more`, its payload -/
def pieceOf (p : Piece) (kc : SKind × Bytes) : Piece :=
  match kc.1 with
  | .whole => ⟨p.hasTag, p.more, kc.2⟩
  | .first => ⟨p.hasTag, true, kc.2⟩
  | .cont  => ⟨false, true, kc.2⟩
  | .last  => ⟨false, p.more, kc.2⟩

def frameCut (B : Nat) (lens : Piece → SLens) (p : Piece) : List Piece :=
  (sessionSplit B (lens p) p.payload).map (pieceOf p)

/-- all transfers of one delivery in the order the session numbers them -/
def deliveryFrames (m B : Nat) (lens : Piece → SLens) (payload : Bytes) : List Piece :=
  (linkSplit m payload).flatMap (frameCut B lens)

end Amqp.LinkSplit
