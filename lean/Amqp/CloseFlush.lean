/-
  C12 — "a close from the peer is always answered with a close (after already queued frames are
  flushed)": the `FrameBody::Close` arm of `ConnectionEngine::on_incoming`.  What the sessions
  have put into the connection's queue of outgoing frames when the peer's close is taken up is a
  list; the arm's steps and their order are regenerated from the source
  (`Amqp.Gen.ConnK.on_peer_close_order`).
-/
import Amqp.Gen.ConnKernels

namespace Amqp.CloseFlush
open Amqp.Gen.ConnK.on_peer_close_order

inductive Out where
  | frame (ch : Nat)
  | close
deriving Repr, DecidableEq

/-- source facts: the verdict of `on_incoming_close` (an error in every state: the peer closed) is kept
    in a variable and not propagated on the spot; the queue is closed and read to its end, every frame
    of it written; then the close; then the verdict -/
def verdictKept : Bool :=
  decide (idx___channel___close____ = 1000) && decide (idx_let_result___self___connection___on_incoming_close < 1000)

def drainsThenCloses : Bool :=
  decide (idx_let_result___self___connection___on_incoming_close < idx_outgoing_session_frames___close____) &&
  decide (idx_outgoing_session_frames___close____ < idx_outgoing_session_frames___recv____) &&
  decide (idx_outgoing_session_frames___recv____ < idx_on_outgoing_session_frames___frame__) &&
  decide (idx_on_outgoing_session_frames___frame__ < idx_send_close) &&
  decide (idx_send_close < idx_result__) && decide (idx_result__ < 1000)

/-- what is written in answer to the peer's close, the sessions having queued `queued`.  If the
    verdict were propagated at once the engine would go to its error path, which closes without
    looking at the queue. -/
def answer (verdictKept drainsThenCloses : Bool) (queued : List Nat) : List Out :=
  if verdictKept && drainsThenCloses then queued.map .frame ++ [.close] else [.close]

end Amqp.CloseFlush
