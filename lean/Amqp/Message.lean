/-
  Messages (C03, C01): the bare message and its annotations as
  `fe2o3-amqp-types/src/messaging/message` writes and reads them — the sections one after the
  other (header, delivery-annotations, message-annotations, properties, application-properties, the
  body as one amqp-value, one or more data or one or more amqp-sequence sections, footer), each a
  described value; read back section by section, told apart by their descriptors (code or name).

  `header` and `properties` are list-encoded composites (typed values of `Amqp.Typed`); the other
  sections are `basic`-encoded: descriptor and the value itself.
-/
import Amqp.Typed

namespace Amqp.Message
open Amqp.Codec Amqp.Typed

inductive Body where
  | value (v : Value)
  | data (bs : List Bytes)
  | sequence (ls : List (List Value))
  /-- `Body::Empty`: written as an amqp-value holding null (a message has at least one body section) -/
  | empty
deriving Repr

structure Msg where
  header : Option TV
  deliveryAnn : Option Value
  msgAnn : Option Value
  properties : Option TV
  appProps : Option Value
  body : Body
  footer : Option Value
deriving Repr

inductive SKind where
  | header | deliveryAnn | msgAnn | properties | appProps | data | sequence | value | footer
deriving Repr, DecidableEq

def SKind.code : SKind → Nat
  | .header => 0x70 | .deliveryAnn => 0x71 | .msgAnn => 0x72 | .properties => 0x73 | .appProps => 0x74
  | .data => 0x75 | .sequence => 0x76 | .value => 0x77 | .footer => 0x78

def SKind.name : SKind → String
  | .header => "amqp:header:list" | .deliveryAnn => "amqp:delivery-annotations:map"
  | .msgAnn => "amqp:message-annotations:map" | .properties => "amqp:properties:list"
  | .appProps => "amqp:application-properties:map" | .data => "amqp:data:binary"
  | .sequence => "amqp:amqp-sequence:list" | .value => "amqp:amqp-value:*" | .footer => "amqp:footer:map"

def allKinds : List SKind :=
  [.header, .deliveryAnn, .msgAnn, .properties, .appProps, .data, .sequence, .value, .footer]

/-- `FieldVisitor::visit_u64` / `visit_str` of the message visitor -/
def kindOf : Value → Option SKind
  | .fixed .ulong bs => allKinds.find? (fun k => k.code == fromBe bs)
  | .var .symbol bs => allKinds.find? (fun k => nameBytes k.name == bs)
  | _ => none

/-- a `basic`-encoded section: descriptor, then the value itself -/
def basic (k : SKind) (v : Value) : Value := .described (.fixed .ulong (be64 k.code)) v

def headerTy : FTy := .comp ["amqp:header:list"]
def propertiesTy : FTy := .comp ["amqp:properties:list"]

def optL {α : Type} : Option α → List α
  | none => []
  | some a => [a]

def bodySections : Body → List Value
  | .value v => [basic .value v]
  | .data bs => bs.map (fun b => basic .data (.var .binary b))
  | .sequence ls => ls.map (fun l => basic .sequence (.list l))
  | .empty => [basic .value .null]

/-- the sections in the order the standard fixes, as value trees -/
def sections (env : List Schema) (m : Msg) : List Value :=
  (optL m.header).map (toTree env) ++ (optL m.deliveryAnn).map (basic .deliveryAnn) ++
  (optL m.msgAnn).map (basic .msgAnn) ++ (optL m.properties).map (toTree env) ++
  (optL m.appProps).map (basic .appProps) ++ bodySections m.body ++ (optL m.footer).map (basic .footer)

/-- `Serializable<Message<B>>`: the sections' encodings one after the other -/
def encodeMsg (env : List Schema) (m : Msg) : Option Bytes := encAll (sections env m)

/-! ## reading -/

/-- values one after the other until the input is used up (`f` is the value decoder) -/
def readAll (f : Bytes → Res (Value × Bytes)) : Nat → Bytes → Res (List Value)
  | _, [] => .ok []
  | 0, _ :: _ => .error .fuel
  | fuel + 1, b :: bs =>
    match f (b :: bs) with
    | .error e => .error e
    | .ok (v, rest) =>
      match readAll f fuel rest with
      | .error e => .error e
      | .ok vs => .ok (v :: vs)

structure Acc where
  header : Option TV := none
  deliveryAnn : Option Value := none
  msgAnn : Option Value := none
  properties : Option TV := none
  appProps : Option Value := none
  body : Option Body := none
  footer : Option Value := none

def isMap : Value → Bool
  | .map _ => true
  | _ => false

/-- a data section continues the data body read so far, or starts one -/
def addData (body : Option Body) (bs : Bytes) : Body :=
  match body with
  | some (.data l) => .data (l ++ [bs])
  | _ => .data [bs]

def addSequence (body : Option Body) (vs : List Value) : Body :=
  match body with
  | some (.sequence l) => .sequence (l ++ [vs])
  | _ => .sequence [vs]

/-- one turn of the visitor's loop: the section is told apart by its descriptor and stored; data and
    amqp-sequence sections add to the body they continue -/
def assign (env : List Schema) (acc : Acc) (s : Value) : Option Acc :=
  match s with
  | .described d p =>
    match kindOf d with
    | none => none
    | some .header => (fromTree env headerTy s).map (fun t => { acc with header := some t })
    | some .properties => (fromTree env propertiesTy s).map (fun t => { acc with properties := some t })
    | some .deliveryAnn => if isMap p then some { acc with deliveryAnn := some p } else none
    | some .msgAnn => if isMap p then some { acc with msgAnn := some p } else none
    | some .appProps => if isMap p then some { acc with appProps := some p } else none
    | some .footer => if isMap p then some { acc with footer := some p } else none
    | some .value => some { acc with body := some (.value p) }
    | some .data =>
      match p with
      | .var .binary bs => some { acc with body := some (addData acc.body bs) }
      | _ => none
    | some .sequence =>
      match p with
      | .list vs => some { acc with body := some (addSequence acc.body vs) }
      | _ => none
  | _ => none

def classify (env : List Schema) : List Value → Acc → Option Acc
  | [], acc => some acc
  | s :: ss, acc =>
    match assign env acc s with
    | none => none
    | some acc' => classify env ss acc'

def finish (acc : Acc) : Msg :=
  { header := acc.header, deliveryAnn := acc.deliveryAnn, msgAnn := acc.msgAnn, properties := acc.properties,
    appProps := acc.appProps, body := acc.body.getD .empty, footer := acc.footer }

/-- reading the result of `readAll` as a message -/
def readMsg (env : List Schema) : Res (List Value) → Res Msg
  | .error e => .error e
  | .ok ss =>
    match classify env ss {} with
    | some acc => .ok (finish acc)
    | none => .error .custom

/-- `Deserializable<Message<Body<Value>>>` -/
def decodeMsg (env : List Schema) (bs : Bytes) : Res Msg :=
  readMsg env (readAll decode (bs.length + 1) bs)

end Amqp.Message
