/-
  C02 — the receiver's batch disposal (`Receiver::accept_all` / `reject_all` / … →
  `ReceiverLink::dispose_all`, link/receiver_link.rs): the deliveries of the batch are sorted by
  delivery-id, cut into runs of neighbours that are consecutive and share their rcv-settle-mode
  (`consecutive_chunk_indices`), and every run becomes one disposition `first ..= last` whose settled
  flag follows the mode of the run's first delivery (`dispose_consecutive`).  `is_consecutive` is
  regenerated from util/mod.rs; the shape of the three functions from link/receiver_link.rs.
-/
import Amqp.Gen.SettleKernels

namespace Amqp.Dispose
open Amqp.Gen.Settle

/-- a delivery of the batch: its id and the rcv-settle-mode its transfer carried (none / first / second) -/
structure Info where
  id : Nat
  mode : Option Bool
deriving Repr, DecidableEq

/-- do two neighbours go into one disposition? -/
def joins (a b : Info) : Bool := is_consecutive.value a.id b.id && a.mode == b.mode

/-- `consecutive_chunk_indices`: `windows(2).enumerate().filter_map(..)` — the positions at which a new
    run starts; `i` is the index of the head of the list -/
def chunkInds : Nat → List Info → List Nat
  | i, a :: b :: rest => if joins a b then chunkInds (i + 1) (b :: rest) else (i + 1) :: chunkInds (i + 1) (b :: rest)
  | _, _ => []

/-- the `for ind in chunk_inds` loop of `dispose_all` with `prev_ind`, then the final slice -/
def slices (infos : List Info) : Nat → List Nat → List (List Info)
  | prev, [] => [infos.drop prev]
  | prev, ind :: inds => (infos.drop prev).take (ind - prev) :: slices infos ind inds

/-- one disposition as `dispose_consecutive` writes it: first, last, and the mode that decides `settled`
    when the application did not say; nothing for an empty slice -/
structure Disp where
  first : Nat
  last : Nat
  mode : Option Bool
deriving Repr, DecidableEq

def dispOf : List Info → Option Disp
  | [] => none
  | a :: rest => some ⟨a.id, ((a :: rest).getLast (by simp)).id, a.mode⟩

/-- `dispose_all` after sorting and filtering: the dispositions written, in order -/
def disposeAll (infos : List Info) : List Disp :=
  (slices infos 0 (chunkInds 0 infos)).filterMap dispOf

/-- `dispose_all` from the start: `sort_by_key(delivery_id)` (a stable sort by the plain order of the ids),
    `retain` of what is still in the unsettled map, then the cut into runs -/
def disposeAllFull (infos : List Info) (unsettled : Info → Bool) : List Disp :=
  disposeAll ((infos.mergeSort (fun a b => decide (a.id ≤ b.id))).filter unsettled)

/-- the ids a disposition names (first ..= last, ascending, no wrap inside a run) -/
def named (d : Disp) : List Nat := List.range' d.first (d.last - d.first + 1)

/-- source shape (see the header) -/
def sourceShape : Bool :=
  (open chunk_indices_order in
    decide (idx___windows___2__ < idx___enumerate____) &&
    decide (idx___enumerate____ < idx_is_consecutive_____infos___0_____delivery_id_____infos___1_____delivery_id__) &&
    decide (idx_is_consecutive_____infos___0_____delivery_id_____infos___1_____delivery_id__ < idx_infos___0_____rcv_settle_mode_____infos___1_____rcv_settle_mode) &&
    decide (idx_infos___0_____rcv_settle_mode_____infos___1_____rcv_settle_mode < idx___None__) &&
    decide (idx___None__ < idx_Some___i___1__) &&
    decide (idx_Some___i___1__ < 1000)) &&
  (open dispose_all_order in
    decide (idx_sort_by_key_____left___left___delivery_id__ < idx_retain) &&
    decide (idx_retain < idx_consecutive_chunk_indices) &&
    decide (idx_consecutive_chunk_indices < idx_let_mut_prev_ind___0) &&
    decide (idx_let_mut_prev_ind___0 < idx___delivery_infos___prev_ind_____ind__) &&
    decide (idx___delivery_infos___prev_ind_____ind__ < idx_prev_ind___ind) &&
    decide (idx_prev_ind___ind < idx___delivery_infos___prev_ind______) &&
    decide (idx___delivery_infos___prev_ind______ < 1000)) &&
  (open dispose_consecutive_order in
    decide (idx_consecutive_infos___is_empty____ < idx_consecutive_infos___0_____rcv_settle_mode) &&
    decide (idx_consecutive_infos___0_____rcv_settle_mode < idx_first___consecutive_infos___0_____delivery_id) &&
    decide (idx_first___consecutive_infos___0_____delivery_id < idx_last___consecutive_infos___last_______map_____el___el___delivery_id__) &&
    decide (idx_last___consecutive_infos___last_______map_____el___el___delivery_id__ < 1000))

end Amqp.Dispose
