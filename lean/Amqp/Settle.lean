/-
  Settlement (C02): model of the sender side of
  `Session::on_incoming_disposition` + `known_delivery_ids_in_range` (session/mod.rs),
  `LinkRelay::Sender::on_incoming_disposition` (link/mod.rs), the unsettled map and the
  oneshot of `UnsettledMessage` (link/delivery.rs); and of the receiver side
  (`ReceiverLink::dispose / dispose_all`, `LinkRelay::Receiver::on_incoming_disposition`).

  A delivery is (link, tag, delivery-id).  What the sending application observes is the
  list of `resolved` outputs: the completion of the send future of (link, tag).
-/
import Amqp.Gen.SettleKernels

namespace Amqp.Settle
open Amqp Amqp.Gen.Settle

/-- delivery state carried by a disposition -/
inductive DS where
  | accepted | rejected | released | modified
  | received          -- non-terminal
  | none              -- no state
deriving Repr, DecidableEq

def DS.terminal : DS → Bool
  | .accepted | .rejected | .released | .modified => true
  | _ => false

/-- `matches!(&state, None | Some(DeliveryState::Received(_)))` -/
def DS.inProgress : DS → Bool
  | .received | .none => true
  | _ => false

/-- an entry of `delivery_tag_by_id` (key role = receiver): delivery-id ↦ (link, tag) -/
structure Entry where
  id : Nat
  link : Nat
  tag : Nat
deriving Repr, DecidableEq

structure St where
  byId : List Entry
  /-- (link, tag) of the sends whose oneshot is still unresolved (`unsettled` maps of the links) -/
  unsettled : List (Nat × Nat)
  /-- per link: negotiated rcv-settle-mode is second -/
  second : List Bool
deriving Repr

inductive Op where
  | send (link tag id : Nat) (settled : Bool)
  | disp (first last : Nat) (settled : Bool) (st : DS)
deriving Repr

inductive Out where
  /-- the send future of (link, tag) completes; a pre-settled send completes as accepted -/
  | resolved (link tag : Nat) (st : DS)
  /-- settling disposition sent by the endpoint (role sender, settled = true) -/
  | echo (first last : Nat) (st : DS)
deriving Repr, DecidableEq

def isSecond (s : St) (link : Nat) : Bool := s.second.getD link false

/-- insertion into a list sorted by serial offset from `first` -/
def insertByOffset (first : Nat) (id : Nat) : List Nat → List Nat
  | [] => [id]
  | x :: xs => if wsub32 id first ≤ wsub32 x first then id :: x :: xs else x :: insertByOffset first id xs

def sortByOffset (first : Nat) : List Nat → List Nat
  | [] => []
  | x :: xs => insertByOffset first x (sortByOffset first xs)

/-- `known_delivery_ids_in_range`: nothing for a range running backwards; a narrow range is
    walked id by id, a wide one is answered from the table (sorted by serial offset) -/
def knownIds (byId : List Entry) (first last : Nat) : List Nat :=
  if known_ids.cond_if_0 first last then []
  else if known_ids.cond_if_1 first last byId.length then
    ((List.range (known_ids.let_span_0 first last + 1)).map (fun o => wadd32 first o)).filter
      (fun id => byId.any (fun e => e.id == id))
  else
    sortByOffset first
      ((byId.map (·.id)).filter (fun id => decide (wsub32 id first ≤ known_ids.let_span_0 first last)))

def lookup (byId : List Entry) (id : Nat) : Option Entry := byId.find? (fun e => e.id == id)

def removeId (byId : List Entry) (id : Nat) : List Entry := byId.filter (fun e => !(e.id == id))

def removeTag (u : List (Nat × Nat)) (lt : Nat × Nat) : List (Nat × Nat) := u.filter (fun x => !(x == lt))

/-- settled disposition: `remove` the entry, settle the message if the link still holds it -/
def settleIds (st : DS) : List Nat → St → St × List Out
  | [], s => (s, [])
  | id :: ids, s =>
    match lookup s.byId id with
    | none => settleIds st ids s
    | some e =>
      let s1 := { s with byId := removeId s.byId id }
      if s1.unsettled.contains (e.link, e.tag) then
        let s2 := { s1 with unsettled := removeTag s1.unsettled (e.link, e.tag) }
        let (s3, os) := settleIds st ids s2
        (s3, .resolved e.link e.tag st :: os)
      else settleIds st ids s1

/-- extend the runs of consecutive delivery-ids by `id` (most recent run first) -/
def pushRun (runs : List (Nat × Nat)) (id : Nat) : List (Nat × Nat) :=
  match runs with
  | (f, l) :: rest => if id = wadd32 l 1 then (f, id) :: rest else (id, id) :: runs
  | [] => [(id, id)]

/-- one delivery named by an unsettled disposition: new state, completion (if any), echo? -/
def updOne (st : DS) (s : St) (id : Nat) (e : Entry) : St × List Out × Bool :=
  let held := s.unsettled.contains (e.link, e.tag)
  let s1 := if st.terminal && held then { s with unsettled := removeTag s.unsettled (e.link, e.tag) } else s
  let o : List Out := if st.terminal && held then [.resolved e.link e.tag st] else []
  let echo := isSecond s e.link && !st.inProgress
  let s2 := if echo then { s1 with byId := removeId s1.byId id } else s1
  (s2, o, echo)

/-- unsettled disposition: update / resolve, decide the echo per delivery, collect runs -/
def updateIds (st : DS) : List Nat → St → List (Nat × Nat) → St × List Out × List (Nat × Nat)
  | [], s, runs => (s, [], runs)
  | id :: ids, s, runs =>
    match lookup s.byId id with
    | none => updateIds st ids s runs
    | some e =>
      let r := updOne st s id e
      let rest := updateIds st ids r.1 (if r.2.2 then pushRun runs id else runs)
      (rest.1, r.2.1 ++ rest.2.1, rest.2.2)

def step (s : St) : Op → St × List Out
  | .send link tag id settled =>
    if settled then (s, [.resolved link tag .accepted])
    else ({ s with byId := s.byId ++ [⟨id, link, tag⟩], unsettled := s.unsettled ++ [(link, tag)] }, [])
  | .disp first last settled st =>
    let ids := knownIds s.byId first last
    if settled then settleIds st ids s
    else
      let (s1, os, runs) := updateIds st ids s []
      (s1, os ++ runs.reverse.map (fun r => Out.echo r.1 r.2 st))

def run (s : St) : List Op → St × List Out
  | [] => (s, [])
  | op :: ops =>
    let (s1, o1) := step s op
    let (s2, o2) := run s1 ops
    (s2, o1 ++ o2)

def init (second : List Bool) : St := { byId := [], unsettled := [], second := second }

/-! ## receiver side -/

structure RSt where
  /-- tags in the receiver link's unsettled map -/
  unsettled : List Nat
  /-- delivery-ids the session tracks for this link (mode second only): id ↦ tag -/
  tracked : List (Nat × Nat)
  /-- the link's rcv-settle-mode is `second` -/
  second : Bool
  /-- the mode each delivery arrived under (tag ↦ second?): a transfer may name its own
      rcv-settle-mode (`first` on a link negotiated as `second`), else the link's applies; latest first -/
  modes : List (Nat × Bool) := []
deriving Repr

inductive ROp where
  /-- a complete delivery arrives; `mode`: the transfer's own rcv-settle-mode (`some true` = second) -/
  | arrive (tag id : Nat) (presettled : Bool) (mode : Option Bool := none)
  /-- `Receiver::dispose` of one delivery with a terminal state -/
  | dispose (tag id : Nat) (st : DS)
  /-- disposition from the sender (role sender) -/
  | inDisp (first last : Nat) (settled : Bool)
deriving Repr

inductive ROut where
  | disposition (first last : Nat) (settled : Bool) (st : DS)
deriving Repr, DecidableEq

def inSerialRange (first last id : Nat) : Bool :=
  !(known_ids.cond_if_0 first last) && decide (wsub32 id first ≤ known_ids.let_span_0 first last)

/-- the rcv-settle-mode a delivery is under: its own, else the link's
    (`delivery_info.rcv_settle_mode.unwrap_or(&self.rcv_settle_mode)`) -/
def modeOf (s : RSt) (tag : Nat) : Bool :=
  match s.modes.find? (fun p => p.1 == tag) with
  | some p => p.2
  | none => s.second

def rstep (s : RSt) : ROp → RSt × List ROut
  | .arrive tag id presettled mode =>
    if presettled then (s, [])
    else ({ s with unsettled := s.unsettled ++ [tag],
                   tracked := if s.second then s.tracked ++ [(id, tag)] else s.tracked,
                   modes := (tag, mode.getD s.second) :: s.modes }, [])
  | .dispose tag id st =>
    if s.unsettled.contains tag then
      if modeOf s tag then (s, [.disposition id id false st])      -- stays unsettled, state recorded
      else ({ s with unsettled := s.unsettled.filter (fun t => !(t == tag)) }, [.disposition id id true st])
    else (s, [])                                                  -- "only dispose if found in the unsettled map"
  | .inDisp first last settled =>
    if settled then
      let hit := s.tracked.filter (fun it => inSerialRange first last it.1)
      ({ s with unsettled := s.unsettled.filter (fun t => !(hit.any (fun it => it.2 == t))),
                tracked := s.tracked.filter (fun it => !(inSerialRange first last it.1)) }, [])
    else (s, [])

def rrun (s : RSt) : List ROp → RSt × List ROut
  | [] => (s, [])
  | op :: ops =>
    let (s1, o1) := rstep s op
    let (s2, o2) := rrun s1 ops
    (s2, o1 ++ o2)

def rinit (second : Bool) : RSt := { unsettled := [], tracked := [], second := second, modes := [] }

end Amqp.Settle
