/-
  C06 — what the frame decoder makes of one frame: model of `FrameDecoder::decode`
  (fe2o3-amqp/src/frames/amqp.rs) after the length-delimited layer has cut a frame out of the byte
  stream (`Amqp.Frame`).  The header step is `Amqp.FrameHeader.decodeAmqp` (its guards regenerated
  from the source); an empty body is a heartbeat; otherwise the body begins with a performative,
  decoded as a typed composite (`Amqp.Typed`, schemas regenerated from fe2o3-amqp-types), and what
  follows it is the payload of a transfer — and of a transfer only.
-/
import Amqp.Typed
import Amqp.Frame
import Amqp.FrameHeader

namespace Amqp.FrameBody
open Amqp.Codec Amqp.Typed
open Amqp.Gen.FrameHeader

def transferName : String := "amqp:transfer:list"

/-- the variants of `Performative` -/
def performatives : List String :=
  ["amqp:open:list", "amqp:begin:list", "amqp:attach:list", "amqp:flow:list", transferName,
   "amqp:disposition:list", "amqp:detach:list", "amqp:end:list", "amqp:close:list"]

def perfTy : FTy := .comp performatives

inductive Body where
  | empty
  | transfer (perf : TV) (payload : Bytes)
  | other (perf : TV)
deriving Repr

inductive Out where
  | frame (channel : Nat) (body : Body)
  /-- shorter than a frame header, not an AMQP frame, or an extended header -/
  | refused
  /-- the body does not begin with a performative -/
  | undecodable
  /-- `Buf::get_*` past the end (excluded by `amqp_header_never_panics`) -/
  | panic
deriving Repr

/-- source shape: the emptiness test comes first and makes an `Empty` body; the bytes left in the
    buffer are split off in the arm of `Performative::Transfer` (after it, before the next arm) -/
def payloadOfTransferOnly : Bool :=
  open amqp_decode_body_order in
  decide (idx_src___is_empty____ < idx_FrameBody_____Empty) &&
  decide (idx_FrameBody_____Empty < idx_Deserialize_____deserialize) &&
  decide (idx_Deserialize_____deserialize < idx_Performative_____Attach___performative______) &&
  decide (idx_Performative_____Attach___performative______ < idx_Performative_____Transfer___performative______) &&
  decide (idx_Performative_____Transfer___performative______ < idx_src___split____) &&
  decide (idx_src___split____ < idx_Performative_____Flow___performative______) &&
  decide (idx_Performative_____Flow___performative______ < 1000)

def isTransfer : TV → Bool
  | .comp n _ => n == transferName
  | _ => false

/-- `FrameDecoder::decode` on the bytes of one frame (length prefix taken off); `takesPayload` says
    whether the transfer arm keeps what follows the performative -/
def decodeFrameWith (takesPayload : Bool) (env : List Schema) (frame : Bytes) : Out :=
  match Amqp.FrameHeader.decodeAmqp (frame.map UInt8.toNat) with
  | .tooShort => .refused
  | .notImplemented => .refused
  | .panic => .panic
  | .header ch _ =>
    let body := frame.drop 4
    if amqp_decode.cond_if_2 body.isEmpty then .frame ch .empty
    else
      match decodeTyped env perfTy body with
      | .error _ => .undecodable
      | .ok (tv, rest) =>
        if isTransfer tv then .frame ch (.transfer tv (if takesPayload then rest else []))
        else .frame ch (.other tv)

def decodeFrame (env : List Schema) (frame : Bytes) : Out :=
  decodeFrameWith payloadOfTransferOnly env frame

end Amqp.FrameBody
