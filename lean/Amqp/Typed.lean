/-
  Typed protocol items (C03, C04, C05, C20): the composite types of
  `fe2o3-amqp-types` as the derive macros of `serde_amqp_derive` encode and
  decode them — a described list whose fields are written in declaration order,
  `None` and default-valued fields as null, trailing nulls left out; decoded
  from a descriptor given by code or by name, a list of at most as many fields
  as the type declares, missing and null fields read as `None` / the default.

  The declarations themselves (descriptor name and code, field order, wire
  names, declared types, `default` / `multiple`) are regenerated from the
  source on every run (`Amqp.Gen.Schemas`); this file gives them meaning:

  * `tyOf` / `defaultOf`: what a declared Rust type is on the wire (hand-written
    table; a type the table does not know makes `env_elaborates` fail),
  * `TV`: a typed value as a tree of composites over untyped leaves,
  * `encodeTyped`: the encoder with the derive macro's null-buffering loop,
  * `toTree` / `fromTree`: the typed value as an untyped value tree and back
    (`to_value` / `from_value`),
  * `decodeTyped`: decoding as value decoding followed by `fromTree`.
-/
import Amqp.Codec
import Amqp.Gen.Schemas

namespace Amqp.Typed
open Amqp.Codec
open Amqp.Gen.Codes

/-! ## field types -/

/-- how the type of a field is written (the leaves of a typed value) -/
inductive Prim where
  | bool | ubyte | ushort | uint | ulong | string | symbol | binary | timestamp
  /-- any map (`Fields`, `Annotations`, `FilterSet`, the unsettled map) -/
  | map
  /-- `Array<Symbol>`: an array of symbols, or a single symbol -/
  | symbols
  /-- `MessageId`: ulong, uuid, binary or string -/
  | msgid
  /-- an enumeration over ubyte values below `n` (settle modes, sasl-code) -/
  | ubyteBelow (n : Nat)
  /-- an enumeration over uint values below `n` (terminus-durability) -/
  | uintBelow (n : Nat)
deriving Repr, DecidableEq

inductive FTy where
  | prim (p : Prim)
  /-- one of the composites with these descriptor names -/
  | comp (names : List String)
deriving Repr, DecidableEq

inductive FKind where
  | required | optional | dflt | multiple
deriving Repr, DecidableEq

structure Field where
  wire : String
  ty : FTy
  kind : FKind
  /-- the value of `<T as Default>::default()` for `kind = dflt` -/
  dflt : Value := .null

structure Schema where
  rust : String
  name : String
  code : Nat
  fields : List Field

def deliveryStates : List String :=
  ["amqp:received:list", "amqp:accepted:list", "amqp:rejected:list", "amqp:released:list",
   "amqp:modified:list", "amqp:declared:list", "amqp:transactional-state:list"]

def outcomes : List String :=
  ["amqp:accepted:list", "amqp:rejected:list", "amqp:released:list", "amqp:modified:list",
   "amqp:declared:list"]

/-- the declared Rust type of a field (with `Option<…>` and `Box<…>` peeled off) on the wire -/
def tyOf : String → Option FTy
  | "Boolean" | "bool" | "Role" => some (.prim .bool)
  | "Ubyte" | "Priority" => some (.prim .ubyte)
  | "Ushort" | "ChannelMax" => some (.prim .ushort)
  | "Uint" | "Handle" | "SequenceNo" | "DeliveryNumber" | "TransferNumber" | "MessageFormat"
  | "Milliseconds" | "Seconds" | "MaxFrameSize" => some (.prim .uint)
  | "Ulong" => some (.prim .ulong)
  | "String" | "Address" => some (.prim .string)
  | "Symbol" | "ErrorCondition" | "TerminusExpiryPolicy" | "DistributionMode" => some (.prim .symbol)
  | "Binary" | "DeliveryTag" | "TransactionId" => some (.prim .binary)
  | "Timestamp" => some (.prim .timestamp)
  | "Fields" | "NodeProperties" | "FilterSet" | "Annotations"
  | "OrderedMap<DeliveryTag,Option<DeliveryState>>" => some (.prim .map)
  | "Array<Symbol>" | "Array<IetfLanguageTag>" | "Array<TxnCapability>" => some (.prim .symbols)
  | "MessageId" => some (.prim .msgid)
  | "SenderSettleMode" => some (.prim (.ubyteBelow 3))
  | "ReceiverSettleMode" => some (.prim (.ubyteBelow 2))
  | "SaslCode" => some (.prim (.ubyteBelow 5))
  | "TerminusDurability" => some (.prim (.uintBelow 3))
  | "Error" => some (.comp ["amqp:error:list"])
  | "Source" => some (.comp ["amqp:source:list"])
  | "TargetArchetype" => some (.comp ["amqp:target:list", "amqp:coordinator:list"])
  | "DeliveryState" => some (.comp deliveryStates)
  | "Outcome" | "crate::messaging::Outcome" => some (.comp outcomes)
  | _ => none

def be64 (n : Nat) : Bytes := be32 (n / 4294967296) ++ be32 (n % 4294967296)

/-- bytes of an ASCII name -/
def nameBytes (s : String) : Bytes := s.toList.map (fun c => b8 c.toNat)

/-- `<T as Default>::default()` of the types that carry `#[amqp_contract(default)]` -/
def defaultOf : String → Option Value
  | "Boolean" | "bool" => some (.bool false)
  | "Uint" | "Seconds" => some (.fixed .uint [0, 0, 0, 0])
  | "Handle" | "MaxFrameSize" => some (.fixed .uint [255, 255, 255, 255])
  | "ChannelMax" => some (.fixed .ushort [255, 255])
  | "Priority" => some (.fixed .ubyte [4])
  | "SenderSettleMode" => some (.fixed .ubyte [2])
  | "ReceiverSettleMode" => some (.fixed .ubyte [0])
  | "TerminusDurability" => some (.fixed .uint [0, 0, 0, 0])
  | "TerminusExpiryPolicy" => some (.var .symbol (nameBytes "session-end"))
  | _ => none

open Amqp.Gen.Schemas in
def elabField (g : GField) : Option Field :=
  match tyOf g.ty with
  | none => none
  | some ty =>
    if g.dflt then
      if g.optional || g.multiple then none
      else match defaultOf g.ty with
        | some d => some { wire := g.wire, ty := ty, kind := .dflt, dflt := d }
        | none => none
    else if g.multiple then
      if g.optional then some { wire := g.wire, ty := ty, kind := .multiple } else none
    else some { wire := g.wire, ty := ty, kind := if g.optional then .optional else .required }

def elabFields : List Amqp.Gen.Schemas.GField → Option (List Field)
  | [] => some []
  | g :: gs =>
    match elabField g, elabFields gs with
    | some f, some fs => some (f :: fs)
    | _, _ => none

open Amqp.Gen.Schemas in
/-- the composites the derive macros encode as described lists -/
def isListSchema (g : GSchema) : Bool :=
  g.encoding == "list" && !g.generic && !g.tuple

open Amqp.Gen.Schemas in
def elabSchema (g : GSchema) : Option Schema :=
  match g.code, elabFields g.fields with
  | some c, some fs => if g.ser && g.de then some { rust := g.rust, name := g.name, code := c, fields := fs } else none
  | _, _ => none

def elabAll : List Amqp.Gen.Schemas.GSchema → List Schema
  | [] => []
  | g :: gs =>
    if isListSchema g then
      match elabSchema g with
      | some s => s :: elabAll gs
      | none => elabAll gs
    else elabAll gs

/-- every list-encoded composite of the source, elaborated -/
def env : List Schema := elabAll Amqp.Gen.Schemas.all

def lookup (env : List Schema) (name : String) : Option Schema :=
  env.find? (fun s => s.name == name)

/-! ## typed values -/

/-- a typed value: composites over untyped leaves; `absent` is `Option::None` -/
inductive TV where
  | absent
  | leaf (v : Value)
  | comp (name : String) (fields : List TV)
deriving Repr

def isNull : Value → Bool
  | .null => true
  | _ => false

/-- what is written in the slot of a field: a default-valued field is written as null -/
def slotOf (f : Field) (v : Value) : Value :=
  match f.kind with
  | .dflt => if Value.beq v f.dflt then .null else v
  | _ => v

/-- the derive macro never writes the nulls that no later field follows -/
def dropTrailingNulls : List Value → List Value
  | [] => []
  | v :: vs =>
    match dropTrailingNulls vs with
    | [] => if isNull v then [] else [v]
    | r :: rs => v :: r :: rs

mutual
  /-- the typed value as an untyped value tree (`to_value`) -/
  def toTree (env : List Schema) : TV → Value
    | .absent => .null
    | .leaf v => v
    | .comp n fs =>
      match lookup env n with
      | none => .null
      | some s => .described (.fixed .ulong (be64 s.code)) (.list (dropTrailingNulls (slots env s.fields fs)))
  def slots (env : List Schema) : List Field → List TV → List Value
    | f :: fs, t :: ts => slotOf f (toTree env t) :: slots env fs ts
    | _, _ => []
end

/-! ## the encoder (`#[derive(SerializeComposite)]` into `ser::Serializer`) -/

/-- state of the generated `serialize`: the buffer of the struct serializer, the number of
    fields handed to it, and the names waiting in `nulls` -/
structure SerSt where
  buf : Bytes
  count : Nat
  nulls : Nat

/-- `buffer_if_none!` / `buffer_if_eq_default!`: a field that is `None` (or equal to its default)
    is remembered; a field that is written first flushes the remembered nulls -/
def serField (st : SerSt) (e : Option Bytes) : SerSt :=
  match e with
  | none => { st with nulls := st.nulls + 1 }
  | some bs => { buf := st.buf ++ List.replicate st.nulls (b8 cNull) ++ bs, count := st.count + st.nulls + 1, nulls := 0 }

/-- `buffer_if_none!`: the field is `None`; `buffer_if_eq_default!`: the field equals its default -/
def elided (f : Field) : TV → Bool
  | .absent => true
  | .leaf v => (match f.kind with | .dflt => Value.beq v f.dflt | _ => false)
  | .comp _ _ => false

mutual
  /-- `to_vec(&x)` for a typed value -/
  def encTV (env : List Schema) : TV → Option Bytes
    | .absent => some [b8 cNull]
    | .leaf v => enc .none v
    | .comp n fs =>
      match lookup env n with
      | none => none
      | some s =>
        match encFields env s.fields fs { buf := [], count := 0, nulls := 0 } with
        | none => none
        | some st =>
          match writeList .none st.count st.buf with
          | none => none
          | some l => some (b8 cDescribedType :: encFixed .none .ulong (be64 s.code) ++ l)
  /-- the field loop of the generated `serialize` -/
  def encFields (env : List Schema) : List Field → List TV → SerSt → Option SerSt
    | f :: fs, t :: ts, st =>
      if elided f t then encFields env fs ts (serField st none)
      else match encTV env t with
        | none => none
        | some e => encFields env fs ts (serField st (some e))
    | _, _, st => some st
end

def encodeTyped (env : List Schema) (tv : TV) : Option Bytes := encTV env tv

/-! ## from the value tree back to the typed value (`from_value`, and the typed visitors) -/

def allSymbols : List Value → Bool
  | [] => true
  | .var .symbol _ :: vs => allSymbols vs
  | _ :: _ => false

/-- the leaf a typed decoder makes of a value, if it accepts it -/
def accepts : Prim → Value → Option Value
  | .bool, .bool b => some (.bool b)
  | .ubyte, .fixed .ubyte bs => some (.fixed .ubyte bs)
  | .ushort, .fixed .ushort bs => some (.fixed .ushort bs)
  | .uint, .fixed .uint bs => some (.fixed .uint bs)
  | .ulong, .fixed .ulong bs => some (.fixed .ulong bs)
  | .string, .var .string bs => some (.var .string bs)
  | .symbol, .var .symbol bs => some (.var .symbol bs)
  | .binary, .var .binary bs => some (.var .binary bs)
  | .timestamp, .fixed .timestamp bs => some (.fixed .timestamp bs)
  | .map, .map kvs => some (.map kvs)
  | .symbols, .array vs => if allSymbols vs then some (.array vs) else none
  | .symbols, .var .symbol bs => some (.array [.var .symbol bs])
  | .msgid, .fixed .ulong bs => some (.fixed .ulong bs)
  | .msgid, .fixed .uuid bs => some (.fixed .uuid bs)
  | .msgid, .var .binary bs => some (.var .binary bs)
  | .msgid, .var .string bs => some (.var .string bs)
  | .ubyteBelow n, .fixed .ubyte bs => if fromBe bs < n then some (.fixed .ubyte bs) else none
  | .uintBelow n, .fixed .uint bs => if fromBe bs < n then some (.fixed .uint bs) else none
  | _, _ => none

def descriptorMatches (s : Schema) : Value → Bool
  | .fixed .ulong bs => fromBe bs == s.code
  | .var .symbol bs => bs == nameBytes s.name
  | _ => false

/-- a field that is null or not there -/
def missing (f : Field) : Option TV :=
  match f.kind with
  | .required => none
  | .optional => some .absent
  | .multiple => some .absent
  | .dflt => some (.leaf f.dflt)

def missingAll : List Field → Option (List TV)
  | [] => some []
  | f :: fs =>
    match missing f, missingAll fs with
    | some t, some ts => some (t :: ts)
    | _, _ => none

/-- `multiple` fields: an empty array is the absence of a value -/
def normMultiple (f : Field) (t : TV) : TV :=
  match f.kind, t with
  | .multiple, .leaf (.array []) => .absent
  | _, t => t

mutual
  def fromTree (env : List Schema) (ty : FTy) : Value → Option TV
    | .described d body =>
      match ty with
      | .prim _ => none
      | .comp names =>
        match env.find? (fun s => names.contains s.name && descriptorMatches s d) with
        | none => none
        | some s => fromBody env s body
    | v =>
      match ty with
      | .prim p => (accepts p v).map .leaf
      | .comp _ => none
  def fromBody (env : List Schema) (s : Schema) : Value → Option TV
    | .list items => (fromSlots env s.fields items).map (TV.comp s.name)
    | _ => none
  def fromSlots (env : List Schema) : List Field → List Value → Option (List TV)
    | fs, [] => missingAll fs
    | [], _ :: _ => none
    | f :: fs, v :: vs =>
      match (if isNull v then missing f else (fromTree env f.ty v).map (normMultiple f)), fromSlots env fs vs with
      | some t, some ts => some (t :: ts)
      | _, _ => none
end


/-! ## the encodings a peer may choose for a typed value (specification side, C05)

  At every composite: the descriptor by name or by code; any number of the trailing nulls kept;
  every field that holds its default written out or left null.  At a `multiple` leaf holding one
  symbol: the symbol itself instead of a one-element array. -/

inductive TCh where
  | leaf (single : Bool)
  | comp (byName : Bool) (pad : Nat) (explicit : List Bool) (subs : List TCh)
deriving Repr

def padNulls (pad : Nat) (kept : List Value) (total : Nat) : List Value :=
  kept ++ List.replicate (min pad (total - kept.length)) .null

def slotV (f : Field) (explicit : Bool) (v : Value) : Value :=
  match f.kind with
  | .dflt => if Value.beq v f.dflt && !explicit then .null else v
  | _ => v

def leafV (single : Bool) (v : Value) : Value :=
  match single, v with
  | true, .array [.var .symbol bs] => .var .symbol bs
  | _, v => v

mutual
  def toTreeV (env : List Schema) : TCh → TV → Value
    | _, .absent => .null
    | .leaf single, .leaf v => leafV single v
    | .comp _ _ _ _, .leaf v => v
    | .comp byName pad ex subs, .comp n fs =>
      match lookup env n with
      | none => .null
      | some s =>
        .described (if byName then .var .symbol (nameBytes s.name) else .fixed .ulong (be64 s.code))
          (.list (padNulls pad (dropTrailingNulls (slotsV env s.fields ex subs fs)) s.fields.length))
    | .leaf _, .comp n fs =>
      match lookup env n with
      | none => .null
      | some s =>
        .described (.fixed .ulong (be64 s.code))
          (.list (dropTrailingNulls (slotsV env s.fields [] [] fs)))
  def slotsV (env : List Schema) : List Field → List Bool → List TCh → List TV → List Value
    | f :: fs, ex, subs, t :: ts =>
      slotV f (ex.headD false) (toTreeV env (subs.headD (.leaf false)) t) :: slotsV env fs ex.tail subs.tail ts
    | _, _, _, _ => []
end

/-- reading the result of the value decoder as a `T` -/
def readTyped (env : List Schema) (ty : FTy) : Res (Value × Bytes) → Res (TV × Bytes)
  | .error e => .error e
  | .ok (v, rest) =>
    match fromTree env ty v with
    | some tv => .ok (tv, rest)
    | none => .error .custom

/-- `from_slice::<T>`: decoding the bytes as a value and reading the value as a `T` -/
def decodeTyped (env : List Schema) (ty : FTy) (bs : Bytes) : Res (TV × Bytes) :=
  readTyped env ty (decode bs)

/-- `serialized_size(&x)` -/
def sizeTyped (env : List Schema) (tv : TV) : Option Nat := size .none (toTree env tv)

end Amqp.Typed
