/-
  Which incoming transfers a transactional session withholds (C10, C18): model of
  `TxnSession::on_incoming_transfer` (transaction/session.rs) — the decision per frame and the table
  `incomplete_posts` (handle ↦ transaction of the post under way on that link) — and of
  `ResourceTransaction::on_incoming_post` (the frame is pushed to the end of the transaction's work).
  Whether the transaction is live is the business of `Amqp.Txn`; here it is.
-/
import Amqp.Gen.TxnKernels

namespace Amqp.TxnRoute

/-- what this layer looks at in a transfer; `key` stands for everything else (payload, ids, flags) -/
structure TFrame where
  handle : Nat
  txn : Option Nat        -- the transfer's state is a transactional state naming this transaction
  tag : Option Nat        -- the transfer's delivery-tag, if it carries one
  more : Bool
  aborted : Bool
  key : Nat
deriving Repr, DecidableEq

inductive Route where
  | direct                -- handed to the session / link at once
  | withheld (id : Nat)   -- kept as work of transaction `id`
deriving Repr, DecidableEq

/-- `incomplete_posts`: the transaction of the post under way on a link, and the delivery-tag its first
    transfer named -/
abbrev Table := Nat → Option (Nat × Option Nat)

def Table.set (t : Table) (h : Nat) (v : Option (Nat × Option Nat)) : Table := fun k => if k = h then v else t k

/-- source facts: the arms of the decision in the order the model takes them, the table touched only under the
    condition `more && !aborted` / its `else`, no other test of the abort flag, and the frame kept by a push -/
def routeShape : Bool :=
  (open Amqp.Gen.TxnK.route_order in
   decide (idx_DeliveryState_____TransactionalState___state_________state___txn_id___clone____ <
           idx_incomplete_posts___get_____transfer___handle__) &&
   decide (idx_incomplete_posts___get_____transfer___handle__ <
           idx_Some_____txn_id___tag_____if_transfer___delivery_tag___is_none_________transfer___delivery_tag_______tag____) &&
   decide (idx_Some_____txn_id___tag_____if_transfer___delivery_tag___is_none_________transfer___delivery_tag_______tag____ <
           idx_return_self___session___on_incoming_transfer___transfer___payload__) &&
   decide (idx_return_self___session___on_incoming_transfer___transfer___payload__ <
           idx_let_under_way___self___txn_manager___incomplete_posts___remove_____transfer___handle__) &&
   decide (idx_let_under_way___self___txn_manager___incomplete_posts___remove_____transfer___handle__ <
           idx_if_transfer___more_______transfer___aborted__) &&
   decide (idx_if_transfer___more_______transfer___aborted__ < idx___Some___tag_____________Some___tag___clone______) &&
   decide (idx___Some___tag_____________Some___tag___clone______ < idx___None___Some_________tag___________tag) &&
   decide (idx___None___Some_________tag___________tag < idx___None___None_______None) &&
   decide (idx___None___None_______None <
           idx_incomplete_posts___insert___transfer___handle___clone_________txn_id___clone_______tag____) &&
   decide (idx_incomplete_posts___insert___transfer___handle___clone_________txn_id___clone_______tag____ <
           idx_txn___on_incoming_post___txn_id___transfer___payload__) &&
   decide (idx_txn___on_incoming_post___txn_id___transfer___payload__ < 1000) &&
   decide (idx_if_transfer___aborted = 1000) && decide (idx_if_transfer___more__ = 1000) &&
   decide (idx___else__ = 1000)) &&
  (open Amqp.Gen.TxnK.post_order in
   decide (idx_self___frames___push___frame__ < 1000) && decide (idx_insert = 1000) && decide (idx_drain = 1000) &&
   decide (idx_truncate = 1000) && decide (idx_remove = 1000) && decide (idx_clear = 1000) &&
   decide (idx_if_transfer___aborted = 1000))

/-- the transaction a transfer is withheld under, if any: the one its state names; or, without a
    transactional state, the one of the post under way on its link if it leaves the delivery-tag out or
    repeats that post's -/
def decide? (t : Table) (f : TFrame) : Option Nat :=
  match f.txn with
  | some id => some id
  | none => match t f.handle with
    | some (id, tg) => if f.tag = none ∨ f.tag = tg then some id else none
    | none => none

/-- `TxnSession::on_incoming_transfer` -/
def route (t : Table) (f : TFrame) : Table × Route :=
  match decide? t f with
  | none => (t, .direct)
  | some id =>
    -- the condition under which the link counts as in the middle of a post (with the shape of the source:
    -- `more && !aborted`; any other shape: `more` alone, which is what the code had)
    let under_way := if routeShape then f.more && !f.aborted else f.more
    -- the delivery-tag kept with the entry: this transfer's, else the one kept so far
    let tag := match f.tag, t f.handle with
      | some x, _ => some x
      | none, some (_, tg) => tg
      | none, none => none
    (t.set f.handle (if under_way then some (id, tag) else none), .withheld id)

/-- source facts: a transfer that is withheld is counted as received when it arrives
    (`on_incoming_transfer_received` is called on the way to `on_incoming_post`), a transfer that is handed on is
    counted by `Session::on_incoming_transfer` (which calls the same function first), and the replay at the
    commit hands the frames to their links without counting them again (`Amqp.Txn.commitRemovesFirst` has that
    `commit_transaction` calls `deliver_incoming_transfer` and not `on_incoming_transfer`) -/
def countsWithheld : Bool :=
  (open Amqp.Gen.TxnK.route_order in
   decide (idx_self___session___on_incoming_transfer_received____ < 1000) &&
   decide (idx_return_self___session___on_incoming_transfer___transfer___payload__ <
           idx_self___session___on_incoming_transfer_received____)) &&
  (open Amqp.Gen.TxnK.commit_order in
   decide (idx_deliver_incoming_transfer < 1000) && decide (idx_on_incoming_transfer = 1000))

/-- the session: the table, per transaction the frames withheld so far, oldest first, and the number of
    transfers the session's counters (next-incoming-id, the count towards the next flow) have been advanced for -/
structure St where
  table : Table
  work : Nat → List TFrame
  counted : Nat := 0

def St.init : St := { table := fun _ => none, work := fun _ => [] }

def step (s : St) (f : TFrame) : St × Route :=
  match route s.table f with
  | (t, .direct) => ({ s with table := t, counted := s.counted + 1 }, .direct)
  | (t, .withheld id) =>
    ({ table := t, work := fun k => if k = id then s.work k ++ [f] else s.work k,
       counted := s.counted + (if countsWithheld then 1 else 0) }, .withheld id)

def run (s : St) : List TFrame → St × List Route
  | [] => (s, [])
  | f :: fs =>
    let (s1, r) := step s f
    let (s2, rs) := run s1 fs
    (s2, r :: rs)

end Amqp.TxnRoute
