/-
  Routing of incoming frames to sessions (C11): model of the two tables of `connection::Connection`
  (connection/mod.rs) —

    session_by_outgoing_channel : Slab<SessionRelay>                     (our channels, bounded by channel-max)
    session_by_incoming_channel : HashMap<IncomingChannel, SessionRelay>  (the peer's channels)

  and of `allocate_session`, `deallocate_session`, `on_incoming_begin_inner`, `on_incoming_end` and
  `session_tx_by_incoming_channel` (the lookup `ConnectionEngine::forward_to_session` uses for every
  other session frame).  A session endpoint is a number that is never reused; its outgoing channel is.
-/
import Amqp.Routing
import Amqp.Gen.LimitsKernels

namespace Amqp.ChanRouting
open Amqp.Handles Amqp.Routing Amqp.Gen.Limits

structure CTab where
  slab : Slab
  /-- the relay stored in each slot of the slab: outgoing channel ↦ session endpoint -/
  bySlot : List (Nat × Nat)
  byIn : List (Nat × Nat)
  next : Nat
deriving Repr, DecidableEq

def CTab.empty : CTab := { slab := Slab.empty, bySlot := [], byIn := [], next := 0 }

inductive Op where
  /-- `Session::begin`: a local session asks for a channel -/
  | alloc
  /-- the peer's begin on its channel `ch`, naming our channel in `remote-channel` (or not) -/
  | inBegin (ch : Nat) (remote : Option Nat)
  /-- any other session frame of the peer on its channel -/
  | inFrame (ch : Nat)
  /-- the peer's end -/
  | inEnd (ch : Nat)
  /-- the session is over locally: `deallocate_session(outgoing channel)` -/
  | dealloc (out : Nat)
deriving Repr, DecidableEq

inductive Out where
  | allocated (sid out : Nat)
  | channelMaxReached
  | to (sid : Nat)
  /-- a begin without `remote-channel`: a session initiated by the peer (refused by the client side) -/
  | remotelyInitiated
  | notFound
  | done
deriving Repr, DecidableEq

def step (bound : Nat) (t : CTab) : Op → CTab × Out
  | .alloc =>
    let k := t.slab.vacantKey
    if allocate_session.cond_if_0 (outgoing_channel := k) (self_agreed_channel_max := bound) then (t, .channelMaxReached)
    else
      ({ t with slab := (t.slab.insert "").1, bySlot := put k t.next t.bySlot, next := t.next + 1 }, .allocated t.next k)
  | .inBegin ch remote =>
    match remote with
    | none => (t, .remotelyInitiated)
    | some oc =>
      match get oc t.bySlot with
      | some s => ({ t with byIn := put ch s t.byIn }, .to s)
      | none => (t, .notFound)
  | .inFrame ch =>
    match get ch t.byIn with
    | some s => (t, .to s)
    | none => (t, .notFound)
  | .inEnd ch =>
    match get ch t.byIn with
    | some s => ({ t with byIn := del ch t.byIn }, .to s)
    | none => (t, .notFound)
  | .dealloc oc =>
    ({ t with slab := (t.slab.remove oc).1, bySlot := del oc t.bySlot }, .done)

def run (bound : Nat) (t : CTab) : List Op → CTab × List Out
  | [] => (t, [])
  | op :: ops =>
    let (t1, o) := step bound t op
    let (t2, os) := run bound t1 ops
    (t2, o :: os)

/-- how an operation and its outcome change what the peer's channels designate -/
def desigStep (d : Desig) : Op → Out → Desig
  | .inBegin ch _, .to s => d.set ch s
  | .inEnd ch, .to _ => d.clear ch
  | _, _ => d

/-- source facts (regenerated from connection/mod.rs on every run): `allocate_session` takes the slab's
    vacant entry and stores the relay in it; `deallocate_session` removes the slot; the peer's begin is
    looked up in the slab by its `remote-channel` and stored under the peer's channel; the peer's end
    REMOVES that entry; every other frame is looked up under the peer's channel -/
def sourceShape : Bool :=
  open Amqp.Gen.RoutingK in
  decide (allocate_session_order.idx_vacant_entry < allocate_session_order.idx_entry___insert) &&
  decide (allocate_session_order.idx_entry___insert < 1000) &&
  decide (deallocate_session_order.idx_session_by_outgoing_channel___remove < 1000) &&
  decide (on_incoming_begin_order.idx_session_by_outgoing_channel___get < on_incoming_begin_order.idx_session_by_incoming_channel___insert) &&
  decide (on_incoming_begin_order.idx_session_by_incoming_channel___insert < 1000) &&
  decide (on_incoming_end_order.idx_session_by_incoming_channel___remove < 1000) &&
  decide (session_lookup_order.idx_session_by_incoming_channel___get < 1000)

end Amqp.ChanRouting
