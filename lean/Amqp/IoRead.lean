/-
  C20 — "decoding from an in-memory slice and decoding from a stream give the same result and consume
  the same number of bytes": the two implementations of the `Read` trait the deserializer is written
  against (`serde_amqp/src/read/sliceread.rs`, `ioread.rs`), operation by operation.

  A stream is what it still has to deliver; `std::io::Read::read_exact` (whatever the stream's chunking,
  whatever retryable interruptions it reports) either delivers exactly the bytes asked for or fails.
  The io reader keeps a look-ahead buffer (`buf`) in front of the stream.
-/
import Amqp.Gen.IoReadKernels

namespace Amqp.IoRead

abbrev Bytes := List UInt8

/-- `IoReader`: bytes looked at but not yet handed out, the stream behind them, bytes handed out so far -/
structure Io where
  buf : Bytes
  src : Bytes
  consumed : Nat
deriving Repr, DecidableEq

/-- `SliceReader`: what is left of the slice, and how much of it has been handed out -/
structure Sl where
  rest : Bytes
  consumed : Nat
deriving Repr, DecidableEq

/-- `reader.read_exact(&mut [0; n])` on the stream -/
def srcExact (src : Bytes) (n : Nat) : Option (Bytes × Bytes) :=
  if src.length < n then none else some (src.take n, src.drop n)

/-- the largest piece `fill_buffer` asks the stream for at once -/
def CHUNK : Nat := 65536

/-- `IoReader::fill_buffer(len)`: the buffer grows piece by piece to `len` bytes; a failed read leaves
    the buffer as it was before that piece (fuel = number of pieces that can be needed) -/
def fill : Nat → Io → Nat → Option Io
  | 0, r, len => if r.buf.length < len then none else some r
  | fuel + 1, r, len =>
    if r.buf.length < len then
      let step := min (len - r.buf.length) CHUNK
      match srcExact r.src step with
      | none => none
      | some (piece, rest) => fill fuel { r with buf := r.buf ++ piece, src := rest } len
    else some r

def Io.fillBuffer (r : Io) (len : Nat) : Option Io := fill (len + 1) r len

/-- `peek` -/
def Io.peek (r : Io) : Option UInt8 × Io :=
  match r.buf with
  | b :: _ => (some b, r)
  | [] =>
    match r.src with
    | b :: rest => (some b, { r with buf := [b], src := rest })
    | [] => (none, r)

/-- `next`: `none` = the stream has ended (an error) -/
def Io.next (r : Io) : Option (UInt8 × Io) :=
  match r.buf with
  | b :: bs => some (b, { r with buf := bs, consumed := r.consumed + 1 })
  | [] =>
    match r.src with
    | b :: rest => some (b, { r with src := rest, consumed := r.consumed + 1 })
    | [] => none

/-- `peek_bytes(n)` -/
def Io.peekBytes (r : Io) (n : Nat) : Option (Bytes × Io) :=
  if r.buf.length < n then
    match r.fillBuffer n with
    | none => none
    | some r' => some (r'.buf.take n, r')
  else some (r.buf.take n, r)

/-- `read_exact(&mut [0; n])` -/
def Io.readExact (r : Io) (n : Nat) : Option (Bytes × Io) :=
  if r.buf.length < n then
    match srcExact r.src (n - r.buf.length) with
    | none => none
    | some (piece, rest) => some (r.buf ++ piece, { buf := [], src := rest, consumed := r.consumed + n })
  else some (r.buf.take n, { r with buf := r.buf.drop n, consumed := r.consumed + n })

/-- `forward_read_bytes_with_hint(len)` / `forward_read_str(len)`: fill, hand out, drain -/
def Io.forwardBytes (r : Io) (len : Nat) : Option (Bytes × Io) :=
  match r.fillBuffer len with
  | none => none
  | some r' => some (r'.buf.take len, { r' with buf := r'.buf.drop len, consumed := r'.consumed + len })

/-! the slice reader -/

def Sl.peek (s : Sl) : Option UInt8 := s.rest.head?

def Sl.next (s : Sl) : Option (UInt8 × Sl) :=
  match s.rest with
  | b :: bs => some (b, { rest := bs, consumed := s.consumed + 1 })
  | [] => none

def Sl.peekBytes (s : Sl) (n : Nat) : Option Bytes :=
  if s.rest.length < n then none else some (s.rest.take n)

def Sl.readExact (s : Sl) (n : Nat) : Option (Bytes × Sl) :=
  if s.rest.length < n then none else some (s.rest.take n, { rest := s.rest.drop n, consumed := s.consumed + n })

/-- what an io reader stands for: a slice reader over the bytes it has not yet handed out -/
def abs (r : Io) : Sl := { rest := r.buf ++ r.src, consumed := r.consumed }

/-- source facts (regenerated from read/ioread.rs on every run): `fill_buffer` loops while the buffer
    is short, asks for at most `CHUNK` at a time and truncates when the stream fails; `read_exact`
    takes out of the buffer exactly what it hands over (`drain`, in both branches — never `clear`,
    which would also drop bytes that were peeked and not asked for) and counts after the copy; `next`
    takes the first buffered byte before it asks the stream, and counts one; `peek_bytes` fills and
    does not count; the forwarding read fills, hands over, drains and counts, in that order, and
    does not go through the counting `read_bytes` (which would count twice) -/
def sourceShape : Bool :=
  open Amqp.Gen.IoReadK in
  decide (fill_buffer_order.idx_while_self___buf___len_______len < fill_buffer_order.idx_min___CHUNK__) &&
  decide (fill_buffer_order.idx_min___CHUNK__ < fill_buffer_order.idx_read_exact) &&
  decide (fill_buffer_order.idx_read_exact < fill_buffer_order.idx_truncate) &&
  decide (fill_buffer_order.idx_truncate < 1000) &&
  decide (pop_first_order.idx_self___buf___remove___0__ < 1000) &&
  decide (read_exact_order.idx_if_l___n < read_exact_order.idx_self___buf___drain) &&
  decide (read_exact_order.idx_self___buf___drain < read_exact_order.idx_self___consumed_____n) &&
  decide (read_exact_order.idx_self___consumed_____n < read_exact_order.idx_last_self___buf___drain) &&
  decide (read_exact_order.idx_last_self___buf___drain < 1000) &&
  decide (read_exact_order.idx_self___buf___clear = 1000) &&
  decide (next_order.idx_pop_first < next_order.idx_self___consumed_____1) &&
  decide (next_order.idx_self___consumed_____1 < next_order.idx_read_exact) &&
  decide (next_order.idx_read_exact < 1000) &&
  decide (peek_bytes_order.idx_if_l___n < peek_bytes_order.idx_fill_buffer) &&
  decide (peek_bytes_order.idx_fill_buffer < 1000) &&
  decide (peek_bytes_order.idx_self___consumed = 1000) &&
  decide (forward_bytes_order.idx_fill_buffer < forward_bytes_order.idx_visit_bytes) &&
  decide (forward_bytes_order.idx_visit_bytes < forward_bytes_order.idx_self___buf___drain) &&
  decide (forward_bytes_order.idx_self___buf___drain < forward_bytes_order.idx_self___consumed_____len) &&
  decide (forward_bytes_order.idx_self___consumed_____len < 1000) &&
  decide (forward_bytes_order.idx_read_bytes = 1000)

/-- source fact: `fill_buffer`, `peek`, `next` and `read_exact` take bytes from the stream through
    `read_exact` and through nothing else (no `read`, whose short counts they would have to handle, no
    `read_to_end`, no `bytes`) — so a stream is to the io reader what it answers to sequences of `read_exact`
    calls (`Amqp.Chunks.chunks_are_one_stream`) -/
def streamOnlyThroughReadExact : Bool :=
  open Amqp.Gen.IoReadK in
  decide (fill_buffer_stream.idx_self___reader___read_exact__ < 1000) && decide (fill_buffer_stream.idx_self___reader___read__ = 1000) &&
  decide (fill_buffer_stream.idx_self___reader___read_to_end__ = 1000) && decide (fill_buffer_stream.idx_self___reader___bytes__ = 1000) &&
  decide (peek_stream.idx_self___reader___read_exact__ < 1000) && decide (peek_stream.idx_self___reader___read__ = 1000) &&
  decide (peek_stream.idx_self___reader___read_to_end__ = 1000) && decide (peek_stream.idx_self___reader___bytes__ = 1000) &&
  decide (next_stream.idx_self___reader___read_exact__ < 1000) && decide (next_stream.idx_self___reader___read__ = 1000) &&
  decide (next_stream.idx_self___reader___read_to_end__ = 1000) && decide (next_stream.idx_self___reader___bytes__ = 1000) &&
  decide (read_exact_stream.idx_self___reader___read_exact__ < 1000) && decide (read_exact_stream.idx_self___reader___read__ = 1000) &&
  decide (read_exact_stream.idx_self___reader___read_to_end__ = 1000) && decide (read_exact_stream.idx_self___reader___bytes__ = 1000)

end Amqp.IoRead
