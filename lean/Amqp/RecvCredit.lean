/-
  Receiver link credit (C09): model of
  `LinkFlowState<Receiver>::{on_incoming_flow, consume}` (link/state.rs),
  `ReceiverLink::get_link_flow` (link/receiver_link.rs) and
  `ReceiverInner::{on_complete_transfer, dispose, dispose_all, update_credit_if_auto,
  set_credit, drain}` (link/receiver.rs).
-/
import Amqp.U32
import Amqp.Gen.CreditKernels
import Amqp.Gen.RecvCreditKernels

namespace Amqp.RecvCredit
open Amqp Amqp.Gen.Credit Amqp.Gen.RecvCredit

inductive Mode where
  | auto (n : Nat)
  | manual
deriving Repr, DecidableEq

structure RSt where
  dc : Nat              -- delivery_count as last learnt from the sender + deliveries since
  lc : Nat              -- link_credit
  drain : Bool
  processed : Nat       -- deliveries disposed since the last credit refresh
  mode : Mode
  queued : Nat          -- complete deliveries forwarded by the session, not yet consumed by the link
  pending : Nat         -- `pending_deliveries` (maintained by relay and link)
deriving Repr, DecidableEq

inductive Out where
  | flow (dc credit : Nat) (drain echo : Bool)
  | delivered
  | limitExceeded
  | nothing             -- `recv` with nothing queued (would wait)
deriving Repr, DecidableEq

inductive Op where
  /-- a flow from the sender (delivery-count if stated, echo request) -/
  | inFlow (dc : Option Nat) (echo : Bool)
  /-- a transfer frame arrives at the session (`more`, `aborted` as on the frame) -/
  | arrive (more aborted : Bool)
  /-- the application's `recv` lets the link process the oldest queued delivery -/
  | recv
  /-- the application disposes of `k` deliveries in one call (`dispose` = 1, `dispose_all` = k) -/
  | dispose (k : Nat)
  | setCredit (c : Nat)
  | drain
deriving Repr, DecidableEq

/-- `get_link_flow` + `send_flow` -/
def sendFlow (s : RSt) (credit : Option Nat) (drain : Option Bool) (echo : Bool) : RSt × Out :=
  let s1 : RSt := match credit with
    | some c => { s with lc := get_link_flow.assign_link_credit_0 c }
    | none => s
  let s2 : RSt := match drain with
    | some d => { s1 with drain := get_link_flow.assign_drain_0 d }
    | none => s1
  (s2, .flow s2.dc s2.lc s2.drain echo)

/-- `update_credit_if_auto` -/
def topUp (s : RSt) : RSt × List Out :=
  match s.mode with
  | .auto n =>
    if update_credit_if_auto.cond_if_0 n s.processed then
      let (s1, o) := sendFlow { s with processed := 0 } (some n) (some false) false
      (s1, [o])
    else (s, [])
  | .manual => (s, [])

/-- `LinkFlowState<Receiver>::on_incoming_flow` (runs in the session task) -/
def onInFlow (s : RSt) (dc : Option Nat) (echo : Bool) : RSt × List Out :=
  let s1 : RSt := match dc with
    | some d => { s with dc := receiver_on_incoming_flow.assign_delivery_count_0 d s.pending }
    | none => s
  (s1, if echo then [.flow s1.dc s1.lc s1.drain false] else [])

/-- `LinkRelay::Receiver::on_incoming_transfer` (runs in the session task) -/
def onArrive (s : RSt) (more aborted : Bool) : RSt × List Out :=
  if relay_on_incoming_transfer.cond_if_0 aborted more then
    ({ s with queued := s.queued + 1, pending := s.pending + 1 }, [])
  else (s, [])

/-- `ReceiverLink::on_complete_transfer` → `LinkFlowState<Receiver>::consume(1)` -/
def onRecv (s : RSt) : RSt × List Out :=
  if s.queued = 0 then (s, [.nothing])
  else if receiver_consume.cond_if_0 1 s.lc then (s, [.limitExceeded])
  else ({ s with dc := receiver_consume.assign_delivery_count_0 1 s.dc
                 lc := receiver_consume.assign_link_credit_0 1 s.lc
                 queued := s.queued - 1
                 pending := s.pending - 1 }, [.delivered])

def modeWith (m : Mode) (c : Nat) : Mode :=
  match m with
  | .auto _ => .auto c
  | .manual => .manual

/-- `ReceiverInner::set_credit` -/
def onSetCredit (s : RSt) (c : Nat) : RSt × List Out :=
  let (s1, o) := sendFlow { s with processed := 0, mode := modeWith s.mode c } (some c) (some false) false
  (s1, [o])

/-- `ReceiverInner::drain` -/
def onDrain (s : RSt) : RSt × List Out :=
  if s.drain then ({ s with processed := 0 }, [])
  else
    let (s1, o) := sendFlow { s with processed := 0 } none (some true) false
    (s1, [o])

def step (s : RSt) : Op → RSt × List Out
  | .inFlow dc echo => onInFlow s dc echo
  | .arrive more aborted => onArrive s more aborted
  | .recv => onRecv s
  | .dispose k => topUp { s with processed := s.processed + k }
  | .setCredit c => onSetCredit s c
  | .drain => onDrain s

def run (s : RSt) : List Op → RSt × List Out
  | [] => (s, [])
  | op :: ops =>
    let (s1, o1) := step s op
    let (s2, o2) := run s1 ops
    (s2, o1 ++ o2)

/-- a receiver just attached: delivery-count from the sender's attach, then
    (Auto n) the initial `set_credit n` -/
def attached (idc : Nat) (mode : Mode) : RSt :=
  { dc := idc, lc := 0, drain := false, processed := 0, mode := mode, queued := 0, pending := 0 }

/-- source facts: at an attach the receiver's count becomes the sender's `initial-delivery-count` as it
    is (no carrying over of an earlier count); a batch disposal adds the size of the batch to the
    count that drives the top-up, whatever the settlement state of its deliveries -/
def attachTakesTheSendersCount : Bool :=
  open attach_count in
  decide (idx_initial_delivery_count_mut_________initial_delivery_count__ < 1000) &&
  decide (idx_delivery_count_mut_________initial_delivery_count__ < 1000)

def batchCountsEveryDelivery : Bool :=
  open dispose_all_count in
  decide (idx_let_total___delivery_infos___len_____as_u32 < idx_fetch_add___total) &&
  decide (idx_fetch_add___total < idx_update_credit_if_auto___prev___total__) &&
  decide (idx_update_credit_if_auto___prev___total__ < 1000)

/-- source fact: `on_complete_transfer` takes the credit (`consume(1)`) before it decodes the payload, so
    that `onRecv` is the accounting of every completed delivery, decodable as the type the application
    asked for or not -/
def creditTakenBeforeDecoding : Bool :=
  open credit_before_decoding in
  decide (idx_self___flow_state___consume___1____ < idx_decode_message_from_reader) &&
  decide (idx_decode_message_from_reader < 1000)

/-- `ReceiverInner::resume_incoming_attach` when nothing is queued: the delivery-count is the one the
    sender's new attach carries, and the credit held is issued again (`set_credit(link_credit)`) -/
def resume (s : RSt) (idc : Nat) : RSt × List Out :=
  onSetCredit { s with dc := idc } s.lc

end Amqp.RecvCredit
