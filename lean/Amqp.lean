-- Root of the executable model library (no imports outside core Lean).
import Amqp.U32
import Amqp.Gen.SessionKernels
import Amqp.Gen.CreditKernels
import Amqp.Session
import Amqp.Credit
import Amqp.Gen.RecvCreditKernels
import Amqp.RecvCredit
import Amqp.Gen.FrameKernels
import Amqp.Frame
import Amqp.Gen.Codes
import Amqp.Codec
import Amqp.Reasm
import Amqp.Handles
import Amqp.LinkSplit
import Amqp.Gen.SettleKernels
import Amqp.Settle
