import Driver.Util
import Driver.Session
import Driver.Main
