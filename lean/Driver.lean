import Driver.Util
import Driver.Session
import Driver.Credit
import Driver.RecvCredit
import Driver.Frame
import Driver.Codec
import Driver.Reasm
import Driver.Main
