import Amqp.Dispose
import Driver.Util

/-! `A batch id:m id:m …` (m = `-` none, `0` first, `1` second) — the indices `consecutive_chunk_indices`
    returns and the dispositions `dispose_all` writes for the (already sorted) batch -/
namespace Driver.Dispose
open Amqp.Dispose

def info (w : String) : Option Info :=
  match w.splitOn ":" with
  | [i, m] => do
    let id ← i.toNat?
    let mode ← (match m with | "-" => some none | "0" => some (some false) | "1" => some (some true) | _ => none)
    pure ⟨id, mode⟩
  | _ => none

def showMode : Option Bool → String
  | none => "-" | some false => "0" | some true => "1"

def step (ws : List String) : Option String :=
  match ws with
  | "batch" :: is => do
    let infos ← is.mapM info
    let inds := chunkInds 0 infos
    let ds := disposeAll infos
    pure s!"inds={",".intercalate (inds.map toString)} disps={";".intercalate (ds.map (fun d => s!"{d.first}-{d.last}/{showMode d.mode}"))}"
  | _ => none

end Driver.Dispose
