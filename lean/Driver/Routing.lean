import Amqp.Routing
import Driver.Util

namespace Driver.Routing
open Amqp.Routing Driver

def showOut : Out → String
  | .allocated lid out => s!"A {lid} {out}"
  | .duplicateName => "DUP"
  | .to lid => s!"TO {lid}"
  | .handleInUse => "INUSE"
  | .nameNotFound => "NONAME"
  | .unattached => "UNATTACHED"
  | .done => "DONE"

def op (ws : List String) : Option Op :=
  match ws with
  | ["alloc", name] => some (.alloc name)
  | ["inattach", name, h] => do pure (.inAttach name (← h.toNat?))
  | ["frame", h] => do pure (.inFrame (← h.toNat?))
  | ["indetach", h] => do pure (.inDetach (← h.toNat?))
  | ["dealloc", k] => do pure (.dealloc (← k.toNat?))
  | _ => none

def step (st : Tab) (ws : List String) : Option (Tab × String) :=
  match ws with
  | ["reset"] => some (Tab.empty, "ok")
  | _ => do
    let o ← op ws
    let (t, out) := Amqp.Routing.step st o
    pure (t, showOut out)

end Driver.Routing
