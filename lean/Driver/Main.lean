/-
  Line-protocol driver: executes the *model's* definitions on the operation
  lines produced by the Rust correspondence harness.  One line in, one line
  out.  The first word selects the model.
-/
import Driver.Session
import Driver.Credit
import Driver.RecvCredit
import Driver.Frame
import Driver.Codec
import Driver.Reasm
import Driver.Handles
import Driver.Settle
import Driver.Conn
import Driver.Life
import Driver.Limits
import Driver.FailProp
import Driver.Cancel
import Driver.Sasl
import Driver.Txn
import Driver.Typed
import Driver.DetachHold
import Driver.IoRead
import Driver.Routing
import Driver.ChanRouting
import Driver.PendingDetach
import Driver.Chunks
import Driver.Dispose

structure DState where
  sess : Amqp.Session.St := Amqp.Session.init 0 0 0
  credit : Amqp.Credit.SSt := { dc := 0, lc := 0, initDc := 0, drain := false }
  recv : Amqp.RecvCredit.RSt := Amqp.RecvCredit.attached 0 .manual
  frame : Nat × Amqp.Frame.DecSt := (512, Amqp.Frame.decInit)
  reasm : Option Amqp.Reasm.Inc := none
  links : Amqp.Handles.Links := Amqp.Handles.Links.empty
  settle : Amqp.Settle.St := Amqp.Settle.init []
  rsettle : Amqp.Settle.RSt := Amqp.Settle.rinit false
  conn : Driver.Conn.DSt := Driver.Conn.init
  slife : Amqp.SessLife.St := Amqp.SessLife.mapped0
  limits : Driver.Limits.DSt := {}
  routing : Amqp.Routing.Tab := Amqp.Routing.Tab.empty
  chans : Driver.ChanRouting.DSt := {}

def handle (st : DState) (line : String) : DState × String :=
  match Driver.words line with
  | "S" :: ws =>
    match Driver.Session.step st.sess ws with
    | some (s, out) => ({ st with sess := s }, out)
    | none => (st, "bad-op")
  | "K" :: ws =>
    match Driver.Credit.step st.credit ws with
    | some (s, out) => ({ st with credit := s }, out)
    | none => (st, "bad-op")
  | "R" :: ws =>
    match Driver.RecvCredit.step st.recv ws with
    | some (s, out) => ({ st with recv := s }, out)
    | none => (st, "bad-op")
  | "F" :: ws =>
    match Driver.Frame.step st.frame ws with
    | some (s, out) => ({ st with frame := s }, out)
    | none => (st, "bad-op")
  | "V" :: ws => (st, (Driver.Codec.step ws).getD "bad-op")
  | "M" :: ws =>
    match Driver.Reasm.step st.reasm ws with
    | some (s, out) => ({ st with reasm := s }, out)
    | none => (st, "bad-op")
  | "B" :: ws => (st, (Driver.PendingDetach.step ws).getD "bad-op")
  | "O" :: ws => (st, (Driver.Chunks.step ws).getD "bad-op")
  | "A" :: ws => (st, (Driver.Dispose.step ws).getD "bad-op")
  | "J" :: ws =>
    match Driver.ChanRouting.step st.chans ws with
    | some (s, out) => ({ st with chans := s }, out)
    | none => (st, "bad-op")
  | "U" :: ws =>
    match Driver.Routing.step st.routing ws with
    | some (s, out) => ({ st with routing := s }, out)
    | none => (st, "bad-op")
  | "H" :: ws =>
    match Driver.Handles.step st.links ws with
    | some (s, out) => ({ st with links := s }, out)
    | none => (st, "bad-op")
  | "Z" :: ws =>
    match Driver.Settle.step st.settle ws with
    | some (s, out) => ({ st with settle := s }, out)
    | none => (st, "bad-op")
  | "Y" :: ws =>
    match Driver.Settle.rstepLine st.rsettle ws with
    | some (s, out) => ({ st with rsettle := s }, out)
    | none => (st, "bad-op")
  | "C" :: ws =>
    match Driver.Conn.step st.conn ws with
    | some (s, out) => ({ st with conn := s }, out)
    | none => (st, "bad-op")
  | "E" :: ws =>
    match Driver.Life.sessStep st.slife ws with
    | some (s, out) => ({ st with slife := s }, out)
    | none => (st, "bad-op")
  | "L" :: ws => (st, (Driver.Life.linkCall ws).getD "bad-op")
  | "P" :: ws => (st, (Driver.FailProp.step ws).getD "bad-op")
  | "Q" :: ws => (st, (Driver.Cancel.step ws).getD "bad-op")
  | "X" :: ws => (st, (Driver.Sasl.step ws).getD "bad-op")
  | "T" :: ws => (st, (Driver.Txn.step ws).getD "bad-op")
  | "G" :: ws => (st, (Driver.Typed.step ws).getD "bad-op")
  | "D" :: ws => (st, (Driver.DetachHold.step ws).getD "bad-op")
  | "I" :: ws => (st, (Driver.IoRead.step ws).getD "bad-op")
  | "N" :: ws =>
    match Driver.Limits.step st.limits ws with
    | some (s, out) => ({ st with limits := s }, out)
    | none => (st, "bad-op")
  | "W" :: ws => (st, (Driver.Credit.wait ws).getD "bad-op")
  | _ => (st, "bad-op")

partial def loop (h : IO.FS.Stream) (out : IO.FS.Stream) (st : DState) : IO Unit := do
  let line ← h.getLine
  if line.isEmpty then
    out.flush
    return ()
  let (st', o) := handle st line
  out.putStrLn o
  loop h out st'

def main : IO Unit := do
  let stdin ← IO.getStdin
  let stdout ← IO.getStdout
  loop stdin stdout {}
