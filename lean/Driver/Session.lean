import Amqp.Session
import Driver.Util

namespace Driver.Session
open Amqp.Session Driver

def showOut : Out → String
  | .transfer tid did _ x =>
    s!"T {tid} {showOptNat did} {x.uid}"
  | .flow nii iw noi ow link => s!"F {nii} {iw} {noi} {ow} {showBool link}"

def showSt (s : St) : String :=
  s!"{s.noi} {s.riw} {s.nii} {s.row} {s.nfc} {s.buf.length}"

def render (s : St) (outs : List Out) : String :=
  String.intercalate ";" (outs.map showOut) ++ " # " ++ showSt s

/-- one line of the `S …` protocol -/
def step (st : St) (ws : List String) : Option (St × String) :=
  match ws with
  | ["init", a, b, c] => do
    let s := init (← a.toNat?) (← b.toNat?) (← c.toNat?)
    pure (s, render s [])
  | ["begin", a, b, c] => do
    let (s, o) := Amqp.Session.step st (.inBegin (← a.toNat?) (← b.toNat?) (← c.toNat?))
    pure (s, render s o)
  | ["out", u, t, se] => do
    let x : Xfer := { uid := (← u.toNat?), hasTag := (← bool01 t), settled := (← optBool se) }
    let (s, o) := Amqp.Session.step st (.outXfer x)
    pure (s, render s o)
  | ["flow", nif, iw, noi, ow, e] => do
    let f : InFlow := { nif := (← optNat nif), iw := (← iw.toNat?), noi := (← noi.toNat?),
                        ow := (← ow.toNat?), linkEcho := (← bool01 e) }
    let (s, o) := Amqp.Session.step st (.inFlow f)
    pure (s, render s o)
  | ["in"] =>
    let (s, o) := Amqp.Session.step st .inXfer
    pure (s, render s o)
  | _ => none

end Driver.Session
