import Amqp.Handles
import Driver.Util

namespace Driver.Handles
open Amqp.Handles Driver

def showRes : Res → String
  | .handle h => s!"H {h}"
  | .duplicateName => "DUP"
  | .freed => "FREED"
  | .unknown => "UNKNOWN"

def step (st : Links) (ws : List String) : Option (Links × String) :=
  match ws with
  | ["reset"] => some (Links.empty, "ok")
  | ["alloc", name] => let (l, r) := allocate st name; some (l, showRes r)
  | ["free", h] => do let (l, r) := deallocate st (← h.toNat?); pure (l, showRes r)
  | _ => none

end Driver.Handles
