import Amqp.Chunks
import Driver.IoRead

/-! `O read <chunks> n…` — successive `ByteReader::read` calls with destinations of the given sizes;
    `O exact <chunks> n…` — successive `read_exact` calls (stops at the first failure);
    `O iter <chunks>` — the byte iterator.  `<chunks>` is `-` (no chunk) or chunk,chunk,… with `.` for an
    empty chunk. -/
namespace Driver.Chunks
open Amqp.Chunks

def chunk (w : String) : Option Bytes := if w == "." then some [] else Driver.Frame.unhexAux w.toList

def chunksOf (w : String) : Option (List Bytes) :=
  if w == "-" then some [] else (w.splitOn ",").mapM chunk

def lens (cs : List Bytes) : String := ",".intercalate (cs.map (fun c => toString c.length))

def runReads : List Bytes → List String → List String → Option (List String × List Bytes)
  | cs, [], acc => some (acc.reverse, cs)
  | cs, w :: ws, acc => do
    let n ← w.toNat?
    let r := read cs n
    runReads r.chunks ws (s!"{Driver.IoRead.hexs r.copied}/{r.count}" :: acc)

def runExact : List Bytes → List String → List String → Option (List String × List Bytes)
  | cs, [], acc => some (acc.reverse, cs)
  | cs, w :: ws, acc => do
    let n ← w.toNat?
    match readExact (n + 1) cs n with
    | none => some (("E" :: acc).reverse, cs)
    | some (bs, cs') => runExact cs' ws (Driver.IoRead.hexs bs :: acc)

def step (ws : List String) : Option String :=
  match ws with
  | "read" :: c :: ns => do
    let cs ← chunksOf c
    let (out, cs') ← runReads cs ns []
    pure s!"{" ".intercalate out} [{lens cs'}]"
  | "exact" :: c :: ns => do
    let cs ← chunksOf c
    let (out, _) ← runExact cs ns []
    pure (" ".intercalate out)
  | ["iter", c] => do
    let cs ← chunksOf c
    pure s!"{Driver.IoRead.hexs (iterAll (iterLen cs + 1) cs)} #{iterLen cs}"
  | _ => none

end Driver.Chunks
