import Amqp.Conn
import Driver.Util

namespace Driver.Conn
open Amqp.Conn Amqp.Gen.Fsm Driver

def showOut : Out → String
  | .header => "header"
  | .open_ => "open"
  | .close e => s!"close:{if e then 1 else 0}"
  | .frame ch => s!"f{ch}"
  | .empty => "empty"
  | .toSession ch => s!"to{ch}"

def showOuts (os : List Out) : String :=
  if os.isEmpty then "-" else String.intercalate " " (os.map showOut)

def resName : Res → String
  | .ok => "ok" | .remoteClosed => "remoteClosed" | .remoteClosedWithError => "remoteClosedWithError"
  | .illegalState => "illegalState" | .notFound => "notFound" | .notImplemented => "notImplemented"
  | .transport => "transport"

/-- driver state: the model state and whether opening succeeded -/
structure DSt where
  st : St
  opened : Bool

def init : DSt := { st := opened0, opened := false }

def firstOf : Nat → Option PFrame
  | 0 => some .open_
  | 1 => some (.close false)
  | 2 => some (.close true)
  | 3 => some (.begin 0 none)
  | _ => none

def optNat (s : String) : Option (Option Nat) :=
  if s == "-1" then some none else (s.toNat?).map some

def step (d : DSt) (ws : List String) : Option (DSt × String) :=
  match ws with
  | ["reset", first, hb] => do
    let (s, os, ok) := openWith (firstOf (← first.toNat?))
    -- tokio's interval fires at once: a heartbeat right after the open when the peer asked for one
    if ok && (← hb.toNat?) == 1 then
      let (s2, o2) := Amqp.Conn.step s .heartbeat
      pure ({ st := s2, opened := ok }, showOuts (os ++ o2))
    else pure ({ st := s, opened := ok }, showOuts os)
  | "peer" :: rest =>
    let ev : Option Event := match rest with
      | ["open"] => some (.peer .open_)
      | ["close", e] => some (.peer (.close (e == "1")))
      | ["begin", ch, rc] => (do pure (.peer (.begin (← ch.toNat?) (← optNat rc))))
      | ["session", ch] => (do pure (.peer (.session (← ch.toNat?))))
      | ["end", ch] => (do pure (.peer (.end_ (← ch.toNat?))))
      | ["empty"] => some (.peer .empty)
      | _ => none
    ev.map (fun e => let (s, os) := Amqp.Conn.step d.st e; ({ d with st := s }, showOuts os))
  | ["eof"] => let (s, os) := Amqp.Conn.step d.st .eof; some ({ d with st := s }, showOuts os)
  | ["ctlclose", e] => let (s, os) := Amqp.Conn.step d.st (.ctlClose (e == "1")); some ({ d with st := s }, showOuts os)
  | ["ctlbegin"] => let (s, os) := Amqp.Conn.step d.st .ctlBegin; some ({ d with st := s }, showOuts os)
  | ["sess", ch] => do
    let (s, os) := Amqp.Conn.step d.st (.sessFrame (← ch.toNat?) false)
    pure ({ d with st := s }, showOuts os)
  | ["sess", ch, "end"] => do
    let (s, os) := Amqp.Conn.step d.st (.sessFrame (← ch.toNat?) true)
    pure ({ d with st := s }, showOuts os)
  | ["heartbeat"] => let (s, os) := Amqp.Conn.step d.st .heartbeat; some ({ d with st := s }, showOuts os)
  | ["result"] =>
    if !d.opened then some (d, "open-error")
    else match d.st.phase with
      | .stopped => some (d, match d.st.res with | some r => resName r | none => "ok")
      | _ => some (d, "running")
  | ["state"] => some (d, d.st.cs.name)
  | _ => none

end Driver.Conn
