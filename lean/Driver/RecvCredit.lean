import Amqp.RecvCredit
import Driver.Util

namespace Driver.RecvCredit
open Amqp.RecvCredit Driver

def showOut : Out → String
  | .flow dc c dr e => s!"F {dc} {c} {showBool dr} {showBool e}"
  | .delivered => "D"
  | .limitExceeded => "L"
  | .nothing => "N"

def render (s : RSt) (outs : List Out) : String :=
  String.intercalate ";" (outs.map showOut) ++ s!" # {s.lc}"

def parseMode (w : String) : Option Mode :=
  if w == "m" then some .manual
  else if w.startsWith "a" then (w.drop 1).toString.toNat?.map Mode.auto
  else none

def step (st : RSt) (ws : List String) : Option (RSt × String) :=
  match ws with
  | ["init", idc, m] => do
    let s := attached (← idc.toNat?) (← parseMode m)
    pure (s, render s [])
  | ["setcredit", c] => do
    let (s, o) := Amqp.RecvCredit.step st (.setCredit (← c.toNat?))
    pure (s, render s o)
  | ["inflow", dc, e] => do
    let (s, o) := Amqp.RecvCredit.step st (.inFlow (← optNat dc) (← bool01 e))
    pure (s, render s o)
  | ["arrive", m, a] => do
    let (s, o) := Amqp.RecvCredit.step st (.arrive (← bool01 m) (← bool01 a))
    pure (s, render s o)
  | ["recv"] =>
    let (s, o) := Amqp.RecvCredit.step st .recv
    pure (s, render s o)
  | ["recvbad"] =>
    -- a delivery the application cannot decode: the same accounting, reported as `M`
    let (s, o) := Amqp.RecvCredit.step st .recv
    pure (s, (render s o).replace "D" "M")
  | ["dispose", k] => do
    let (s, o) := Amqp.RecvCredit.step st (.dispose (← k.toNat?))
    pure (s, render s o)
  | ["resume", idc] => do
    let (s, o) := Amqp.RecvCredit.resume st (← idc.toNat?)
    pure (s, render s o)
  | ["drain"] =>
    let (s, o) := Amqp.RecvCredit.step st .drain
    pure (s, render s o)
  | _ => none

end Driver.RecvCredit
