import Amqp.Reasm
import Amqp.KeepTill
import Driver.Frame

namespace Driver.Reasm
open Amqp.Reasm Driver

def showOut : Out → String
  | .nothing => "N"
  | .delivery id tag fmt settled payload =>
    s!"D {id} {Driver.Frame.hex tag} {showOptNat fmt} {showBool settled} {Driver.Frame.hex payload}"
  | .inconsistent => "I"
  | .missingIdOrTag => "X"

def optHex (s : String) : Option (Option Bytes) :=
  if s == "none" then some none else (Driver.Frame.unhex s).map some

def step (st : Option Inc) (ws : List String) : Option (Option Inc × String) :=
  match ws with
  | ["reset"] => some (none, "ok")
  | ["frame", id, tag, fmt, settled, more, aborted, payload] => do
    let f : Frame := { id := (← optNat id), tag := (← optHex tag), fmt := (← optNat fmt),
                       settled := (← optBool settled), more := (← bool01 more), aborted := (← bool01 aborted),
                       payload := (← Driver.Frame.unhex payload) }
    let (s, o) := Amqp.Reasm.step st f
    pure (s, showOut o)
  | ["frame", id, tag, fmt, settled, more, aborted, payload, resume] => do
    let f : Frame := { id := (← optNat id), tag := (← optHex tag), fmt := (← optNat fmt),
                       settled := (← optBool settled), more := (← bool01 more), aborted := (← bool01 aborted),
                       payload := (← Driver.Frame.unhex payload) }
    let (s, o) := Amqp.Reasm.stepR st f (← bool01 resume)
    pure (s, showOut o)
  | "keep" :: n :: o :: chunks => do
    let cs ← chunks.mapM Driver.Frame.unhex
    let kept := Amqp.KeepTill.keepTill cs (← n.toNat?) (← o.toNat?)
    pure (st, " ".intercalate (kept.map Driver.Frame.hex))
  | _ => none

end Driver.Reasm
