import Amqp.Sasl
import Driver.Frame

namespace Driver.Sasl
open Amqp.Sasl Amqp.Frame Driver

/-- `.` = empty -/
def unhex (s : String) : Option Bytes := if s == "." then some [] else Driver.Frame.unhexAux s.toList

/-- `-` = none -/
def unhexOpt (s : String) : Option (Option Bytes) := if s == "-" then some none else (unhex s).map some

def hexo (b : Bytes) : String :=
  if b.isEmpty then "." else String.ofList (b.flatMap (fun x => [Driver.Frame.hexNib (x.toNat / 16), Driver.Frame.hexNib (x.toNat % 16)]))

def codeName : Code → String
  | .ok => "ok" | .auth => "auth" | .sys => "sys" | .sysPerm => "sysPerm" | .sysTemp => "sysTemp"

def parseCode : String → Option Code
  | "ok" => some .ok | "auth" => some .auth | "sys" => some .sys | "sysPerm" => some .sysPerm | "sysTemp" => some .sysTemp
  | _ => none

/-- the crypto table of a line: what the harness' own implementation computed -/
structure Table where
  hm : List (Bytes × Bytes × Bytes) := []
  h : List (Bytes × Bytes) := []
  hi : List (Bytes × Bytes × Nat × Option Bytes) := []

def miss : Bytes := str "MISS"

def Table.crypto (t : Table) : Crypto where
  hmac := fun k m => match t.hm.find? (fun e => e.1 == k && e.2.1 == m) with
    | some e => e.2.2
    | none => miss
  h := fun m => match t.h.find? (fun e => e.1 == m) with
    | some e => e.2
    | none => miss
  hi := fun p s i => match t.hi.find? (fun e => e.1 == p && e.2.1 == s && e.2.2.1 == i) with
    | some e => e.2.2.2
    | none => some miss

def parseEntry (t : Table) (w : String) : Option Table :=
  match w.splitOn ":" with
  | ["m", k, m, o] => do pure { t with hm := (← unhex k, ← unhex m, ← unhex o) :: t.hm }
  | ["h", m, o] => do pure { t with h := (← unhex m, ← unhex o) :: t.h }
  | ["p", p, s, i, o] => do pure { t with hi := (← unhex p, ← unhex s, ← i.toNat?, ← unhexOpt o) :: t.hi }
  | _ => none

def parseTable (ws : List String) : Option Table :=
  if ws == ["-"] then some {} else ws.foldlM parseEntry {}

def showFrame : ServerFrame → String
  | .challenge c => s!"c:{hexo c}"
  | .outcome code x => s!"o:{codeName code}:{match x with | some d => hexo d | none => "-"}"

/-- like `showFrame` but a challenge is only named (it carries the server's random nonce) -/
def showFrameKind : ServerFrame → String
  | .challenge _ => "c"
  | f => showFrame f

def splitAt (sep : String) (ws : List String) : List String × List String :=
  (ws.takeWhile (· != sep), (ws.dropWhile (· != sep)).drop 1)

def showVerdict : Verdict → String
  | .passed => "passed" | .failedCode c => s!"failed:{codeName c}" | .failedIo => "failed:io" | .failedHeader => "failed:header"

def parseIn (w : String) : Option (In × Bytes) :=
  match w.splitOn ":" with
  | ["i", m, r] => do pure (.frame (.init (← unhex m) (← unhexOpt r)), [])
  | ["i", m, r, n] => do pure (.frame (.init (← unhex m) (← unhexOpt r)), ← unhex n)
  | ["r", r] => do pure (.frame (.response (← unhex r)), [])
  | ["o"] => some (.frame (.other .outcome), [])
  | ["om"] => some (.frame (.other .mechanisms), [])
  | ["oc"] => some (.frame (.other .challenge), [])
  | ["b"] => some (.bad, [])
  | ["e"] => some (.eof, [])
  | _ => none

def parseHdr : String → Option Hdr
  | "sasl" => some .sasl | "amqp" => some .amqp | "other" => some .other | _ => none

def parseSrvIn (w : String) : Option SrvIn :=
  match w.splitOn ":" with
  | "m" :: ms => do pure (.frame (.mechanisms (← ms.mapM unhex)))
  | ["c", c] => do pure (.frame (.challenge (← unhex c)))
  | ["o", code, x] => do pure (.frame (.outcome (← parseCode code) (← unhexOpt x)))
  | ["x"] => some (.frame (.other .response))
  | ["xi"] => some (.frame (.other .init))
  | ["b"] => some .bad
  | ["e"] => some .eof
  | _ => none

def showCliOut : CliOut → String
  | .init m r => s!"i:{hexo m}:{match r with | some d => hexo d | none => "-"}"
  | .response r => s!"r:{hexo r}"

def showCliVerdict : CliVerdict → String
  | .authenticated => "authenticated" | .refused c => s!"refused:{codeName c}" | .error => "error"

def join (ws : List String) : String := if ws.isEmpty then "-" else " ".intercalate ws

def step (ws : List String) : Option String :=
  match ws with
  | ["plain", u, p, r] => do
    pure (codeName (plainValidate (← unhex u) (← unhex p) (← unhexOpt r)))
  | "scramsrv" :: mech :: user :: salt :: iters :: sk :: svk :: "T" :: rest => do
    let (tws, evs) := splitAt "E" rest
    let t ← parseTable tws
    let st : Stored := { salt := ← unhex salt, iterations := ← iters.toNat?, storedKey := ← unhex sk, serverKey := ← unhex svk }
    let user ← unhex user
    let mech ← unhex mech
    let ins ← evs.mapM parseIn
    let creds : Bytes → Option Stored := fun u => if u == user then some st else none
    -- each init carries the server nonce the implementation drew
    let (_, out) := ins.foldl (fun (acc : SrvState × List String) (e : In × Bytes) =>
      match e.1 with
      | .frame (.init m r) => let (s', f) := scramOnInit mech creds e.2 acc.1 m r; (s', acc.2 ++ [showFrameKind f])
      | .frame (.response r) => let (s', f) := scramOnResponse t.crypto creds acc.1 r; (s', acc.2 ++ [showFrameKind f])
      | _ => acc) (SrvState.initial, [])
    pure (join out)
  | "listen" :: "plain" :: u :: p :: hdr :: ins => do
    let ins ← ins.mapM parseIn
    let (out, v) := listen (plainAcceptor (← unhex u) (← unhex p)) () (← parseHdr hdr) (ins.map (·.1))
    pure s!"{join (out.map showFrameKind)} {showVerdict v}"
  | "listen" :: "scram" :: mech :: user :: salt :: iters :: sk :: svk :: hdr :: "T" :: rest => do
    let (tws, evs) := splitAt "E" rest
    let t ← parseTable tws
    let st : Stored := { salt := ← unhex salt, iterations := ← iters.toNat?, storedKey := ← unhex sk, serverKey := ← unhex svk }
    let user ← unhex user
    let ins ← evs.mapM parseIn
    let creds : Bytes → Option Stored := fun u => if u == user then some st else none
    let nonces := ins.filterMap (fun e => match e.1 with | .frame (.init _ _) => some e.2 | _ => none)
    let (out, v) := listen (scramAcceptor t.crypto (← unhex mech) creds) (.initial, nonces) (← parseHdr hdr) (ins.map (·.1))
    pure s!"{join (out.map showFrameKind)} {showVerdict v}"
  | "client" :: "scram" :: mech :: user :: pass :: nonce :: "T" :: rest => do
    let (tws, evs) := splitAt "E" rest
    let t ← parseTable tws
    let ins ← evs.mapM parseSrvIn
    let nonces ← (nonce.splitOn "+").mapM unhex
    let (out, v) := scramClientLoop t.crypto (← unhex mech) (← unhex user) (← unhex pass) .initial nonces ins
    pure s!"{join (out.map showCliOut)} {showCliVerdict v}"
  | "client" :: "simple" :: mech :: resp :: evs => do
    let ins ← evs.mapM parseSrvIn
    let (out, v) := simpleClientLoop (← unhex mech) (← unhexOpt resp) ins
    pure s!"{join (out.map showCliOut)} {showCliVerdict v}"
  | _ => none

end Driver.Sasl
