import Amqp.DetachHold
import Driver.Util

/-! `D run <riw> <op> …` — ops: `x<l>.<u>` a transfer handed over, `d<l>` a detach handed over,
    `w<n>` the peer's flow sets the window; answer: what leaves the session, in order -/
namespace Driver.DetachHold
open Amqp.DetachHold

def parseOp (s : String) : Option Op :=
  match s.toList with
  | 'x' :: r =>
    match (String.ofList r).splitOn "." with
    | [l, u] => do some (.hand (.xfer (← l.toNat?) (← u.toNat?)))
    | _ => none
  | 'd' :: r => (String.ofList r).toNat?.map (fun l => .hand (.detach l))
  | 'w' :: r => (String.ofList r).toNat?.map .window
  | _ => none

def showItem : Item → String
  | .xfer l u => s!"x{l}.{u}"
  | .detach l => s!"d{l}"

def step (ws : List String) : Option String :=
  match ws with
  | "run" :: riw :: ops => do
    let r ← riw.toNat?
    let ops ← ops.mapM parseOp
    let (s, out) := run { riw := r, buf := [] } ops
    some (" ".intercalate (out.map showItem) ++ s!" | held {s.buf.length}")
  | _ => none

end Driver.DetachHold
