import Amqp.SessLife
import Amqp.LinkLife
import Driver.Util

namespace Driver.Life
open Driver

def showSessOut : Amqp.SessLife.Out → String
  | .end_ e => s!"end:{if e then 1 else 0}"
  | .frame => "frame"

def sessRes : Amqp.SessLife.Res → String
  | .ok => "ok" | .remoteEnded => "remoteEnded" | .remoteEndedWithError => "remoteEndedWithError"
  | .illegalState => "illegalState" | .failed => "failed"

def sessStep (st : Amqp.SessLife.St) (ws : List String) : Option (Amqp.SessLife.St × String) :=
  let ev : Option Amqp.SessLife.Event := match ws with
    | ["peerend", e] => some (.peerEnd (e == "1"))
    | ["peerendq", e] => some (.peerEndQueued (e == "1"))
    | ["peerframe", ok] => some (.peerFrame (ok == "1"))
    | ["ctlend", e] => some (.ctlEnd (e == "1"))
    | ["linkout"] => some .linkOut
    | _ => none
  match ws with
  | ["reset"] => some (Amqp.SessLife.mapped0, "ok")
  | ["result"] =>
    some (st, match st.phase with
      | .stopped => (match st.res with | some r => sessRes r | none => "ok")
      | _ => "running")
  | _ => ev.map (fun e =>
      let (s, os) := Amqp.SessLife.step st e
      (s, if os.isEmpty then "-" else String.intercalate " " (os.map showSessOut)))

def linkRes : Amqp.LinkLife.Res → String
  | .ok => "ok" | .remoteError => "remoteError" | .closedByRemote => "closedByRemote"
  | .illegalState => "illegalState" | .mismatch => "mismatch"

/-- `call <detach|close> <pending: - | c e> <answer: c e>` -/
def linkCall (ws : List String) : Option String :=
  let b (s : String) : Bool := s == "1"
  match ws with
  | ["call", req, "-", ac, ae] =>
    let o := Amqp.LinkLife.call (if req == "close" then .close else .detach) none ⟨b ac, b ae⟩
    some (s!"{o.sent.map (fun x => if x then 1 else 0)} {linkRes o.res}")
  | ["call", req, pc, pe, ac, ae] =>
    let o := Amqp.LinkLife.call (if req == "close" then .close else .detach) (some ⟨b pc, b pe⟩) ⟨b ac, b ae⟩
    some (s!"{o.sent.map (fun x => if x then 1 else 0)} {linkRes o.res}")
  | _ => none

end Driver.Life
