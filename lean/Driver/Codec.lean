import Amqp.Codec
import Amqp.CodecSpec
import Amqp.Lazy
import Driver.Frame

namespace Driver.Codec
open Amqp.Codec Driver

def kinds : List FixedKind :=
  [.ubyte, .ushort, .uint, .ulong, .byte, .short, .int, .long, .float, .double,
   .dec32, .dec64, .dec128, .char, .timestamp, .uuid]

def kindIndex (k : FixedKind) : Nat :=
  match k with
  | .ubyte => 0 | .ushort => 1 | .uint => 2 | .ulong => 3 | .byte => 4 | .short => 5 | .int => 6
  | .long => 7 | .float => 8 | .double => 9 | .dec32 => 10 | .dec64 => 11 | .dec128 => 12
  | .char => 13 | .timestamp => 14 | .uuid => 15

def varIndex : VarKind → Nat
  | .binary => 0 | .string => 1 | .symbol => 2

def varOfIndex : Nat → Option VarKind
  | 0 => some .binary | 1 => some .string | 2 => some .symbol | _ => none

def hexs (b : Bytes) : String := String.ofList (b.flatMap (fun x => [Driver.Frame.hexNib (x.toNat / 16), Driver.Frame.hexNib (x.toNat % 16)]))

mutual
  partial def showValue : Value → String
    | .null => "n"
    | .bool true => "t"
    | .bool false => "f"
    | .fixed k bs => s!"x{kindIndex k}.{hexs bs}"
    | .var k bs => s!"y{varIndex k}.{hexs bs}"
    | .list vs => "l(" ++ showList vs ++ ")"
    | .map vs => "m(" ++ showList vs ++ ")"
    | .array vs => "a(" ++ showList vs ++ ")"
    | .described d v => "d(" ++ showValue d ++ "," ++ showValue v ++ ")"
  partial def showList : List Value → String
    | [] => ""
    | [v] => showValue v
    | v :: vs => showValue v ++ "," ++ showList vs
end

def takeHex : List Char → List Char × List Char
  | c :: cs => if (Driver.Frame.hexDigit c).isSome then let (h, r) := takeHex cs; (c :: h, r) else ([], c :: cs)
  | [] => ([], [])

def takeNat : List Char → Nat → Nat × List Char
  | c :: cs, acc => if c.isDigit then takeNat cs (acc * 10 + (c.toNat - '0'.toNat)) else (acc, c :: cs)
  | [], acc => (acc, [])

mutual
  partial def parseValue : List Char → Option (Value × List Char)
    | 'n' :: r => some (.null, r)
    | 't' :: r => some (.bool true, r)
    | 'f' :: r => some (.bool false, r)
    | 'x' :: r =>
      let (k, r1) := takeNat r 0
      match r1 with
      | '.' :: r2 =>
        let (h, r3) := takeHex r2
        match kinds[k]?, Driver.Frame.unhexAux h with
        | some kind, some bs => some (.fixed kind bs, r3)
        | _, _ => none
      | _ => none
    | 'y' :: r =>
      let (k, r1) := takeNat r 0
      match r1 with
      | '.' :: r2 =>
        let (h, r3) := takeHex r2
        match varOfIndex k, Driver.Frame.unhexAux h with
        | some kind, some bs => some (.var kind bs, r3)
        | _, _ => none
      | _ => none
    | 'l' :: '(' :: r => (parseItems r).map (fun (vs, r') => (.list vs, r'))
    | 'm' :: '(' :: r => (parseItems r).map (fun (vs, r') => (.map vs, r'))
    | 'a' :: '(' :: r => (parseItems r).map (fun (vs, r') => (.array vs, r'))
    | 'd' :: '(' :: r => do
      let (d, r1) ← parseValue r
      match r1 with
      | ',' :: r2 => do
        let (v, r3) ← parseValue r2
        match r3 with
        | ')' :: r4 => some (.described d v, r4)
        | _ => none
      | _ => none
    | _ => none
  partial def parseItems : List Char → Option (List Value × List Char)
    | ')' :: r => some ([], r)
    | cs => do
      let (v, r) ← parseValue cs
      match r with
      | ',' :: r' => do
        let (vs, r'') ← parseItems r'
        some (v :: vs, r'')
      | ')' :: r' => some ([v], r')
      | _ => none
end

mutual
  /-- choices: `l<form><wide>` | `k<wide><zero>[c;c;…]` | `d[c;c]` -/
  partial def parseCh : List Char → Option (Amqp.CodecSpec.Ch × List Char)
    | 'l' :: f :: w :: r =>
      if f.isDigit then some (.leaf (f.toNat - '0'.toNat) (w == '1'), r) else none
    | 'k' :: w :: z :: '[' :: r => (parseChs r).map (fun (cs, r') => (.node (w == '1') (z == '1') cs, r'))
    | 'd' :: '[' :: r => do
      let (a, r1) ← parseCh r
      match r1 with
      | ';' :: r2 => do
        let (b, r3) ← parseCh r2
        match r3 with
        | ']' :: r4 => some (.desc a b, r4)
        | _ => none
      | _ => none
    | _ => none
  partial def parseChs : List Char → Option (List Amqp.CodecSpec.Ch × List Char)
    | ']' :: r => some ([], r)
    | cs => do
      let (c, r) ← parseCh cs
      match r with
      | ';' :: r' => do
        let (rest, r'') ← parseChs r'
        some (c :: rest, r'')
      | ']' :: r' => some ([c], r')
      | _ => none
end

def showErr : DErr → String
  | .eof => "eof" | .badCode => "badcode" | .badValue => "badvalue" | .badLen => "badlen"
  | .utf8 => "utf8" | .depth => "depth" | .custom => "custom" | .fuel => "model-fuel"

def step (ws : List String) : Option String :=
  match ws with
  | ["enc", v] => do
    let (val, _) ← parseValue v.toList
    match encode val with
    | some bs => some (Driver.Frame.hex bs)
    | none => some "ERR"
  | ["size", v] => do
    let (val, _) ← parseValue v.toList
    match size .none val with
    | some n => some (toString n)
    | none => some "ERR"
  | ["spec", c, v] => do
    let (ch, _) ← parseCh c.toList
    let (val, _) ← parseValue v.toList
    match Amqp.CodecSpec.sEnc ch val with
    | some bs => some (if bs.isEmpty then "-" else hexs bs)
    | none => some "NONE"
  | ["lazy", h] => do
    let bs ← (if h == "-" then some [] else Driver.Frame.unhex h)
    match Amqp.Lazy.skim bs with
    | .ok (a, rest) => some s!"OK {a.length} {rest.length}"
    | .error e => some s!"ERR {showErr e}"
  | ["dec", h] => do
    let bs ← Driver.Frame.unhex h
    match decode bs with
    | .ok (v, rest) => some s!"OK {showValue v} {rest.length}"
    | .error e => some s!"ERR {showErr e}"
  | _ => none

end Driver.Codec
