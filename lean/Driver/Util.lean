/- helpers for the line-protocol driver -/
namespace Driver

def words (line : String) : List String :=
  (line.trimAscii.toString.splitOn " ").filter (· ≠ "")

/-- `-1` encodes `none` -/
def optNat (s : String) : Option (Option Nat) :=
  if s == "-1" then some none else (s.toNat?).map some

def optBool (s : String) : Option (Option Bool) :=
  match s with
  | "-1" => some none
  | "0" => some (some false)
  | "1" => some (some true)
  | _ => none

def bool01 (s : String) : Option Bool :=
  match s with
  | "0" => some false
  | "1" => some true
  | _ => none

def showOptNat : Option Nat → String
  | none => "-1"
  | some n => toString n

def showBool (b : Bool) : String := if b then "1" else "0"

end Driver
