import Amqp.IoRead
import Driver.Frame

/-! `I io|sl <hex|-> op …` — ops `p` peek, `n` next, `k<n>` peek_bytes(n), `r<n>` read_exact(n),
    `f<n>` forward_read_bytes(n); the run stops at the first failure -/
namespace Driver.IoRead
open Amqp.IoRead

def hexs (b : List UInt8) : String :=
  if b.isEmpty then "." else String.ofList (b.flatMap (fun x => [Driver.Frame.hexNib (x.toNat / 16), Driver.Frame.hexNib (x.toNat % 16)]))

def runIo : Io → List String → List String → List String × Io
  | r, [], acc => (acc.reverse, r)
  | r, op :: ops, acc =>
    match op.toList with
    | ['p'] =>
      let (b, r') := r.peek
      runIo r' ops ((match b with | some x => "p:" ++ hexs [x] | none => "p:-") :: acc)
    | ['n'] =>
      match r.next with
      | some (b, r') => runIo r' ops (("n:" ++ hexs [b]) :: acc)
      | none => (("n:E" :: acc).reverse, r)
    | 'k' :: d =>
      match (String.ofList d).toNat? with
      | none => (("bad" :: acc).reverse, r)
      | some n =>
        match r.peekBytes n with
        | some (bs, r') => runIo r' ops (("k:" ++ hexs bs) :: acc)
        | none => (("k:E" :: acc).reverse, r)
    | 'r' :: d =>
      match (String.ofList d).toNat? with
      | none => (("bad" :: acc).reverse, r)
      | some n =>
        match r.readExact n with
        | some (bs, r') => runIo r' ops (("r:" ++ hexs bs) :: acc)
        | none => (("r:E" :: acc).reverse, r)
    | 'f' :: d =>
      match (String.ofList d).toNat? with
      | none => (("bad" :: acc).reverse, r)
      | some n =>
        match r.forwardBytes n with
        | some (bs, r') => runIo r' ops (("f:" ++ hexs bs) :: acc)
        | none => (("f:E" :: acc).reverse, r)
    | _ => (("bad" :: acc).reverse, r)

def step (ws : List String) : Option String :=
  match ws with
  | "io" :: h :: ops => do
    let bs ← (if h == "-" then some [] else Driver.Frame.unhex h)
    let (out, r) := runIo { buf := [], src := bs, consumed := 0 } ops []
    some (" ".intercalate out ++ s!" #{r.consumed}")
  | _ => none

end Driver.IoRead
