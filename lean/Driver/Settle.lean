import Amqp.Settle
import Driver.Util

namespace Driver.Settle
open Amqp.Settle Driver

def dsOf : Nat → DS
  | 0 => .accepted | 1 => .rejected | 2 => .released | 3 => .modified | 4 => .received | _ => .none

def dsName : DS → String
  | .accepted => "accepted" | .rejected => "rejected" | .released => "released"
  | .modified => "modified" | .received => "received" | .none => "none"

def showOut : Out → String
  | .resolved l t st => s!"R{l}.{t}:{dsName st}"
  | .echo f l st => s!"E{f}-{l}:{dsName st}"

def showOuts (os : List Out) : String :=
  if os.isEmpty then "-" else String.intercalate " " (os.map showOut)

def parseNats : List String → Option (List Nat)
  | [] => some []
  | w :: ws => do let n ← w.toNat?; let r ← parseNats ws; pure (n :: r)

def step (st : St) (ws : List String) : Option (St × String) :=
  match ws with
  | "reset" :: modes => do
    let ms ← parseNats modes
    pure (init (ms.map (· == 2)), "ok")
  | ["send", link, tag, id, settled] => do
    let (s, os) := Amqp.Settle.step st (.send (← link.toNat?) (← tag.toNat?) (← id.toNat?) ((← settled.toNat?) == 1))
    pure (s, showOuts os)
  | ["disp", first, last, settled, code] => do
    let (s, os) := Amqp.Settle.step st (.disp (← first.toNat?) (← last.toNat?) ((← settled.toNat?) == 1) (dsOf (← code.toNat?)))
    pure (s, showOuts os)
  | ["left"] =>
    -- unsettled entries per link
    some (st, String.intercalate " " ((List.range st.second.length).map (fun l => toString (st.unsettled.filter (fun x => x.1 == l)).length)))
  | _ => none

def showROut : ROut → String
  | .disposition f l settled st => s!"D{f}-{l}:{if settled then 1 else 0}:{dsName st}"

def rstepLine (st : RSt) (ws : List String) : Option (RSt × String) :=
  match ws with
  | ["reset", mode] => do pure (rinit ((← mode.toNat?) == 2), "ok")
  | ["arrive", tag, id, pre] => do
    let (s, _) := rstep st (.arrive (← tag.toNat?) (← id.toNat?) ((← pre.toNat?) == 1) none)
    pure (s, "ok")
  | ["arrive", tag, id, pre, mode] => do
    -- mode: 0 = the transfer names none, 1 = first, 2 = second
    let m ← mode.toNat?
    let (s, _) := rstep st (.arrive (← tag.toNat?) (← id.toNat?) ((← pre.toNat?) == 1)
      (if m == 0 then none else some (m == 2)))
    pure (s, "ok")
  | ["dispose", tag, id, code] => do
    let (s, os) := rstep st (.dispose (← tag.toNat?) (← id.toNat?) (dsOf (← code.toNat?)))
    pure (s, if os.isEmpty then "-" else String.intercalate " " (os.map showROut))
  | ["indisp", first, last, settled] => do
    let (s, _) := rstep st (.inDisp (← first.toNat?) (← last.toNat?) ((← settled.toNat?) == 1))
    pure (s, "ok")
  | ["unsettled"] => some (st, if st.unsettled.isEmpty then "-" else String.intercalate " " (st.unsettled.map toString))
  | _ => none

end Driver.Settle
