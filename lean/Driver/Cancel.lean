import Amqp.Cancel
import Driver.Util

namespace Driver.Cancel
open Amqp.Cancel Driver

def parseFr (w : String) : Option Fr :=
  match w.splitOn ":" with
  | [k, i, t] => do
    let k ← k.toNat?; let i ← i.toNat?; let t ← t.toNat?
    pure ⟨k, i, t⟩
  | _ => none

def showFr (f : Fr) : String := s!"{f.k}:{f.i}:{f.t}"
def showFrs (fs : List Fr) : String := if fs.isEmpty then "-" else " ".intercalate (fs.map showFr)

def parseEv (w : String) : Option Ev :=
  match w.splitOn ":" with
  | ["s", k, len] => do pure (.start (← k.toNat?) (← len.toNat?))
  | ["p"] => some .poll
  | ["c"] => some .cancel
  | ["g", n] => do pure (.grant (← n.toNat?))
  | ["d", n] => do pure (.drain (← n.toNat?))
  | _ => none

def parseREv (w : String) : Option REv :=
  match w.splitOn ":" with
  | ["a", k, i, t] => do pure (.arrive ⟨← k.toNat?, ← i.toNat?, ← t.toNat?⟩)
  | ["p"] => some .poll
  | ["c"] => some .cancel
  | ["od", n] => do pure (.outDrain (← n.toNat?))
  | ["of", n] => do pure (.outFill (← n.toNat?))
  | _ => none

def step (ws : List String) : Option String :=
  match ws with
  | ["tc", m, len] => do
    let m ← m.toNat?; let len ← len.toNat?
    pure (toString (transfers m len))
  | ["atomic", t, cap] => do
    let t ← t.toNat?; let cap ← cap.toNat?
    pure (showBool (atomicPath && fits t cap))
  | "whole" :: fs => do
    let fs ← fs.mapM parseFr
    match parseWhole fs.length fs with
    | some ds => pure (" ".intercalate ("whole" :: ds.map (fun d => s!"{d.1}:{d.2}")))
    | none => pure "cut"
  | "send" :: cap :: m :: evs => do
    let cap ← cap.toNat?; let m ← m.toNat?
    let evs ← evs.mapM parseEv
    let s := run (init cap m) evs
    pure s!"sent={showFrs s.sent} dc={s.dc} credit={s.credit} done={s.done} busy={showBool s.cur.isSome}"
  | "recv" :: auto :: cap :: evs => do
    let auto ← bool01 auto; let cap ← cap.toNat?
    let evs ← evs.mapM parseREv
    let s := rrun recvParks (rinit auto cap) evs
    pure s!"returned={s.returned.map (fun d => d.map showFr)} parked={showFrs s.parked.toList} lost={showFrs s.lost}"
  | _ => none

end Driver.Cancel
