import Amqp.Txn
import Amqp.TxnRoute
import Driver.Util

namespace Driver.Txn
open Amqp.Txn Driver

def parseOp (w : String) : Option Op :=
  match w.splitOn ":" with
  | ["d", c] => do pure (.declare (← c.toNat?))
  | ["p", t, l, lab] => do
    let txn ← if t == "-" then some none else (t.toNat?).map some
    pure (.post ⟨txn, ← l.toNat?, ← lab.toNat?⟩)
  | ["x", c, id, f] => do
    let fail ← match f with
      | "t" => some (some true) | "f" => some (some false) | "n" => some none | _ => none
    pure (.discharge (← c.toNat?) (← id.toNat?) fail)
  | ["g", c] => do pure (.ctrlGone (← c.toNat?))
  | ["h", c] => do pure (.ctrlDetached (← c.toNat?))
  | ["e"] => some .sessionEnd
  | _ => none

/-- `handle:txn:tag:more:aborted` -/
def parseFrame (w : String) : Option Amqp.TxnRoute.TFrame :=
  match w.splitOn ":" with
  | [h, t, tag, more, ab] => do
    let txn ← if t == "-" then some none else (t.toNat?).map some
    let tg ← if tag == "-" then some none else (tag.toNat?).map some
    pure { handle := ← h.toNat?, txn := txn, tag := tg, more := ← bool01 more, aborted := ← bool01 ab, key := 0 }
  | _ => none

def showOut : Out → String
  | .declared id => s!"D{id}" | .accepted => "A" | .rejectedUnknown => "RU" | .buffered => "B"
  | .delivered => "V" | .sessionError => "SE" | .none => "-"

def step (ws : List String) : Option String :=
  match ws with
  | "run" :: ops => do
    let ops ← ops.mapM parseOp
    let (s, outs) := run init ops
    let outs := if outs.isEmpty then "-" else " ".intercalate (outs.map showOut)
    let del := if s.delivered.isEmpty then "-" else " ".intercalate (s.delivered.map (fun p => s!"{p.link}.{p.label}"))
    pure s!"{outs} | {del}"
  | "route" :: frames => do
    let fs ← frames.mapM parseFrame
    let (_, rs) := Amqp.TxnRoute.run Amqp.TxnRoute.St.init fs
    pure (" ".intercalate (rs.map (fun r => match r with
      | Amqp.TxnRoute.Route.direct => "D"
      | Amqp.TxnRoute.Route.withheld id => s!"W{id}")))
  | _ => none

end Driver.Txn
