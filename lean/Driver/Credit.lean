import Amqp.Credit
import Driver.Util

namespace Driver.Credit
open Amqp.Credit Driver

def showOut : Out → String
  | .echo e => s!"E {e.dc} {e.lc} {showBool e.drain}"
  | .sent t => s!"S {t}"
  | .blocked => "B"

def render (s : SSt) (outs : List Out) : String :=
  String.intercalate ";" (outs.map showOut) ++ s!" # {s.dc} {s.lc} {showBool s.drain}"

def step (st : SSt) (ws : List String) : Option (SSt × String) :=
  match ws with
  | ["init", a, b, c] => do
    let s : SSt := { initDc := (← a.toNat?), dc := (← b.toNat?), lc := (← c.toNat?), drain := false }
    pure (s, render s [])
  | ["flow", dc, cr, dr, ec] => do
    let f : LFlow := { dc := (← optNat dc), credit := (← optNat cr), drain := (← bool01 dr), echo := (← bool01 ec) }
    let (s, o) := Amqp.Credit.step st (.flow f)
    pure (s, render s o)
  | ["send"] =>
    let (s, o) := Amqp.Credit.step st .send
    pure (s, render s o)
  | ["try"] =>
    match Amqp.Credit.tryConsume st 1 with
    | some (s, tag) => pure (s, render s [.sent tag])
    | none => pure (st, render st [.blocked])
  | _ => none

def showPc : Pc → String
  | .start => "start"
  | .snapped n => s!"snapped:{n}"
  | .failed => "failed"
  | .parked n => s!"parked:{n}"
  | .done => "done"

def parseActs : List String → Option (List Act)
  | [] => some []
  | "c" :: r => (parseActs r).map (Act.cStep :: ·)
  | "n" :: r => (parseActs r).map (Act.pNotify :: ·)
  | w :: r =>
    if w.startsWith "u" then do
      let c ← (w.drop 1).toString.toNat?
      (parseActs r).map (Act.pUpdate c :: ·)
    else none

/-- `W <credit> <need> acts…` : run the wait protocol (order taken from the source) and
    report the consumer's state and whether it completes when left to run alone -/
def wait (ws : List String) : Option String :=
  match ws with
  | c :: n :: acts => do
    let s := nRun notifiedFirst (nInit (← c.toNat?) (← n.toNat?)) (← parseActs acts)
    let fin := cRun notifiedFirst s 8
    pure s!"{showPc s.pc} credit={s.credit} completes={showBool (fin.pc == .done)}"
  | _ => none

end Driver.Credit
