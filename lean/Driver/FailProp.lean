import Amqp.FailProp
import Driver.Util

namespace Driver.FailProp
open Amqp.FailProp Driver

def className : ErrClass → String
  | .connClosed => "connClosed" | .connRemoteClosed => "connRemoteClosed" | .connRemoteClosedWithError => "connRemoteClosedWithError"
  | .sessRemoteEnded => "sessRemoteEnded" | .sessRemoteEndedWithError => "sessRemoteEndedWithError"
  | .linkRemoteDetached => "linkRemoteDetached" | .linkRemoteClosed => "linkRemoteClosed"
  | .linkRemoteDetachedWithError => "linkRemoteDetachedWithError" | .linkRemoteClosedWithError => "linkRemoteClosedWithError"

def step (ws : List String) : Option String :=
  let b (s : String) : Bool := s == "1"
  match ws with
  | ["cause", "transport"] => some (className (reported .transportDrop))
  | ["cause", "close", e] => some (className (reported (.peerClose (b e))))
  | ["cause", "end", e] => some (className (reported (.peerEnd (b e))))
  | ["cause", "detach", c, e] => some (className (reported (.peerDetach (b c) (b e))))
  | _ => none

end Driver.FailProp
