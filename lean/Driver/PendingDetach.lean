import Amqp.PendingDetach
import Driver.Util

namespace Driver.PendingDetach
open Amqp.PendingDetach Driver

def item (w : String) : Option Item :=
  match w with
  | "o" => some .other
  | "d00" => some (.detach false false)
  | "d01" => some (.detach false true)
  | "d10" => some (.detach true false)
  | "d11" => some (.detach true true)
  | _ => none

def items : List String → Option (List Item)
  | [] => some []
  | w :: ws => do pure ((← item w) :: (← items ws))

def showItem : Item → String
  | .other => "o"
  | .detach c e => s!"d{if c then 1 else 0}{if e then 1 else 0}"

/-- `B take <items…>`: what the search for a pending detach returns on this queue -/
def step (ws : List String) : Option String :=
  match ws with
  | "take" :: q => do
    let queue ← items q
    match takeAsSource queue with
    | none => pure "spins"
    | some (none, rest) => pure s!"none left={rest.length}"
    | some (some it, rest) => pure s!"found {showItem it} left={rest.length}"
  | _ => none

end Driver.PendingDetach
