import Amqp.Frame
import Amqp.FrameHeader
import Driver.Util

namespace Driver.Frame
open Amqp.Frame Driver

def hexDigit (c : Char) : Option Nat :=
  if '0' ≤ c ∧ c ≤ '9' then some (c.toNat - '0'.toNat)
  else if 'a' ≤ c ∧ c ≤ 'f' then some (c.toNat - 'a'.toNat + 10)
  else none

def unhexAux : List Char → Option Bytes
  | [] => some []
  | a :: b :: rest => do
    let x ← hexDigit a
    let y ← hexDigit b
    let r ← unhexAux rest
    pure (UInt8.ofNat (x * 16 + y) :: r)
  | _ => none

/-- `-` stands for the empty string -/
def unhex (s : String) : Option Bytes := if s == "-" then some [] else unhexAux s.toList

def hexNib (n : Nat) : Char := if n < 10 then Char.ofNat (n + 48) else Char.ofNat (n - 10 + 97)

def hex (b : Bytes) : String :=
  if b.isEmpty then "-" else String.ofList (b.flatMap (fun x => [hexNib (x.toNat / 16), hexNib (x.toNat % 16)]))

def showErr : Option DecErr → String
  | none => "ok"
  | some .tooShort => "tooShort"
  | some .tooLong => "tooLong"

def step (st : Nat × DecSt) (ws : List String) : Option ((Nat × DecSt) × String) :=
  match ws with
  | ["wire", e, ch, p0, p1, p2, p3, pl] => do
    let p : Perfs := { p0 := (← unhex p0), p1 := (← unhex p1), p2 := (← unhex p2), p3 := (← unhex p3) }
    let w := wireTransfer (← e.toNat?) (← ch.toNat?) p (← unhex pl)
    pure (st, String.intercalate " " (w.map hex))
  | ["other", e, ch, perf] => do
    let w := wireOther (← e.toNat?) (← ch.toNat?) (← unhex perf)
    pure (st, String.intercalate " " (w.map hex))
  | ["ssplit", b, whole, first, rest, n] => do
    -- payload content is irrelevant to the cut: n zero bytes
    let ps := sessionSplit (← b.toNat?) { whole := (← whole.toNat?), first := (← first.toNat?), rest := (← rest.toNat?) }
      (List.replicate (← n.toNat?) 0)
    let kind : SKind → String := fun k => match k with
      | .whole => "whole" | .first => "first" | .cont => "cont" | .last => "last"
    pure (st, String.intercalate " " (ps.map (fun kc => s!"{kind kc.1}:{kc.2.length}")))
  | ["hdr", layer, bytes] => do
    let bs := (← unhex bytes).map (·.toNat)
    let r := if layer == "sasl" then Amqp.FrameHeader.decodeSasl bs else Amqp.FrameHeader.decodeAmqp bs
    pure (st, match r with
      | .header ch _ => s!"header {ch}"
      | .tooShort => "tooShort"
      | .notImplemented => "notImplemented"
      | .panic => "panic")
  | ["dinit", m] => do
    pure ((← m.toNat?, decInit), "ok")
  | ["dfeed", chunk] => do
    let (s, fs) := feed st.1 st.2 (← unhex chunk)
    pure ((st.1, s), s!"{fs.length} {showErr s.failed} " ++ String.intercalate " " (fs.map hex))
  | _ => none

end Driver.Frame
