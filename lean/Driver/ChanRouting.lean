import Amqp.ChanRouting
import Driver.Util

namespace Driver.ChanRouting
open Amqp.ChanRouting Driver

structure DSt where
  bound : Nat := 65535
  tab : CTab := CTab.empty

def showOut : Out → String
  | .allocated sid out => s!"A {sid} {out}"
  | .channelMaxReached => "MAX"
  | .to sid => s!"TO {sid}"
  | .remotelyInitiated => "REMOTE"
  | .notFound => "NOTFOUND"
  | .done => "DONE"

def op (ws : List String) : Option Op :=
  match ws with
  | ["alloc"] => some .alloc
  | ["inbegin", ch, oc] => do pure (.inBegin (← ch.toNat?) (some (← oc.toNat?)))
  | ["inbegin", ch] => do pure (.inBegin (← ch.toNat?) none)
  | ["frame", ch] => do pure (.inFrame (← ch.toNat?))
  | ["inend", ch] => do pure (.inEnd (← ch.toNat?))
  | ["dealloc", k] => do pure (.dealloc (← k.toNat?))
  | _ => none

def step (st : DSt) (ws : List String) : Option (DSt × String) :=
  match ws with
  | ["reset", b] => do pure ({ bound := (← b.toNat?), tab := CTab.empty }, "ok")
  | _ => do
    let o ← op ws
    let (t, out) := Amqp.ChanRouting.step st.bound st.tab o
    pure ({ st with tab := t }, showOut out)

end Driver.ChanRouting
