import Amqp.Limits
import Driver.Util

namespace Driver.Limits
open Amqp.Limits Amqp.Handles Driver

structure DSt where
  slab : Slab := Slab.empty
  bound : Nat := 0

def step (d : DSt) (ws : List String) : Option (DSt × String) :=
  match ws with
  | ["reset", b] => do pure ({ slab := Slab.empty, bound := (← b.toNat?) }, "ok")
  | ["alloc"] =>
    let (s, r) := allocate d.slab d.bound
    some ({ d with slab := s }, match r with | .channel ch => s!"ch {ch}" | .maxReached => "MAX")
  | ["free", ch] => do pure ({ d with slab := free d.slab (← ch.toNat?) }, "FREED")
  | ["period", idle] => do
    pure (d, match heartbeatPeriod (← idle.toNat?) with | some p => toString p | none => "never")
  | ["poll", w, dl] => do
    let r := poll inputFirst ((← w.toNat?) == 1) ((← dl.toNat?) == 1)
    pure (d, match r with | .frame => "frame" | .timeout => "timeout" | .pending => "pending")
  | _ => none

end Driver.Limits
