import Amqp.Typed
import Amqp.Message
import Amqp.FrameBody
import Driver.Codec

/-! line protocol of the typed layer: `G <cmd> …` -/
namespace Driver.Typed
open Amqp.Codec Amqp.Typed Driver

mutual
  partial def showTV : TV → String
    | .absent => "-"
    | .leaf v => "L" ++ Driver.Codec.showValue v
    | .comp n fs => "C[" ++ n ++ "|" ++ showTVs fs ++ "]"
  partial def showTVs : List TV → String
    | [] => ""
    | [t] => showTV t
    | t :: ts => showTV t ++ ";" ++ showTVs ts
end

def takeName : List Char → List Char × List Char
  | c :: cs => if c == '|' then ([], cs) else let (n, r) := takeName cs; (c :: n, r)
  | [] => ([], [])

mutual
  partial def parseTV : List Char → Option (TV × List Char)
    | '-' :: r => some (.absent, r)
    | 'L' :: r => (Driver.Codec.parseValue r).map (fun (v, r') => (.leaf v, r'))
    | 'C' :: '[' :: r =>
      let (n, r1) := takeName r
      (parseTVs r1).map (fun (ts, r2) => (.comp (String.ofList n) ts, r2))
    | _ => none
  partial def parseTVs : List Char → Option (List TV × List Char)
    | ']' :: r => some ([], r)
    | cs => do
      let (t, r) ← parseTV cs
      match r with
      | ';' :: r' => do
        let (ts, r'') ← parseTVs r'
        some (t :: ts, r'')
      | ']' :: r' => some ([t], r')
      | _ => none
end

def primOfName : String → Option Prim
  | "bool" => some .bool | "ubyte" => some .ubyte | "ushort" => some .ushort | "uint" => some .uint
  | "ulong" => some .ulong | "string" => some .string | "symbol" => some .symbol | "binary" => some .binary
  | "timestamp" => some .timestamp | "map" => some .map | "symbols" => some .symbols | "msgid" => some .msgid
  | _ => none

/-- `C<name>|<name>…` or `P<prim>` or `T<declared rust type>` -/
def parseTy (s : String) : Option FTy :=
  match s.toList with
  | 'C' :: r => some (.comp ((String.ofList r).splitOn "|"))
  | 'P' :: r => (primOfName (String.ofList r)).map .prim
  | 'T' :: r => tyOf (String.ofList r)
  | _ => none

def showKind : FKind → String
  | .required => "req" | .optional => "opt" | .dflt => "dflt" | .multiple => "mul"

/-! messages: seven words — header, delivery-annotations, message-annotations, properties,
    application-properties, body, footer; `-` = absent; body `v<value>` | `d<hex>,<hex>…` (`.` = empty) |
    `s<value: list of lists>` | `e` -/

open Amqp.Message in
def showBody : Body → String
  | .value v => "v" ++ Driver.Codec.showValue v
  | .data bs => "d" ++ ",".intercalate (bs.map (fun b => if b.isEmpty then "." else Driver.Codec.hexs b))
  | .sequence ls => "s" ++ Driver.Codec.showValue (.list (ls.map .list))
  | .empty => "e"

open Amqp.Message in
def showMsg (m : Msg) : String :=
  let ot : Option TV → String := fun x => match x with | none => "-" | some a => showTV a
  let ov : Option Value → String := fun x => match x with | none => "-" | some a => Driver.Codec.showValue a
  " ".intercalate [ot m.header, ov m.deliveryAnn, ov m.msgAnn, ot m.properties, ov m.appProps, showBody m.body,
    ov m.footer]

def parseOptTV (s : String) : Option (Option TV) :=
  if s == "-" then some none else (parseTV s.toList).map (fun (t, _) => some t)

def parseOptValue (s : String) : Option (Option Value) :=
  if s == "-" then some none else (Driver.Codec.parseValue s.toList).map (fun (v, _) => some v)

open Amqp.Message in
def parseBody (s : String) : Option Body :=
  match s.toList with
  | 'e' :: [] => some .empty
  | 'v' :: r => (Driver.Codec.parseValue r).map (fun (v, _) => .value v)
  | 'd' :: r =>
    ((String.ofList r).splitOn ",").mapM (fun h => if h == "." then some [] else Driver.Frame.unhex h) |>.map .data
  | 's' :: r =>
    match Driver.Codec.parseValue r with
    | some (Value.list ls, _) =>
      (ls.mapM (fun (l : Value) => match l with | Value.list vs => some vs | _ => none)).map Body.sequence
    | _ => none
  | _ => none

open Amqp.Message in
def parseMsg (ws : List String) : Option Msg :=
  match ws with
  | [h, da, ma, p, ap, b, f] => do
    some { header := (← parseOptTV h), deliveryAnn := (← parseOptValue da), msgAnn := (← parseOptValue ma),
           properties := (← parseOptTV p), appProps := (← parseOptValue ap), body := (← parseBody b),
           footer := (← parseOptValue f) }
  | _ => none

def step (ws : List String) : Option String :=
  match ws with
  | "msg" :: rest => do
    let m ← parseMsg rest
    match Amqp.Message.encodeMsg env m with
    | some bs => some (if bs.isEmpty then "-" else Driver.Codec.hexs bs)
    | none => some "ERR"
  | ["mdec", h] => do
    let bs ← Driver.Frame.unhex h
    match Amqp.Message.decodeMsg env bs with
    | .ok m => some ("OK " ++ showMsg m)
    | .error e => some s!"ERR {Driver.Codec.showErr e}"
  | ["enc", t] => do
    let (tv, _) ← parseTV t.toList
    match encodeTyped env tv with
    | some bs => some (Driver.Codec.hexs bs)
    | none => some "ERR"
  | ["tree", t] => do
    let (tv, _) ← parseTV t.toList
    some (Driver.Codec.showValue (toTree env tv))
  | ["size", t] => do
    let (tv, _) ← parseTV t.toList
    match sizeTyped env tv with
    | some n => some (toString n)
    | none => some "ERR"
  | ["dec", ty, h] => do
    let ty ← parseTy ty
    let bs ← Driver.Frame.unhex h
    match decodeTyped env ty bs with
    | .ok (tv, rest) => some s!"OK {showTV tv} {rest.length}"
    | .error e => some s!"ERR {Driver.Codec.showErr e}"
  | ["from", ty, v] => do
    let ty ← parseTy ty
    let (val, _) ← Driver.Codec.parseValue v.toList
    match fromTree env ty val with
    | some tv => some (showTV tv)
    | none => some "NONE"
  | ["schema", name] =>
    match lookup env name with
    | some s => some (s!"{s.rust} {s.code} " ++ ";".intercalate (s.fields.map (fun f =>
        f.wire ++ ":" ++ showKind f.kind ++ ":" ++ (if f.kind == .dflt then Driver.Codec.showValue f.dflt else "-"))))
    | none => some "NONE"
  | ["frame", h] => do
    let bs ← Driver.Frame.unhex h
    match Amqp.FrameBody.decodeFrame env bs with
    | .frame ch .empty => some s!"F {ch} empty"
    | .frame ch (.transfer tv payload) => some s!"F {ch} T {showTV tv} {if payload.isEmpty then "." else Driver.Codec.hexs payload}"
    | .frame ch (.other tv) => some s!"F {ch} O {showTV tv}"
    | .refused => some "refused"
    | .undecodable => some "undecodable"
    | .panic => some "panic"
  | ["count"] => some (toString env.length)
  | _ => none

end Driver.Typed
