/-
  C15 — a misbehaving peer cannot crash, wedge or spin an endpoint.

  What a theorem can carry of this property: every layer's reaction to input it must not
  trust is a total function with a bounded amount of work, and a violation is answered at the
  level it belongs to.  The frame header (here), the body decoder (C04), the connection's and
  the session's reactions to illegal frames (C12, C13), the receiver's credit check (C09) and
  the disposition range walk (C02) are put together; that nothing panics, hangs or costs too
  much in the running program is measured by the hostile-peer runs.
-/
import Amqp.FrameHeader
import Theorems.PendingDetach
import Amqp.Gen.Panics
import Theorems.C12
import Theorems.C13
import Theorems.C02
import Theorems.C04
import Theorems.C09

namespace Amqp.FrameHeader
open Amqp.Gen.FrameHeader

/-- generated obligation: the functions that act on what the peer sends — every `on_incoming*` of the
    connection, the session, the links, their listener and transaction variants, the two frame
    decoders and the engines' dispatchers, 48 functions — contain no index expression, `unwrap`,
    `expect` or panicking macro, with one exception: the listener's `on_incoming_begin` looks up the
    relay it has just allocated in the same function (`expect("relay was just allocated")`), which the
    peer's input cannot make fail.  A table lookup by a number the peer chose has to be a `get`. -/
theorem no_panic_site_on_peer_input :
    Amqp.Gen.Panics.sites = [("acceptor/connection.rs::on_incoming_begin#0", 1)] ∧
    40 ≤ Amqp.Gen.Panics.functions_inspected := by decide

/-- **the header is never read from too few bytes**: for every byte string the AMQP frame
    decoder's header step returns a header or an error — never the panic of `Buf::get_*` -/
theorem amqp_header_never_panics (src : Bytes) : decodeAmqp src ≠ .panic := by
  unfold decodeAmqp
  by_cases h : src.length < 4
  · simp [guardFirst, amqp_decode.cond_if_0, h, amqp_decode_order.idx_src___len_______4, amqp_decode_order.idx_get_u8]
  · have : ∃ d t c1 c0 rest, src = d :: t :: c1 :: c0 :: rest := by
      match src, h with
      | d :: t :: c1 :: c0 :: rest, _ => exact ⟨d, t, c1, c0, rest, rfl⟩
      | [], h => simp at h
      | [_], h => simp at h
      | [_, _], h => simp at h
      | [_, _, _], h => simp at h
    obtain ⟨d, t, c1, c0, rest, rfl⟩ := this
    have hg : (guardFirst amqp_decode_order.idx_src___len_______4 amqp_decode_order.idx_get_u8 &&
        amqp_decode.cond_if_0 (d :: t :: c1 :: c0 :: rest).length) = false := by
      simp [amqp_decode.cond_if_0]
    rw [hg]
    simp only [Bool.false_eq_true, if_false, readHeader]
    by_cases h1 : amqp_decode.cond_if_1 t = true
    · simp [h1]
    · by_cases h2 : (d != 2) = true <;> simp [h1, h2]

theorem sasl_header_never_panics (src : Bytes) : decodeSasl src ≠ .panic := by
  unfold decodeSasl
  by_cases h : src.length < 4
  · simp [guardFirst, sasl_decode.cond_if_0, h, sasl_decode_order.idx_src___len_______4, sasl_decode_order.idx_get_u8]
  · have : ∃ d t c1 c0 rest, src = d :: t :: c1 :: c0 :: rest := by
      match src, h with
      | d :: t :: c1 :: c0 :: rest, _ => exact ⟨d, t, c1, c0, rest, rfl⟩
      | [], h => simp at h
      | [_], h => simp at h
      | [_, _], h => simp at h
      | [_, _, _], h => simp at h
    obtain ⟨d, t, c1, c0, rest, rfl⟩ := this
    have hg : (guardFirst sasl_decode_order.idx_src___len_______4 sasl_decode_order.idx_get_u8 &&
        sasl_decode.cond_if_0 (d :: t :: c1 :: c0 :: rest).length) = false := by
      simp [sasl_decode.cond_if_0]
    rw [hg]
    simp only [Bool.false_eq_true, if_false, readHeader]
    by_cases h1 : sasl_decode.cond_if_1 t = true
    · simp [h1]
    · by_cases h2 : sasl_decode.cond_if_2 d = true <;> simp [h1, h2]

/-- a header is accepted only with doff = 2 and the frame type of the layer; the body is what
    follows the four header bytes, untouched -/
theorem amqp_header_accepts (src : Bytes) (ch : Nat) (body : Bytes) (h : decodeAmqp src = .header ch body) :
    ∃ c1 c0, src = 2 :: 0 :: c1 :: c0 :: body ∧ ch = c1 * 256 + c0 := by
  unfold decodeAmqp at h
  split at h
  · cases h
  · cases hr : readHeader src with
    | none => simp [hr] at h
    | some x =>
      obtain ⟨doff, ftype, c, b⟩ := x
      simp only [hr] at h
      by_cases h1 : amqp_decode.cond_if_1 ftype = true
      · simp [h1] at h
      · by_cases h2 : (doff != 2) = true
        · simp [h1, h2] at h
        · simp only [h1, h2, Bool.false_eq_true, if_false, Res.header.injEq] at h
          obtain ⟨rfl, rfl⟩ := h
          unfold readHeader at hr
          match src, hr with
          | d :: t :: c1 :: c0 :: rest, hr =>
            simp only [Option.some.injEq, Prod.mk.injEq] at hr
            obtain ⟨rfl, rfl, rfl, rfl⟩ := hr
            refine ⟨c1, c0, ?_, rfl⟩
            simp [amqp_decode.cond_if_1, FRAME_TYPE_AMQP] at h1 h2
            rw [h1, h2]

/-- what the defect was: without the guard a frame that carries fewer than four bytes after its
    length field makes the decoder panic -/
theorem unguarded_read_panics : readHeader [0x20, 0x82] = none := rfl

end Amqp.FrameHeader

namespace Amqp.Settle

/-- **work in proportion**: whatever range a disposition names (2^31 - 1 delivery-ids wide, say)
    the session visits no more delivery-ids than it has deliveries outstanding -/
theorem disposition_work_bounded (byId : List Entry) (first last : Nat) :
    (knownIds byId first last).length ≤ byId.length := by
  unfold knownIds
  simp only [Amqp.Gen.Settle.known_ids.cond_if_0, Amqp.Gen.Settle.known_ids.cond_if_1, Amqp.Gen.Settle.known_ids.let_span_0]
  by_cases h0 : wsub32 last first ≥ 1 * 2 ^ 31
  · simp [h0]
  · simp only [h0, decide_false, Bool.false_eq_true, if_false]
    by_cases h1 : wsub32 last first < byId.length
    · simp only [h1, decide_true, if_true]
      refine Nat.le_trans (List.length_filter_le _ _) ?_
      simp; omega
    · simp only [h1, decide_false, Bool.false_eq_true, if_false]
      rw [(sortByOffset_perm first _).length_eq]
      refine Nat.le_trans (List.length_filter_le _ _) ?_
      simp

end Amqp.Settle
