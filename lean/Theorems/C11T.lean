/-
  C11 — the channel side: sessions of a connection (the slab of outgoing channels with the
  channel-max bound, `Amqp/Limits.lean`; the model is compared with begin / end histories on a real
  connection by the `limits` runs).
-/
import Theorems.C11
import Theorems.C17
import Theorems.Routing
import Theorems.ChanRouting

namespace Amqp.Limits
open Amqp.Handles Amqp.Gen.Limits

theorem insert_key_is_vacant (s : Slab) (v : String) : (s.insert v).2 = s.vacantKey := by
  unfold Slab.insert Slab.vacantKey
  cases s.free <;> rfl

/-- **channels_unique (C11).** After any history of begins and ends on a connection, under any
    channel-max, no two live sessions hold the same channel. -/
theorem channels_unique (bound : Nat) (ops : List Op) :
    ((run bound Slab.empty ops).1.live.map (·.1)).Nodup :=
  (run_inv bound ops Slab.empty empty_inv counted_empty).1.liveNodup

/-- **channel_reused_only_after_end (C11).** The channel a begin is given is held by no live session
    at that moment: a number comes back only after its holder was ended. -/
theorem channel_reused_only_after_end (bound : Nat) (ops : List Op) (k : Nat)
    (h : (allocate (run bound Slab.empty ops).1 bound).2 = .channel k) :
    k ∉ (run bound Slab.empty ops).1.live.map (·.1) := by
  have hinv := (run_inv bound ops Slab.empty empty_inv counted_empty).1
  unfold allocate at h
  simp only at h
  split at h
  · cases h
  · simp only [AllocRes.channel.injEq] at h
    rw [← h, ← insert_key_is_vacant _ ""]
    exact (insert_fresh _ "" hinv).1

/-- non-vacuity: begin, begin, end the first, begin again: the third session gets channel 0 while
    channel 1 is still held — not the number of live sessions -/
example : (run 10 Slab.empty [.alloc, .alloc, .free 0, .alloc]).2 =
    [some (.channel 0), some (.channel 1), none, some (.channel 0)] := by decide

end Amqp.Limits
