/-
  C06 — the hypotheses `Fits.p01` / `Fits.p3` of the frame-cutting theorems discharged from the typed
  model: whatever a transfer performative holds, writing it with `more := true` never yields fewer
  bytes than writing it with `more := false` (the derive macro elides a `false`, and the nulls no
  later field follows), so the encoder's second serialization (`transfer.more = true`) cannot make
  room it did not measure, and the last frame's performative (`more := orig_more`) is never longer
  than the middle frames' (`more := true`).

  The lemma is generic: it holds for any Boolean field with default `false` of any declared
  composite, in any environment; `transfer_more` instantiates it with what the source declares now.
-/
import Theorems.Typed
import Theorems.Lemmas.Frame

namespace Amqp.Typed
open Amqp.Codec Amqp.Gen.Codes

/-! ## lists of slots, one no longer than the other -/

/-- entry by entry: the right one is null only where the left one is, and is written in at least
    as many bytes -/
inductive NoLonger : List Value → List Value → Prop
  | nil : NoLonger [] []
  | cons {v v' : Value} {vs vs' : List Value} :
      (isNull v' = true → isNull v = true) →
      (∀ a b, size .none v = some a → size .none v' = some b → a ≤ b) →
      NoLonger vs vs' → NoLonger (v :: vs) (v' :: vs')

theorem NoLonger.refl : ∀ (vs : List Value), NoLonger vs vs
  | [] => .nil
  | v :: vs => .cons id (fun a b ha hb => by rw [ha] at hb; cases hb; exact Nat.le_refl _) (NoLonger.refl vs)

theorem NoLonger.append {a a' b b' : List Value} (h1 : NoLonger a a') (h2 : NoLonger b b') :
    NoLonger (a ++ b) (a' ++ b') := by
  induction h1 with
  | nil => simpa using h2
  | cons hn hs _ ih => exact .cons hn hs ih

theorem dtn_nil_iff : ∀ (vs : List Value), dropTrailingNulls vs = [] ↔ ∀ v ∈ vs, isNull v = true
  | [] => by simp [dropTrailingNulls]
  | v :: vs => by
    have ih := dtn_nil_iff vs
    simp only [dropTrailingNulls]
    cases hd : dropTrailingNulls vs with
    | nil =>
      have hall := ih.mp hd
      by_cases hv : isNull v = true
      · simp only [hv, if_true, true_iff]
        intro w hw
        cases List.mem_cons.mp hw with
        | inl h => subst h; exact hv
        | inr h => exact hall w h
      · simp only [hv, if_false, reduceCtorEq, false_iff]
        intro hc
        exact hv (hc v (List.mem_cons_self))
    | cons r rs =>
      simp only [reduceCtorEq, false_iff]
      intro hc
      have : dropTrailingNulls vs = [] := ih.mpr (fun w hw => hc w (List.mem_cons_of_mem _ hw))
      rw [hd] at this; cases this

theorem NoLonger.allNull {vs vs' : List Value} (h : NoLonger vs vs')
    (hn : ∀ v ∈ vs', isNull v = true) : ∀ v ∈ vs, isNull v = true := by
  induction h with
  | nil => intro v hv; cases hv
  | cons hnull _ _ ih =>
    intro w hw
    cases List.mem_cons.mp hw with
    | inl h => subst h; exact hnull (hn _ List.mem_cons_self)
    | inr h => exact ih (fun x hx => hn x (List.mem_cons_of_mem _ hx)) w h

theorem sizeAll_cons (v : Value) (vs : List Value) (n : Nat) (h : sizeAll (v :: vs) = some n) :
    ∃ a m, size .none v = some a ∧ sizeAll vs = some m ∧ n = a + m := by
  simp only [sizeAll, bind, Option.bind] at h
  cases ha : size .none v with
  | none => simp [ha] at h
  | some a =>
    cases hm : sizeAll vs with
    | none => simp [ha, hm] at h
    | some m =>
      simp only [ha, hm, Option.some.injEq] at h
      exact ⟨a, m, rfl, rfl, h.symm⟩

/-- the slots that are written (the trailing nulls dropped) take no more bytes on the left -/
theorem dtn_noLonger {vs vs' : List Value} (h : NoLonger vs vs') :
    ∀ n n', sizeAll (dropTrailingNulls vs) = some n → sizeAll (dropTrailingNulls vs') = some n' →
      n ≤ n' ∧ (dropTrailingNulls vs).length ≤ (dropTrailingNulls vs').length := by
  induction h with
  | nil => intro n n' h1 h2; simp [dropTrailingNulls, sizeAll] at h1 h2; subst h1; exact ⟨Nat.zero_le _, Nat.le_refl _⟩
  | @cons v v' vs vs' hnull hsize hrest ih =>
    intro n n' h1 h2
    simp only [dropTrailingNulls] at h1 h2 ⊢
    cases hd : dropTrailingNulls vs with
    | nil =>
      cases hd' : dropTrailingNulls vs' with
      | nil =>
        simp only [hd, hd'] at h1 h2 ⊢
        by_cases hv' : isNull v' = true
        · have hv := hnull hv'
          simp only [hv, hv', if_true] at h1 h2 ⊢
          simp [sizeAll] at h1; subst h1; exact ⟨Nat.zero_le _, Nat.le_refl _⟩
        · simp only [hv', if_false] at h2 ⊢
          obtain ⟨b, m', hb, hm', hn'⟩ := sizeAll_cons _ _ _ h2
          simp [sizeAll] at hm'; subst hm'
          by_cases hv : isNull v = true
          · simp only [hv, if_true] at h1 ⊢
            simp [sizeAll] at h1; subst h1; exact ⟨Nat.zero_le _, by simp⟩
          · simp only [hv, if_false] at h1 ⊢
            obtain ⟨a, m, ha, hm, hn⟩ := sizeAll_cons _ _ _ h1
            simp [sizeAll] at hm; subst hm
            have := hsize a b ha hb
            exact ⟨by omega, Nat.le_refl _⟩
      | cons r' rs' =>
        simp only [hd, hd'] at h1 h2 ⊢
        obtain ⟨b, m', hb, hm', hn'⟩ := sizeAll_cons _ _ _ h2
        by_cases hv : isNull v = true
        · simp only [hv, if_true] at h1 ⊢
          simp [sizeAll] at h1; subst h1; exact ⟨Nat.zero_le _, by simp⟩
        · simp only [hv, if_false] at h1 ⊢
          obtain ⟨a, m, ha, hm, hn⟩ := sizeAll_cons _ _ _ h1
          simp [sizeAll] at hm; subst hm
          have := hsize a b ha hb
          exact ⟨by omega, by simp⟩
    | cons r rs =>
      cases hd' : dropTrailingNulls vs' with
      | nil =>
        have hall := (dtn_nil_iff vs').mp hd'
        have := (dtn_nil_iff vs).mpr (hrest.allNull hall)
        rw [hd] at this; cases this
      | cons r' rs' =>
        simp only [hd, hd'] at h1 h2 ⊢
        obtain ⟨a, m, ha, hm, hn⟩ := sizeAll_cons _ _ _ h1
        obtain ⟨b, m', hb, hm', hn'⟩ := sizeAll_cons _ _ _ h2
        have h3 := ih m m' (by rw [hd]; exact hm) (by rw [hd']; exact hm')
        rw [hd, hd'] at h3
        have := hsize a b ha hb
        exact ⟨by omega, by simp only [List.length_cons] at h3 ⊢; omega⟩

theorem sizeList_mono (ctx : Ctx) (n n' s s' : Nat) (h : n ≤ n')
    (h1 : sizeList ctx n = some s) (h2 : sizeList ctx n' = some s') : s ≤ s' := by
  unfold sizeList at h1 h2
  cases ctx <;> simp only [Ctx.writesCode, if_true, if_false, Bool.false_eq_true] at h1 h2
  all_goals repeat' split at h1
  all_goals repeat' split at h2
  all_goals (try simp only [Option.some.injEq, reduceCtorEq] at h1 h2)
  all_goals (try simp only [U8_MAX_MINUS_1, U32_MAX_MINUS_4] at *)
  all_goals omega

/-- a composite whose slots are no longer is written in no more bytes -/
theorem composite_noLonger (d : Value) {vs vs' : List Value} (h : NoLonger vs vs') (n n' : Nat)
    (h1 : size .none (.described d (.list (dropTrailingNulls vs))) = some n)
    (h2 : size .none (.described d (.list (dropTrailingNulls vs'))) = some n') : n ≤ n' := by
  simp only [size, bind, Option.bind] at h1 h2
  cases hd : size .none d with
  | none => simp [hd] at h1
  | some sd =>
    simp only [hd] at h1 h2
    cases ha : sizeAll (dropTrailingNulls vs) with
    | none => simp [ha] at h1
    | some a =>
      cases ha' : sizeAll (dropTrailingNulls vs') with
      | none => simp [ha'] at h2
      | some a' =>
        simp only [ha, ha'] at h1 h2
        cases hl : sizeList .none a with
        | none => simp [hl] at h1
        | some l =>
          cases hl' : sizeList .none a' with
          | none => simp [hl'] at h2
          | some l' =>
            simp only [hl, hl', Option.some.injEq] at h1 h2
            have hle := (dtn_noLonger h a a' ha ha').1
            have := sizeList_mono .none a a' l l' hle hl hl'
            omega

/-! ## the slots of a composite with one field changed -/

theorem slots_append (env : List Schema) : ∀ (fpre : List Field) (pre : List TV) (fpost : List Field)
    (post : List TV), pre.length = fpre.length →
    slots env (fpre ++ fpost) (pre ++ post) = slots env fpre pre ++ slots env fpost post
  | [], [], _, _, _ => by simp [slots]
  | [], _ :: _, _, _, h => by simp at h
  | _ :: _, [], _, _, h => by simp at h
  | f :: fpre, t :: pre, fpost, post, h => by
    simp only [List.cons_append, slots]
    rw [slots_append env fpre pre fpost post (by simpa using h)]

theorem fieldsOk_append (env : List Schema) : ∀ (fpre : List Field) (pre : List TV) (fpost : List Field)
    (post : List TV), pre.length = fpre.length →
    (FieldsOk env (fpre ++ fpost) (pre ++ post) ↔ FieldsOk env fpre pre ∧ FieldsOk env fpost post)
  | [], [], _, _, _ => by simp [FieldsOk]
  | [], _ :: _, _, _, h => by simp at h
  | _ :: _, [], _, _, h => by simp at h
  | f :: fpre, t :: pre, fpost, post, h => by
    simp only [List.cons_append, FieldsOk]
    rw [fieldsOk_append env fpre pre fpost post (by simpa using h)]
    exact and_assoc.symm

/-- a Boolean field with default `false`: what is in its slot -/
theorem slot_of_flag (f : Field) (hk : f.kind = .dflt) (hd : f.dflt = .bool false) (b : Bool) :
    slotOf f (.bool b) = if b then .bool true else .null := by
  unfold slotOf
  cases b <;> simp [hk, hd, Value.beq]

/-- a composite `n` of the environment whose field after `fpre` is a flag with default `false` -/
structure FlagAt (env : List Schema) (n : String) (s : Schema) (fpre : List Field) (f : Field)
    (fpost : List Field) : Prop where
  found : lookup env n = some s
  split : s.fields = fpre ++ f :: fpost
  kind : f.kind = .dflt
  dflt : f.dflt = .bool false
  ty : f.ty = .prim .bool

/-- the value stays well-typed when the flag is set -/
theorem tvOk_set_flag {env : List Schema} {n : String} {s : Schema} {fpre : List Field} {f : Field}
    {fpost : List Field} (hf : FlagAt env n s fpre f fpost) (ty : FTy) (pre post : List TV)
    (hlen : pre.length = fpre.length) (b b' : Bool)
    (h : TVOk env ty (.comp n (pre ++ .leaf (.bool b) :: post))) :
    TVOk env ty (.comp n (pre ++ .leaf (.bool b') :: post)) := by
  simp only [TVOk, hf.found, hf.split] at h ⊢
  obtain ⟨names, h1, h2, h3⟩ := h
  refine ⟨names, h1, h2, ?_⟩
  rw [fieldsOk_append env fpre pre (f :: fpost) _ hlen] at h3 ⊢
  refine ⟨h3.1, ?_⟩
  simp only [FieldsOk] at h3 ⊢
  refine ⟨?_, h3.2.2⟩
  simp only [FieldOk1, hf.kind, TVOk, hf.ty]
  exact ⟨⟨_, rfl⟩, .bool, rfl, by simp [accepts], by simp [WF]⟩

/-- **flag_never_shortens.** For every composite and every Boolean field of it whose default is
    `false`, and whatever the other fields hold: the value written with the flag set takes at least
    as many bytes as the value written with the flag as it was. -/
theorem flag_never_shortens {env : List Schema} (hE : EnvOk env) {n : String} {s : Schema}
    {fpre : List Field} {f : Field} {fpost : List Field} (hf : FlagAt env n s fpre f fpost)
    (ty : FTy) (pre post : List TV) (hlen : pre.length = fpre.length) (b : Bool)
    (h : TVOk env ty (.comp n (pre ++ .leaf (.bool b) :: post))) (e0 e1 : Bytes)
    (h0 : encodeTyped env (.comp n (pre ++ .leaf (.bool b) :: post)) = some e0)
    (h1 : encodeTyped env (.comp n (pre ++ .leaf (.bool true) :: post)) = some e1) :
    e0.length ≤ e1.length := by
  have h' := tvOk_set_flag hf ty pre post hlen b true h
  have s0 := typed_size_eq_length env hE ty _ h
  have s1 := typed_size_eq_length env hE ty _ h'
  rw [h0] at s0; rw [h1] at s1
  simp only [Option.map_some, sizeTyped, toTree, hf.found, hf.split] at s0 s1
  rw [slots_append env fpre pre (f :: fpost) _ hlen] at s0 s1
  simp only [slots, toTree, slot_of_flag f hf.kind hf.dflt] at s0 s1
  refine composite_noLonger _ ?_ _ _ s0 s1
  refine NoLonger.append (NoLonger.refl _) (.cons ?_ ?_ (NoLonger.refl _))
  · simp [isNull]
  · intro a c ha hc
    cases b <;> simp [size] at ha hc <;> omega

/-! ## the transfer performative of the source -/

def flagAtB (env : List Schema) (n : String) (i : Nat) (wire : String) : Bool :=
  match lookup env n with
  | none => false
  | some s =>
    match s.fields[i]? with
    | none => false
    | some f => f.wire == wire && f.kind == .dflt && Value.beq f.dflt (.bool false) && f.ty == .prim .bool

theorem flagAtB_sound (env : List Schema) (n : String) (i : Nat) (wire : String)
    (h : flagAtB env n i wire = true) :
    ∃ s f, FlagAt env n s (s.fields.take i) f (s.fields.drop (i + 1)) ∧ (s.fields.take i).length = i := by
  unfold flagAtB at h
  cases hl : lookup env n with
  | none => simp [hl] at h
  | some s =>
    cases hf : s.fields[i]? with
    | none => simp [hl, hf] at h
    | some f =>
      simp only [hl, hf, Bool.and_eq_true, beq_iff_eq] at h
      obtain ⟨⟨⟨_, hk⟩, hd⟩, ht⟩ := h
      have hi : i < s.fields.length := by
        rcases Nat.lt_or_ge i s.fields.length with h | h
        · exact h
        · rw [List.getElem?_eq_none h] at hf; cases hf
      have hget : s.fields[i] = f := by
        rw [List.getElem?_eq_getElem hi] at hf; exact Option.some.inj hf
      refine ⟨s, f, ⟨hl, ?_, hk, beq_eq _ _ hd, ht⟩, by simp [List.length_take]; omega⟩
      rw [← hget]
      exact (List.take_append_drop i s.fields).symm.trans (by rw [List.drop_eq_getElem_cons hi])

/-- generated obligation: `more` is the sixth field of the transfer performative, a Boolean whose
    default `false` is elided -/
theorem transfer_more : flagAtB env "amqp:transfer:list" 5 "more" = true := by decide +kernel

open Amqp.Frame in
/-- the four encodings `FrameEncoder::encode_transfer` computes for a transfer whose fields before
    `more` are `pre` and after it `post`: as given, with `more := true`, and the same two for the
    continuation frames (`cpre` / `cpost`: delivery-id, delivery-tag, message-format, settled and
    rcv-settle-mode cleared) -/
def perfsOf (env : List Schema) (pre post cpre cpost : List TV) (origMore : Bool) : Option Perfs :=
  let t := fun (a b : List TV) (m : Bool) => encodeTyped env (.comp "amqp:transfer:list" (a ++ .leaf (.bool m) :: b))
  match t pre post origMore, t pre post true, t cpre cpost true, t cpre cpost origMore with
  | some p0, some p1, some p2, some p3 => some { p0 := p0, p1 := p1, p2 := p2, p3 := p3 }
  | _, _, _, _ => none

open Amqp.Frame in
/-- **transfer_fits (C06).** For every transfer performative the library can write — any handle,
    delivery-id, tag, state, flags — two of the four hypotheses of the frame-cutting theorems hold
    by themselves: setting `more` never shortens the encoding (`p01`), and the last frame's
    performative is no longer than the middle frames' (`p3`). What remains is exactly "the
    performative fits the frame" (`p1`, `p2`). -/
theorem transfer_fits (hE : EnvOk env) (pre post cpre cpost : List TV) (origMore : Bool)
    (hpre : pre.length = 5) (hcpre : cpre.length = 5)
    (h : TVOk env (.comp ["amqp:transfer:list"]) (.comp "amqp:transfer:list" (pre ++ .leaf (.bool origMore) :: post)))
    (hc : TVOk env (.comp ["amqp:transfer:list"]) (.comp "amqp:transfer:list" (cpre ++ .leaf (.bool origMore) :: cpost)))
    (p : Perfs) (hp : perfsOf env pre post cpre cpost origMore = some p) (B : Nat)
    (h1 : p.p1.length ≤ B) (h2 : p.p2.length < B) : Fits B p := by
  obtain ⟨s, f, hf, hlen⟩ := flagAtB_sound env _ _ _ transfer_more
  unfold perfsOf at hp
  simp only at hp
  split at hp
  · rename_i p0 p1 p2 p3 e0 e1 e2 e3
    cases hp
    refine ⟨?_, h1, h2, ?_⟩
    · exact flag_never_shortens hE hf _ pre post (by rw [hlen, hpre]) origMore h p0 p1 e0 e1
    · exact flag_never_shortens hE hf _ cpre cpost (by rw [hlen, hcpre]) origMore hc p3 p2 e3 e2
  · cases hp

/-! ## non-vacuity: a transfer that is cut (handle 1, delivery-id 7, a tag, format 0), on a 64-byte frame -/

def fitsPre : List TV :=
  [.leaf (.fixed .uint [0, 0, 0, 1]), .leaf (.fixed .uint [0, 0, 0, 7]), .leaf (.var .binary [1, 2]),
   .leaf (.fixed .uint [0, 0, 0, 0]), .leaf (.bool false)]
def fitsPost : List TV := [.absent, .absent, .leaf (.bool false), .leaf (.bool false), .leaf (.bool false)]
def fitsCPre : List TV := [.leaf (.fixed .uint [0, 0, 0, 1]), .absent, .absent, .absent, .absent]

/-- the four encodings of that transfer: 5 fields as given (the `false` elided, `settled` last), 6
    with `more`; the continuation has the handle alone, or the handle, four nulls and `more` -/
def fitsPerfs : Amqp.Frame.Perfs :=
  { p0 := [0x00, 0x53, 0x14, 0xc0, 0x0b, 0x05, 0x52, 0x01, 0x52, 0x07, 0xa0, 0x02, 0x01, 0x02, 0x43, 0x42],
    p1 := [0x00, 0x53, 0x14, 0xc0, 0x0c, 0x06, 0x52, 0x01, 0x52, 0x07, 0xa0, 0x02, 0x01, 0x02, 0x43, 0x42, 0x41],
    p2 := [0x00, 0x53, 0x14, 0xc0, 0x08, 0x06, 0x52, 0x01, 0x40, 0x40, 0x40, 0x40, 0x41],
    p3 := [0x00, 0x53, 0x14, 0xc0, 0x03, 0x01, 0x52, 0x01] }

theorem fitsPerfs_eq : perfsOf env fitsPre fitsPost fitsCPre fitsPost false = some fitsPerfs := by decide +kernel

example : Amqp.Frame.Fits 60 fitsPerfs :=
  transfer_fits env_ok fitsPre fitsPost fitsCPre fitsPost false rfl rfl
    (tvOkB_sound env _ _ (by decide +kernel)) (tvOkB_sound env _ _ (by decide +kernel)) _ fitsPerfs_eq 60
    (by decide) (by decide)

end Amqp.Typed

