/-
  C10 / C18 — the frames of a transactional post are withheld together, in order, whether its continuation
  frames leave the delivery-tag and the state out or repeat them, and an aborted post leaves nothing behind on
  its link.
-/
import Amqp.TxnRoute

namespace Amqp.TxnRoute

theorem source_route_shape : routeShape = true := by decide

/-- a continuation frame of the post with delivery-tag `tg` under transaction `id` on link `h`: the
    delivery-tag left out or repeated, the state left out or repeated -/
def Continues (h id tg : Nat) (f : TFrame) : Prop :=
  f.handle = h ∧ (f.tag = none ∨ f.tag = some tg) ∧ (f.txn = none ∨ f.txn = some id)

theorem decide_continuation (t : Table) (h id tg : Nat) (f : TFrame) (ht : t h = some (id, some tg))
    (hc : Continues h id tg f) : decide? t f = some id := by
  obtain ⟨h1, h2, h3⟩ := hc
  rcases h3 with h3 | h3
  · rcases h2 with h2 | h2 <;> simp [decide?, h3, h1, ht, h2]
  · simp [decide?, h3]

/-- **continuation_withheld.** While a post under `id` is under way on link `h`, a continuation frame —
    whichever of tag and state it repeats — is withheld under `id`, and the link stays in the middle of that
    post exactly if the frame says `more` and does not abort. -/
theorem continuation_withheld (t : Table) (h id tg : Nat) (f : TFrame) (ht : t h = some (id, some tg))
    (hc : Continues h id tg f) :
    (route t f).2 = .withheld id ∧
    (route t f).1 h = (if f.more = true ∧ f.aborted = false then some (id, some tg) else none) := by
  have hd := decide_continuation t h id tg f ht hc
  obtain ⟨h1, h2, _⟩ := hc
  constructor
  · simp [route, hd]
  · rcases h2 with h2 | h2 <;> cases hm : f.more <;> cases ha : f.aborted <;>
      simp [route, hd, source_route_shape, Table.set, h1, hm, ha, h2, ht]

/-- **first_frame_withheld.** A transfer that names a transaction is withheld under it; its delivery-tag is
    kept with the entry. -/
theorem first_frame_withheld (t : Table) (id tg : Nat) (f : TFrame) (hf : f.txn = some id) (hg : f.tag = some tg) :
    (route t f).2 = .withheld id ∧
    (route t f).1 f.handle = (if f.more = true ∧ f.aborted = false then some (id, some tg) else none) := by
  have hd : decide? t f = some id := by simp [decide?, hf]
  constructor
  · simp [route, hd]
  · cases hm : f.more <;> cases ha : f.aborted <;> simp [route, hd, source_route_shape, Table.set, hm, ha, hg]

/-- **abort_ends_the_post (C10).** A withheld transfer that aborts its delivery leaves the link with no post
    under way, whatever its `more` flag says. -/
theorem abort_ends_the_post (t : Table) (f : TFrame) (id : Nat) (hd : decide? t f = some id) (ha : f.aborted = true) :
    (route t f).1 f.handle = none := by
  simp [route, hd, source_route_shape, Table.set, ha]

/-- with the condition the code had (`more` alone) an abort frame that says `more` leaves the post under way:
    the next plain delivery's continuation frame is taken for the transaction's -/
example :
    (let t : Table := Table.set (fun _ => none) 0 (some (7, some 1))     -- what `more` alone leaves behind
     decide? t ⟨0, none, none, false, false, 2⟩) = some 7 := by decide

/-- and with the test the code had for a continuation (no delivery-tag at all) a continuation frame that
    repeats the tag and leaves the state out went to the link on its own -/
example : (route (Table.set (fun _ => none) 0 (some (7, some 1))) ⟨0, none, some 1, false, false, 2⟩).2 = .withheld 7 ∧
    (if (some 1 : Option Nat) = none then some 7 else (none : Option Nat)) = none := by decide

/-- **other_links_untouched.** A transfer touches no entry but its own link's. -/
theorem other_links_untouched (t : Table) (f : TFrame) (h : Nat) (hne : f.handle ≠ h) : (route t f).1 h = t h := by
  unfold route
  cases decide? t f with
  | none => rfl
  | some id => simp [Table.set, Ne.symm hne]

/-- **plain_delivery_direct.** On a link with no post under way, the frames of a delivery that names no
    transaction go to the link at once and leave the table as it is. -/
theorem plain_delivery_direct (t : Table) (f : TFrame) (ht : t f.handle = none) (hf : f.txn = none) :
    route t f = (t, .direct) := by
  simp [route, decide?, hf, ht]

theorem step_table (s : St) (f : TFrame) : (step s f).1.table = (route s.table f).1 := by
  unfold step
  cases h : route s.table f with
  | mk t r => cases r <;> rfl

theorem step_route (s : St) (f : TFrame) : (step s f).2 = (route s.table f).2 := by
  unfold step
  cases h : route s.table f with
  | mk t r => cases r <;> rfl

/-- **after_abort_next_is_plain (C10).** After an aborted transactional delivery on link `h` — the abort frame
    with or without `more` — a plain delivery in any number of frames (tags repeated or not), frames of other
    links in between, goes to the link frame by frame: none of it is withheld. -/
theorem after_abort_next_is_plain (h : Nat) : ∀ (fs : List TFrame) (s : St),
    s.table h = none →
    (∀ f ∈ fs, f.handle = h → f.txn = none) →
    ∀ p ∈ fs.zip (run s fs).2, p.1.handle = h → p.2 = .direct
  | [], _, _, _ => by simp [run]
  | f :: fs, s, ht, hall => by
    intro p hp hph
    by_cases hh : f.handle = h
    · have hr : route s.table f = (s.table, .direct) :=
        plain_delivery_direct s.table f (by rw [hh]; exact ht) (hall f (by simp) hh)
      have ht' : (step s f).1.table h = none := by rw [step_table, hr]; exact ht
      have hd : (step s f).2 = .direct := by rw [step_route, hr]
      have hrun : run s (f :: fs) = ((run (step s f).1 fs).1, (step s f).2 :: (run (step s f).1 fs).2) := by
        simp [run]
      rw [hrun] at hp
      simp only [List.zip_cons_cons, List.mem_cons] at hp
      rcases hp with rfl | hp
      · exact hd
      · exact after_abort_next_is_plain h fs (step s f).1 ht' (fun g hg => hall g (by simp [hg])) p hp hph
    · have ht' : (step s f).1.table h = none := by
        rw [step_table, other_links_untouched s.table f h hh]; exact ht
      have hrun : run s (f :: fs) = ((run (step s f).1 fs).1, (step s f).2 :: (run (step s f).1 fs).2) := by
        simp [run]
      rw [hrun] at hp
      simp only [List.zip_cons_cons, List.mem_cons] at hp
      rcases hp with rfl | hp
      · exact absurd hph hh
      · exact after_abort_next_is_plain h fs (step s f).1 ht' (fun g hg => hall g (by simp [hg])) p hp hph

/-- **withheld_in_order (C10, C18).** What a transaction has withheld is kept in arrival order: a withheld frame
    goes to the end of its transaction's work and no other transaction's work changes. -/
theorem withheld_in_order (s : St) (f : TFrame) (id : Nat) (hr : (step s f).2 = .withheld id) :
    (step s f).1.work id = s.work id ++ [f] ∧ ∀ k, k ≠ id → (step s f).1.work k = s.work k := by
  unfold step at hr ⊢
  cases h : route s.table f with
  | mk t r =>
    cases r with
    | direct => simp [h] at hr
    | withheld j =>
      simp [h] at hr
      subst hr
      constructor
      · simp
      · intro k hk; simp [hk]

theorem direct_keeps_work (s : St) (f : TFrame) (hr : (step s f).2 = .direct) : (step s f).1.work = s.work := by
  unfold step at hr ⊢
  cases h : route s.table f with
  | mk t r => cases r <;> simp [h] at hr ⊢

/-- **post_withheld_whole (C10, C18).** From the first frame of a post under `id` on link `h` up to (not
    including) its last frame, with frames of other links in between in any number, the continuation frames
    repeating or omitting delivery-tag and state as they like: every frame of the post is withheld under `id` —
    none reaches the link before the discharge — and the link is still in the middle of the post (so that the
    last frame, by `continuation_withheld`, is withheld too and ends it). -/
theorem post_withheld_whole (h id tg : Nat) : ∀ (fs : List TFrame) (s : St),
    s.table h = some (id, some tg) →
    (∀ f ∈ fs, f.handle = h → Continues h id tg f ∧ f.more = true ∧ f.aborted = false) →
    (run s fs).1.table h = some (id, some tg) ∧ ∀ p ∈ fs.zip (run s fs).2, p.1.handle = h → p.2 = .withheld id
  | [], _, ht, _ => by simp [run, ht]
  | f :: fs, s, ht, hall => by
    have hrun : run s (f :: fs) = ((run (step s f).1 fs).1, (step s f).2 :: (run (step s f).1 fs).2) := by
      simp [run]
    have ht' : (step s f).1.table h = some (id, some tg) := by
      rw [step_table]
      by_cases hh : f.handle = h
      · obtain ⟨hc, hm, ha⟩ := hall f (by simp) hh
        rw [(continuation_withheld s.table h id tg f ht hc).2]; simp [hm, ha]
      · rw [other_links_untouched s.table f h hh]; exact ht
    obtain ⟨r1, r2⟩ := post_withheld_whole h id tg fs (step s f).1 ht' (fun g hg => hall g (by simp [hg]))
    rw [hrun]
    refine ⟨r1, ?_⟩
    intro p hp hph
    simp only [List.zip_cons_cons, List.mem_cons] at hp
    rcases hp with rfl | hp
    · obtain ⟨hc, _, _⟩ := hall f (by simp) hph
      show (step s f).2 = _
      rw [step_route]; exact (continuation_withheld s.table h id tg f ht hc).1
    · exact r2 p hp hph

theorem step_work_filter (s : St) (f : TFrame) (id h : Nat) :
    ((step s f).1.work id).filter (·.handle == h) =
      (s.work id).filter (·.handle == h) ++
        (if (step s f).2 = .withheld id ∧ f.handle = h then [f] else []) := by
  cases hr : (step s f).2 with
  | direct => simp [direct_keeps_work s f hr]
  | withheld j =>
    obtain ⟨w1, w2⟩ := withheld_in_order s f j hr
    by_cases hj : j = id
    · subst hj
      by_cases hh : f.handle = h <;> simp [w1, hh]
    · have : id ≠ j := fun e => hj e.symm
      simp [w2 id this, hj]

/-- **post_work_in_order (C10, C18).** Under the hypotheses of `post_withheld_whole`: what the transaction
    holds for link `h` afterwards is what it held before followed by the frames of the post in the order they
    came, nothing of another link among them — so that the commit, which replays a transaction's work in
    order, hands the link the very frame sequence the peer wrote, to which `reasm_once` applies. -/
theorem post_work_in_order (h id tg : Nat) : ∀ (fs : List TFrame) (s : St),
    s.table h = some (id, some tg) →
    (∀ f ∈ fs, f.handle = h → Continues h id tg f ∧ f.more = true ∧ f.aborted = false) →
    ((run s fs).1.work id).filter (·.handle == h) =
      (s.work id).filter (·.handle == h) ++ fs.filter (·.handle == h)
  | [], _, _, _ => by simp [run]
  | f :: fs, s, ht, hall => by
    have hrun : (run s (f :: fs)).1 = (run (step s f).1 fs).1 := by simp [run]
    have ht' : (step s f).1.table h = some (id, some tg) := by
      rw [step_table]
      by_cases hh : f.handle = h
      · obtain ⟨hc, hm, ha⟩ := hall f (by simp) hh
        rw [(continuation_withheld s.table h id tg f ht hc).2]; simp [hm, ha]
      · rw [other_links_untouched s.table f h hh]; exact ht
    rw [hrun, post_work_in_order h id tg fs (step s f).1 ht' (fun g hg => hall g (by simp [hg])),
      step_work_filter]
    by_cases hh : f.handle = h
    · obtain ⟨hc, _, _⟩ := hall f (by simp) hh
      have hw : (step s f).2 = .withheld id := by
        rw [step_route]; exact (continuation_withheld s.table h id tg f ht hc).1
      simp [hw, hh]
    · simp [hh]

theorem source_counts_withheld : countsWithheld = true := by decide

/-- **every_transfer_counted (C07).** The session's counters are advanced once for every transfer that
    arrives, withheld under a transaction or handed on: what the session states as next-incoming-id in its
    flows reflects the transfer frames it has received. -/
theorem every_transfer_counted : ∀ (fs : List TFrame) (s : St), (run s fs).1.counted = s.counted + fs.length
  | [], s => by simp [run]
  | f :: fs, s => by
    have h1 : (step s f).1.counted = s.counted + 1 := by
      unfold step
      cases h : route s.table f with
      | mk t r => cases r <;> simp [source_counts_withheld]
    have hrun : (run s (f :: fs)).1 = (run (step s f).1 fs).1 := by simp [run]
    rw [hrun, every_transfer_counted fs (step s f).1, h1]
    simp; omega

/-! ### non-vacuity: a three-frame post (tag repeated on the second frame, state on the first only) whose last
    frame aborts with `more`, then a plain two-frame delivery -/
example : (run St.init [⟨0, some 7, some 1, true, false, 1⟩, ⟨0, none, some 1, true, false, 2⟩,
    ⟨0, none, none, true, true, 3⟩, ⟨0, none, some 2, true, false, 4⟩, ⟨0, none, some 2, false, false, 5⟩]).2 =
    [.withheld 7, .withheld 7, .withheld 7, .direct, .direct] := by decide

end Amqp.TxnRoute
