/-
  C13 / C14 / C15 — the search for a detach the peer has already sent ends for every queue and finds the
  detach wherever it stands.
-/
import Amqp.PendingDetach

namespace Amqp.PendingDetach

theorem source_skips_others : skipsOthers = true := by decide
theorem source_any_failure_ends : anyFailureEnds = true := by decide

theorem take_finds : ∀ (queue : List Item) (fuel : Nat), queue.length < fuel →
    ∃ rest, take true true fuel queue = some (firstDetach queue, rest)
  | [], fuel, h => by
    cases fuel with
    | zero => omega
    | succ f => exact ⟨[], by simp [take, firstDetach]⟩
  | .detach c e :: rest, fuel, h => by
    cases fuel with
    | zero => simp at h
    | succ f => exact ⟨rest, by simp [take, firstDetach]⟩
  | .other :: rest, fuel, h => by
    cases fuel with
    | zero => simp at h
    | succ f =>
      obtain ⟨r, hr⟩ := take_finds rest f (by simp at h; omega)
      exact ⟨r, by simp [take, firstDetach, hr]⟩

/-- **pending_detach_found (C13, C14, C15).** Whatever is queued for a link when the application
    detaches or closes it — any number of unread deliveries ahead of, behind or instead of a detach
    from the peer — the search comes back after at most one turn per queued frame plus one (it cannot
    spin, also when the queue is closed because the session is gone), and it comes back with the
    peer's detach exactly when one is queued: the link then answers that detach in kind and reports
    the peer's error instead of sending a detach of its own and re-attaching a link the peer has left. -/
theorem pending_detach_found (queue : List Item) :
    ∃ rest, takeAsSource queue = some (firstDetach queue, rest) := by
  unfold takeAsSource
  rw [source_skips_others, source_any_failure_ends]
  exact take_finds queue (queue.length + 1) (Nat.lt_succ_self _)

/-- looking at the head only (a seeded simplification) misses a detach behind an unread delivery -/
example : take false true 3 [.other, .detach true true] = some (none, [.detach true true]) := by decide

/-- trying again on every failure (another seeded simplification) never comes back once the queue is
    empty: no amount of fuel is enough -/
theorem retrying_on_failure_spins (fuel : Nat) : take true false fuel [] = none := by
  induction fuel with
  | zero => rfl
  | succ f ih => simp [take, ih]

/-- non-vacuity: two unread deliveries, then the peer's closing detach with an error -/
example : takeAsSource [.other, .other, .detach true true, .other] = some (some (.detach true true), [.other]) := by decide

end Amqp.PendingDetach
