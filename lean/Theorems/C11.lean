/-
  C11 — Identifiers: increasing delivery-ids, unique handles/channels, correct routing.
-/
import Amqp.Handles
import Amqp.LinkSplit
import Theorems.C07

namespace Amqp.Handles

/-- slab invariant: live keys pairwise distinct, disjoint from the free stack,
    all below `len`; the free stack has no duplicates -/
structure SlabInv (s : Slab) : Prop where
  liveNodup : (s.live.map (·.1)).Nodup
  freeNodup : s.free.Nodup
  disjoint : ∀ k ∈ s.free, k ∉ s.live.map (·.1)
  liveLt : ∀ k ∈ s.live.map (·.1), k < s.len
  freeLt : ∀ k ∈ s.free, k < s.len

theorem nodup_map_inj {α β : Type} (f : α → β) : ∀ (l : List α), (l.map f).Nodup →
    ∀ a b, a ∈ l → b ∈ l → f a = f b → a = b
  | [], _, a, _, ha, _, _ => by simp at ha
  | x :: xs, hnd, a, b, ha, hb, hab => by
    simp only [List.map_cons, List.nodup_cons] at hnd
    simp only [List.mem_cons] at ha hb
    rcases ha with rfl | ha <;> rcases hb with rfl | hb
    · rfl
    · exact absurd (hab ▸ List.mem_map_of_mem (f := f) hb) hnd.1
    · exact absurd (hab ▸ List.mem_map_of_mem (f := f) ha) hnd.1
    · exact nodup_map_inj f xs hnd.2 a b ha hb hab

theorem empty_inv : SlabInv Slab.empty :=
  ⟨by simp [Slab.empty], by simp [Slab.empty], by simp [Slab.empty], by simp [Slab.empty], by simp [Slab.empty]⟩

/-- **fresh_handle.** The key handed out is not among the live ones. -/
theorem insert_fresh (s : Slab) (v : String) (h : SlabInv s) :
    (s.insert v).2 ∉ s.live.map (·.1) ∧ SlabInv (s.insert v).1 := by
  obtain ⟨h1, h2, h3, h4, h5⟩ := h
  unfold Slab.insert
  cases hf : s.free with
  | nil =>
    simp only
    refine ⟨fun hm => by have := h4 _ hm; omega, ⟨?_, by simp, by simp, ?_, by simp⟩⟩
    · simp only [List.map_cons, List.nodup_cons]
      exact ⟨fun hm => by have := h4 _ hm; omega, h1⟩
    · intro k hk
      simp only [List.map_cons, List.mem_cons] at hk
      show k < s.len + 1
      rcases hk with rfl | hk
      · omega
      · have := h4 k hk; omega
  | cons k rest =>
    simp only
    have hkfree : k ∈ s.free := by simp [hf]
    have hnd : (k :: rest).Nodup := hf ▸ h2
    refine ⟨h3 k hkfree, ⟨?_, (List.nodup_cons.mp hnd).2, ?_, ?_, ?_⟩⟩
    · simp only [List.map_cons, List.nodup_cons]
      exact ⟨h3 k hkfree, h1⟩
    · intro j hj hm
      simp only [List.map_cons, List.mem_cons] at hm
      rcases hm with rfl | hm
      · exact (List.nodup_cons.mp hnd).1 hj
      · exact h3 j (by simp [hf, hj]) hm
    · intro j hj
      simp only [List.map_cons, List.mem_cons] at hj
      rcases hj with rfl | hj
      · exact h5 _ hkfree
      · exact h4 j hj
    · intro j hj
      exact h5 j (by simp [hf, hj])

theorem remove_inv (s : Slab) (k : Nat) (h : SlabInv s) : SlabInv (s.remove k).1 := by
  obtain ⟨h1, h2, h3, h4, h5⟩ := h
  unfold Slab.remove
  cases hfind : s.live.find? (·.1 == k) with
  | none => exact ⟨h1, h2, h3, h4, h5⟩
  | some p =>
    obtain ⟨k', v⟩ := p
    simp only
    have hmem : (k', v) ∈ s.live := List.mem_of_find?_eq_some hfind
    have hk : k' = k := by
      have := List.find?_some hfind; simpa using this
    subst hk
    have hklive : k' ∈ s.live.map (·.1) := List.mem_map_of_mem (f := (·.1)) hmem
    have hsub : ∀ j, j ∈ (s.live.filter (·.1 != k')).map (·.1) → j ∈ s.live.map (·.1) ∧ j ≠ k' := by
      intro j hj
      simp only [List.mem_map, List.mem_filter] at hj
      obtain ⟨q, ⟨hq, hne⟩, rfl⟩ := hj
      exact ⟨List.mem_map_of_mem (f := (·.1)) hq, by simpa using hne⟩
    refine ⟨?_, ?_, ?_, ?_, ?_⟩
    · exact List.Nodup.sublist (List.Sublist.map _ List.filter_sublist) h1
    · simp only [List.nodup_cons]
      exact ⟨fun hm => h3 k' hm hklive, h2⟩
    · intro j hj hm
      obtain ⟨hm1, hne⟩ := hsub j hm
      simp only [List.mem_cons] at hj
      rcases hj with rfl | hj
      · exact hne rfl
      · exact h3 j hj hm1
    · intro j hj; exact h4 j (hsub j hj).1
    · intro j hj
      simp only [List.mem_cons] at hj
      rcases hj with rfl | hj
      · exact h4 _ hklive
      · exact h5 j hj

/-- invariant of the session's tables: the slab invariant, and the names in use are
    exactly the names of the live entries, without repetition -/
structure LInv (l : Links) : Prop where
  slab : SlabInv l.slab
  names : ∀ n, n ∈ l.names ↔ n ∈ l.slab.live.map (·.2)
  nodup : (l.slab.live.map (·.2)).Nodup

theorem step_inv (l : Links) (op : Op) (h : LInv l) : LInv (step l op).1 := by
  obtain ⟨hs, hn, hd⟩ := h
  cases op with
  | alloc name =>
    simp only [step, allocate]
    by_cases hc : l.names.contains name = true
    · simp only [hc, if_true]; exact ⟨hs, hn, hd⟩
    · simp only [hc]
      have hnot : name ∉ l.slab.live.map (·.2) := by
        intro hm; exact hc (by simpa using (hn name).mpr hm)
      have hfresh := insert_fresh l.slab name hs
      refine ⟨hfresh.2, ?_, ?_⟩
      · intro n
        unfold Slab.insert
        cases hf : l.slab.free <;> simp [hn n]
      · unfold Slab.insert
        cases hf : l.slab.free <;> simp [hd, hnot]
  | free k =>
    simp only [step, deallocate]
    have hrem := remove_inv l.slab k hs
    unfold Slab.remove at hrem ⊢
    cases hfind : l.slab.live.find? (·.1 == k) with
    | none => simp only [hfind]; exact ⟨hs, hn, hd⟩
    | some p =>
      obtain ⟨k', v⟩ := p
      simp only [hfind] at hrem ⊢
      have hmem : (k', v) ∈ l.slab.live := List.mem_of_find?_eq_some hfind
      have hk : k' = k := by have := List.find?_some hfind; simpa using this
      subst hk
      refine ⟨hrem, ?_, ?_⟩
      · intro n
        simp only [List.mem_filter, List.mem_map]
        constructor
        · rintro ⟨hn1, hne⟩
          obtain ⟨q, hq, rfl⟩ := List.mem_map.mp ((hn n).mp hn1)
          refine ⟨q, ⟨hq, ?_⟩, rfl⟩
          -- q's key differs from k' since names are unique and q.2 ≠ v
          have hne' : q.2 ≠ v := by simpa using hne
          simp only [bne_iff_ne, ne_eq]
          intro hkey
          -- same key ⇒ same entry (keys nodup)
          have : q = (k', v) := by
            have hkeys := hs.liveNodup
            exact nodup_map_inj (·.1) _ hkeys q (k', v) hq hmem hkey
          exact hne' (by rw [this])
        · rintro ⟨q, ⟨hq, hkey⟩, rfl⟩
          refine ⟨(hn q.2).mpr (List.mem_map_of_mem (f := (·.2)) hq), ?_⟩
          simp only [bne_iff_ne, ne_eq]
          intro hv
          have : q = (k', v) := nodup_map_inj (·.2) _ hd q (k', v) hq hmem hv
          rw [this] at hkey
          simp at hkey
      · exact List.Nodup.sublist (List.Sublist.map _ List.filter_sublist) hd

theorem run_inv (ops : List Op) : ∀ l, LInv l → LInv (run l ops).1 := by
  induction ops with
  | nil => intro l h; exact h
  | cons op ops ih => intro l h; exact ih _ (step_inv l op h)

theorem empty_linv : LInv Links.empty :=
  ⟨empty_inv, by simp [Links.empty, Slab.empty], by simp [Links.empty, Slab.empty]⟩

/-- **handles_unique / names_unique.** After any history of attach / detach
    operations, no two live links share an output handle or a name. -/
theorem handles_unique (ops : List Op) :
    ((run Links.empty ops).1.slab.live.map (·.1)).Nodup ∧
    ((run Links.empty ops).1.slab.live.map (·.2)).Nodup :=
  let h := run_inv ops Links.empty empty_linv
  ⟨h.slab.liveNodup, h.nodup⟩

/-- **reuse_after_free.** A handle that is handed out was not live at that moment:
    it is either new or was freed before. -/
theorem reuse_after_free (ops : List Op) (name : String) (k : Nat)
    (h : (step (run Links.empty ops).1 (.alloc name)).2 = .handle k) :
    k ∉ (run Links.empty ops).1.slab.live.map (·.1) := by
  have hinv := run_inv ops Links.empty empty_linv
  simp only [step, allocate] at h
  split at h
  · cases h
  · simp only [Res.handle.injEq] at h
    rw [← h]
    exact (insert_fresh _ name hinv.slab).1

/-- **duplicate_name_refused.** Attaching a name that is live is refused and changes nothing. -/
theorem duplicate_name_refused (l : Links) (name : String) (h : l.names.contains name = true) :
    step l (.alloc name) = (l, .duplicateName) := by
  simp only [step, allocate, h, if_true]

end Amqp.Handles

namespace Amqp.Session
open Amqp

/-- delivery-ids stamped on the emitted sequence, in order -/
def deliveryIds : List Out → List Nat
  | [] => []
  | .transfer _ (some d) _ _ :: os => d :: deliveryIds os
  | _ :: os => deliveryIds os

/-- every delivery-id is the transfer-id of the frame that carries it, and
    transfer-ids are consecutive: so delivery-ids are distinct transfer-ids of
    the emitted sequence, in increasing (serial) order of emission -/
theorem delivery_id_is_transfer_id : ∀ (outs : List Out) (start : Nat), NoiOk start outs →
    ∀ tid d r x, Out.transfer tid (some d) r x ∈ outs → d = tid
  | [], _, _, _, _, _, _, h => by simp at h
  | .transfer t dd rr xx :: os, start, hok, tid, d, r, x, hm => by
    obtain ⟨e1, e2, e3⟩ := hok
    simp only [List.mem_cons] at hm
    rcases hm with heq | hm
    · simp only [Out.transfer.injEq] at heq
      obtain ⟨rfl, rfl, rfl, rfl⟩ := heq
      by_cases hx : x.hasTag = true
      · simp [hx] at e2; omega
      · simp [hx] at e2
    · exact delivery_id_is_transfer_id os _ e3 tid d r x hm
  | .flow a b c d' e :: os, start, hok, tid, d, r, x, hm => by
    obtain ⟨_, e3⟩ := hok
    simp only [List.mem_cons] at hm
    rcases hm with heq | hm
    · cases heq
    · exact delivery_id_is_transfer_id os _ e3 tid d r x hm

/-- **one_id_per_delivery (session side).** A frame gets a delivery-id exactly when it
    is handed over with a delivery-tag, i.e. is the first frame of a delivery. -/
theorem id_iff_tag : ∀ (outs : List Out) (start : Nat), NoiOk start outs →
    ∀ tid d r x, Out.transfer tid d r x ∈ outs → (d.isSome ↔ x.hasTag = true)
  | [], _, _, _, _, _, _, h => by simp at h
  | .transfer t dd rr xx :: os, start, hok, tid, d, r, x, hm => by
    obtain ⟨e1, e2, e3⟩ := hok
    simp only [List.mem_cons] at hm
    rcases hm with heq | hm
    · simp only [Out.transfer.injEq] at heq
      obtain ⟨rfl, rfl, rfl, rfl⟩ := heq
      by_cases hx : x.hasTag = true <;> simp [hx, e2]
    · exact id_iff_tag os _ e3 tid d r x hm
  | .flow a b c d' e :: os, start, hok, tid, d, r, x, hm => by
    obtain ⟨_, e3⟩ := hok
    simp only [List.mem_cons] at hm
    rcases hm with heq | hm
    · cases heq
    · exact id_iff_tag os _ e3 tid d r x hm

end Amqp.Session

/-! ## one delivery-tag, hence one delivery-id, per delivery -/

namespace Amqp.LinkSplit
open Amqp.Frame Amqp.Gen.LinkSplit Amqp.Gen.FrameK

def tags (ps : List Piece) : List Bool := ps.map (·.hasTag)

/-- the obligation tied to the source: the tag is cleared before the loop of the middle
    transfers, so also when that loop does not run -/
theorem tag_cleared_before_loop : tagClearedBeforeLoop = true := by decide

theorem tags_map_false (f : Bytes → Piece) (hf : ∀ c, (f c).hasTag = false) (cs : List Bytes) :
    tags (cs.map f) = List.replicate cs.length false := by
  induction cs with
  | nil => rfl
  | cons c cs ih => simp only [tags, List.map_cons, List.length_cons, List.replicate_succ, hf] at ih ⊢; rw [ih]

/-- **link layer**: of the transfers the link hands to the session for one delivery only the
    first carries the delivery-tag -/
theorem linkSplit_tags (m : Nat) (payload : Bytes) :
    ∃ n, tags (linkSplit m payload) = true :: List.replicate n false := by
  unfold linkSplit linkSplitWith
  rw [tag_cleared_before_loop]
  by_cases h : link_split.cond_if_0 payload.length m = true
  · exact ⟨0, by simp [h, tags]⟩
  · simp only [h, if_false, Bool.false_eq_true]
    generalize lMiddle m payload.length (payload.drop (link_split.arg_split_to_0 m)) = mr
    obtain ⟨mids, rest⟩ := mr
    refine ⟨mids.length + 1, ?_⟩
    have := tags_map_false (fun c => (⟨false, true, c⟩ : Piece)) (fun _ => rfl) mids
    simp only [tags, List.map_cons, List.map_append, List.map_nil] at this ⊢
    rw [this]
    simp [List.replicate_succ']

/-- what the defect was: with the clearing only inside the loop, a delivery cut in exactly
    two transfers carries its tag twice -/
theorem old_order_two_tags : tags (linkSplitWith false 4 [1, 2, 3, 4, 5, 6]) = [true, true] := by
  decide +kernel

theorem sessionSplit_shape (B : Nat) (l : SLens) (payload : Bytes) :
    (∃ c, sessionSplit B l payload = [(SKind.whole, c)]) ∨
    (∃ (c : Bytes) (cs : List Bytes) (r : Bytes), sessionSplit B l payload = (SKind.first, c) :: cs.map (fun x => (SKind.cont, x)) ++ [(SKind.last, r)]) := by
  unfold sessionSplit
  by_cases h1 : split_transfer.cond_if_1 B payload.length l.whole = true
  · exact Or.inl ⟨payload, by simp [h1]⟩
  · by_cases h2 : split_transfer.cond_if_2 l.first B l.rest = true
    · exact Or.inl ⟨payload, by simp [h1, h2]⟩
    · right
      simp only [h1, h2, if_false, Bool.false_eq_true]
      generalize sMiddle B l.rest payload.length (payload.drop (split_transfer.arg_split_to_0 l.first B payload.length)) = mr
      obtain ⟨mids, rest⟩ := mr
      exact ⟨_, mids, rest, rfl⟩

/-- **engine layer**: the frame-size cut keeps the tag on the first transfer only -/
theorem frameCut_tags (B : Nat) (lens : Piece → SLens) (p : Piece) :
    ∃ n, tags (frameCut B lens p) = p.hasTag :: List.replicate n false := by
  unfold frameCut
  rcases sessionSplit_shape B (lens p) p.payload with ⟨c, h⟩ | ⟨c, cs, r, h⟩
  · exact ⟨0, by simp [h, tags, pieceOf]⟩
  · refine ⟨cs.length + 1, ?_⟩
    rw [h]
    have hm : tags ((cs.map (fun x => (SKind.cont, x))).map (pieceOf p)) = List.replicate cs.length false := by
      rw [List.map_map]
      exact tags_map_false (pieceOf p ∘ fun x => (SKind.cont, x)) (fun _ => rfl) cs
    simp only [tags, List.map_cons, List.map_append, List.map_nil] at hm ⊢
    rw [hm]
    simp [pieceOf, List.replicate_succ']

theorem tags_flatMap_false (f : Piece → List Piece) (ps : List Piece)
    (hp : ∀ p ∈ ps, p.hasTag = false) (hf : ∀ p, ∃ n, tags (f p) = p.hasTag :: List.replicate n false) :
    ∃ n, tags (ps.flatMap f) = List.replicate n false := by
  induction ps with
  | nil => exact ⟨0, rfl⟩
  | cons p ps ih =>
    obtain ⟨n1, h1⟩ := hf p
    obtain ⟨n2, h2⟩ := ih (fun q hq => hp q (by simp [hq]))
    refine ⟨n1 + 1 + n2, ?_⟩
    have hpf := hp p (by simp)
    simp only [tags, List.flatMap_cons, List.map_append] at h1 h2 ⊢
    rw [h1, h2, hpf, ← List.replicate_succ, List.replicate_append_replicate]

/-- **one_tag_per_delivery**: whatever the message size, max-message-size and frame size,
    of all the transfers the session numbers for one delivery exactly the first carries the
    delivery-tag — so (`Amqp.Session.id_iff_tag`) exactly the first frame of a delivery
    gets a delivery-id and continuation frames carry none. -/
theorem one_tag_per_delivery (m B : Nat) (lens : Piece → SLens) (payload : Bytes) :
    ∃ n, tags (deliveryFrames m B lens payload) = true :: List.replicate n false := by
  unfold deliveryFrames
  obtain ⟨n, hn⟩ := linkSplit_tags m payload
  generalize linkSplit m payload = ps at hn
  cases ps with
  | nil => simp [tags] at hn
  | cons p ps =>
    simp only [tags, List.map_cons, List.cons.injEq] at hn
    obtain ⟨hp, hps⟩ := hn
    obtain ⟨n1, h1⟩ := frameCut_tags B lens p
    have hall : ∀ q ∈ ps, q.hasTag = false := by
      intro q hq
      have : q.hasTag ∈ ps.map (·.hasTag) := List.mem_map_of_mem hq
      rw [hps] at this
      exact (List.mem_replicate.mp this).2
    obtain ⟨n2, h2⟩ := tags_flatMap_false (frameCut B lens) ps hall (frameCut_tags B lens)
    refine ⟨n1 + n2, ?_⟩
    simp only [tags, List.flatMap_cons, List.map_append] at h1 h2 ⊢
    rw [h1, h2, hp, List.cons_append, List.replicate_append_replicate]

-- non-vacuity: 10 bytes, max-message-size 4, frame body 6 with 1/2/1-byte performatives
example : tags (deliveryFrames 4 6 (fun _ => ⟨1, 2, 1⟩) [0, 1, 2, 3, 4, 5, 6, 7, 8, 9]) = [true, false, false] := by
  decide +kernel
example : tags (deliveryFrames 8 6 (fun _ => ⟨1, 2, 1⟩) [0, 1, 2, 3, 4, 5, 6, 7, 8, 9]) = [true, false, false] := by
  decide +kernel

end Amqp.LinkSplit
