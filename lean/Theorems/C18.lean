/-
  C18 — transactions on the listener side are atomic and isolated until discharge.
-/
import Amqp.Txn
import Theorems.TxnRoute

namespace Amqp.Txn
open Amqp.Gen.Txn Amqp.Gen.TxnK

/-! ## what the source says (generated tables and orders) -/

theorem source_discharge_action : ∀ f, discharge_action f = (if f = some true then .rollback else .commit) := by
  intro f
  cases f with
  | none => rfl
  | some b => cases b <;> rfl

theorem source_lookups : commit_lookup none = .unknownId ∧ commit_lookup (some ()) = .found ∧
    rollback_lookup none = .unknownId ∧ rollback_lookup (some ()) = .found := by decide

theorem source_orders : ownCheckFirst = true ∧ postLookupFirst = true ∧ commitRemovesFirst = true ∧ dropAborts = true := by decide

/-! ## helpers -/

theorem lookup_some_mem (s : St) (id : Nat) (ps : List Post) (h : lookup s id = some ps) : id ∈ liveKeys s := by
  unfold lookup at h
  cases hf : s.live.find? (·.1 == id) with
  | none => simp [hf] at h
  | some e =>
    have hm := List.mem_of_find?_eq_some hf
    have hk : e.1 = id := by simpa using List.find?_some hf
    simp only [liveKeys, List.mem_map]
    exact ⟨e, hm, hk⟩

theorem lookup_none_not_mem (s : St) (id : Nat) (h : lookup s id = none) : id ∉ liveKeys s := by
  unfold lookup at h
  intro hm
  simp only [liveKeys, List.mem_map] at hm
  obtain ⟨e, he, hk⟩ := hm
  cases hf : s.live.find? (·.1 == id) with
  | none =>
    have := List.find?_eq_none.mp hf e he
    simp [hk] at this
  | some e' => simp [hf] at h

theorem keys_buffer (live : List (Nat × List Post)) (id : Nat) (p : Post) : (buffer live id p).map (·.1) = live.map (·.1) := by
  induction live with
  | nil => rfl
  | cons e es ih =>
    simp only [buffer, List.map_cons] at ih ⊢
    rw [ih]
    by_cases h : e.1 == id <;> simp [h]

theorem keys_erase (s : St) (id : Nat) : (eraseLive s id).map (·.1) = (liveKeys s).filter (· != id) := by
  simp only [eraseLive, liveKeys]
  induction s.live with
  | nil => rfl
  | cons e es ih =>
    simp only [List.filter_cons, List.map_cons]
    by_cases h : e.1 != id <;> simp [h, ih]

/-! ## the invariant -/

structure Inv (s : St) : Prop where
  /-- live ids are below the supply, so a fresh id is new -/
  liveLt : ∀ id ∈ liveKeys s, id < s.next
  liveNodup : (liveKeys s).Nodup
  /-- finished ids are below the supply too -/
  committedLt : ∀ id ∈ s.committed, id < s.next
  droppedLt : ∀ id ∈ s.dropped, id < s.next
  /-- a finished id is not live, and an id finishes one way only -/
  committedNotLive : ∀ id ∈ s.committed, id ∉ liveKeys s
  droppedNotLive : ∀ id ∈ s.dropped, id ∉ liveKeys s
  disjoint : ∀ id ∈ s.committed, id ∉ s.dropped
  /-- a coordinator only owns live transactions, and a transaction has one owner -/
  ownerLive : ∀ e ∈ s.owner, e.2 ∈ liveKeys s
  ownerUnique : ∀ e ∈ s.owner, ∀ e' ∈ s.owner, e.2 = e'.2 → e = e'
  /-- whatever was posted under an id was posted under an id already handed out -/
  postedLt : ∀ p ∈ s.posted, ∀ id, p.txn = some id → id < s.next
  /-- **isolation**: what has been handed to the links was posted outside any transaction, or under one that committed -/
  deliveredOk : ∀ p ∈ s.delivered, p.txn = none ∨ ∃ id, p.txn = some id ∧ id ∈ s.committed
  /-- what a live transaction withholds is what was posted under it, in posting order -/
  buffers : ∀ e ∈ s.live, e.2 = s.posted.filter (fun p => p.txn == some e.1)

theorem inv_init : Inv init := by
  refine ⟨?_, ?_, ?_, ?_, ?_, ?_, ?_, ?_, ?_, ?_, ?_, ?_⟩ <;> simp [init, liveKeys]

theorem mem_buffer (live : List (Nat × List Post)) (id : Nat) (p : Post) (e : Nat × List Post) (h : e ∈ buffer live id p) :
    ∃ e0 ∈ live, e.1 = e0.1 ∧ e.2 = (if e0.1 == id then e0.2 ++ [p] else e0.2) := by
  simp only [buffer, List.mem_map] at h
  obtain ⟨e0, h0, rfl⟩ := h
  refine ⟨e0, h0, ?_, ?_⟩ <;> by_cases hk : e0.1 == id <;> simp [hk]

theorem keys_filter (live : List (Nat × List Post)) (f : Nat → Bool) :
    (live.filter (fun e => f e.1)).map (·.1) = (live.map (·.1)).filter f := by
  induction live with
  | nil => rfl
  | cons e es ih =>
    simp only [List.filter_cons, List.map_cons]
    by_cases hk : f e.1 = true <;> simp [hk, ih]

/-- removing entries of the live map keeps the invariant's facts about what stays -/
theorem inv_step (s : St) (op : Op) (h : Inv s) : Inv (step s op).1 := by
  unfold step
  by_cases hd : s.dead = true
  · simp [hd]; exact h
  · simp only [hd, Bool.false_eq_true, if_false]
    cases op with
    | declare c =>
      simp only
      exact {
        liveLt := by
          intro id hid
          simp only [liveKeys, List.map_append, List.map_cons, List.map_nil, List.mem_append, List.mem_singleton] at hid
          rcases hid with hid | rfl
          · have := h.liveLt id hid; (first | omega | (dsimp only; omega))
          · (first | omega | (dsimp only; omega))
        liveNodup := by
          simp only [liveKeys, List.map_append, List.map_cons, List.map_nil]
          rw [List.nodup_append]
          refine ⟨h.liveNodup, by simp, ?_⟩
          intro a ha b hb
          simp at hb; subst hb
          have := h.liveLt a ha
          (first | omega | (dsimp only; omega))
        committedLt := by intro id hid; have := h.committedLt id hid; (first | omega | (dsimp only; omega))
        droppedLt := by intro id hid; have := h.droppedLt id hid; (first | omega | (dsimp only; omega))
        committedNotLive := by
          intro id hid hm
          simp only [liveKeys, List.map_append, List.map_cons, List.map_nil, List.mem_append, List.mem_singleton] at hm
          rcases hm with hm | rfl
          · exact h.committedNotLive id hid hm
          · have := h.committedLt _ hid; (first | omega | (dsimp only; omega))
        droppedNotLive := by
          intro id hid hm
          simp only [liveKeys, List.map_append, List.map_cons, List.map_nil, List.mem_append, List.mem_singleton] at hm
          rcases hm with hm | rfl
          · exact h.droppedNotLive id hid hm
          · have := h.droppedLt _ hid; (first | omega | (dsimp only; omega))
        disjoint := h.disjoint
        ownerLive := by
          intro e he
          simp only [List.mem_append, List.mem_singleton] at he
          simp only [liveKeys, List.map_append, List.map_cons, List.map_nil, List.mem_append, List.mem_singleton]
          rcases he with he | rfl
          · exact Or.inl (h.ownerLive e he)
          · exact Or.inr rfl
        ownerUnique := by
          intro e he e' he' heq
          simp only [List.mem_append, List.mem_singleton] at he he'
          rcases he with he | rfl <;> rcases he' with he' | rfl
          · exact h.ownerUnique e he e' he' heq
          · have := h.liveLt _ (h.ownerLive e he); simp at heq; (first | omega | (dsimp only; omega))
          · have := h.liveLt _ (h.ownerLive e' he'); simp at heq; (first | omega | (dsimp only; omega))
          · rfl
        postedLt := by intro p hp id hid; have := h.postedLt p hp id hid; (first | omega | (dsimp only; omega))
        deliveredOk := h.deliveredOk
        buffers := by
          intro e he
          simp only [List.mem_append, List.mem_singleton] at he
          rcases he with he | rfl
          · exact h.buffers e he
          · simp only
            symm
            apply List.filter_eq_nil_iff.mpr
            intro p hp hpt
            simp only [beq_iff_eq] at hpt
            have := h.postedLt p hp s.next hpt
            (first | omega | (dsimp only; omega)) }
    | post p =>
      cases hpt : p.txn with
      | none =>
        simp only [hpt]
        exact {
          liveLt := h.liveLt, liveNodup := h.liveNodup, committedLt := h.committedLt, droppedLt := h.droppedLt,
          committedNotLive := h.committedNotLive, droppedNotLive := h.droppedNotLive, disjoint := h.disjoint,
          ownerLive := h.ownerLive, ownerUnique := h.ownerUnique
          postedLt := by
            intro q hq id hid
            rcases List.mem_append.mp hq with hq | hq
            · exact h.postedLt q hq id hid
            · simp at hq; subst hq; rw [hpt] at hid; cases hid
          deliveredOk := by
            intro q hq
            rcases List.mem_append.mp hq with hq | hq
            · exact h.deliveredOk q hq
            · simp at hq; subst hq; exact Or.inl hpt
          buffers := by
            intro e he
            rw [List.filter_append, h.buffers e he]
            simp [hpt] }
      | some id =>
        simp only [hpt]
        by_cases hlive : (postLookupFirst && (liveKeys s).contains id) = true
        · simp only [hlive, if_true]
          have hidlive : id ∈ liveKeys s := by
            have := hlive; simp only [Bool.and_eq_true] at this; simpa using this.2
          exact {
            liveLt := by intro i hi; simp only [liveKeys, keys_buffer] at hi; exact h.liveLt i hi
            liveNodup := by simp only [liveKeys, keys_buffer]; exact h.liveNodup
            committedLt := h.committedLt, droppedLt := h.droppedLt
            committedNotLive := by intro i hi; simp only [liveKeys, keys_buffer]; exact h.committedNotLive i hi
            droppedNotLive := by intro i hi; simp only [liveKeys, keys_buffer]; exact h.droppedNotLive i hi
            disjoint := h.disjoint
            ownerLive := by intro e he; simp only [liveKeys, keys_buffer]; exact h.ownerLive e he
            ownerUnique := h.ownerUnique
            postedLt := by
              intro q hq i hi
              rcases List.mem_append.mp hq with hq | hq
              · exact h.postedLt q hq i hi
              · simp at hq; subst hq; rw [hpt] at hi; cases hi; exact h.liveLt _ hidlive
            deliveredOk := h.deliveredOk
            buffers := by
              intro e he
              obtain ⟨e0, h0, hk, hv⟩ := mem_buffer s.live id p e he
              rw [hv, hk, List.filter_append, h.buffers e0 h0]
              by_cases hk0 : e0.1 == id
              · have : e0.1 = id := by simpa using hk0
                simp [hk0, hpt, this]
              · have : ¬ e0.1 = id := by simpa using hk0
                have hne : (p.txn == some e0.1) = false := by
                  rw [hpt]; simp; exact fun e => this e.symm
                simp [hk0, hne] }
        · simp only [hlive, Bool.false_eq_true, if_false]
          exact {
            liveLt := h.liveLt, liveNodup := h.liveNodup, committedLt := h.committedLt, droppedLt := h.droppedLt,
            committedNotLive := h.committedNotLive, droppedNotLive := h.droppedNotLive, disjoint := h.disjoint,
            ownerLive := h.ownerLive, ownerUnique := h.ownerUnique, postedLt := h.postedLt,
            deliveredOk := h.deliveredOk, buffers := h.buffers }
    | discharge c id fail =>
      by_cases hown : (ownCheckFirst && !(s.owner.contains (c, id))) = true
      · simp only [hown, if_true]; exact h
      · simp only [hown, Bool.false_eq_true, if_false]
        have hcid : (c, id) ∈ s.owner := by
          by_cases hc : (c, id) ∈ s.owner
          · exact hc
          · exfalso; apply hown; simp [source_orders.1, hc]
        have hownerSub : ∀ e ∈ s.owner.filter (· != (c, id)), e ∈ s.owner := fun e he => (List.mem_filter.mp he).1
        have hownerNe : ∀ e ∈ s.owner.filter (· != (c, id)), e.2 ≠ id := by
          intro e he heq
          have he' := List.mem_filter.mp he
          have := h.ownerUnique e he'.1 (c, id) hcid heq
          simp [this] at he'
        have hownerUnique' : ∀ e ∈ s.owner.filter (· != (c, id)), ∀ e' ∈ s.owner.filter (· != (c, id)), e.2 = e'.2 → e = e' :=
          fun e he e' he' heq => h.ownerUnique e (hownerSub e he) e' (hownerSub e' he') heq
        -- the state with the transaction taken out of the live map
        have herase : ∀ (posts : List Post), lookup s id = some posts →
            (∀ i ∈ (eraseLive s id).map (·.1), i < s.next) ∧ ((eraseLive s id).map (·.1)).Nodup ∧
            (∀ i, i ∈ (eraseLive s id).map (·.1) → i ∈ liveKeys s ∧ i ≠ id) ∧
            (∀ e ∈ s.owner.filter (· != (c, id)), e.2 ∈ (eraseLive s id).map (·.1)) := by
          intro posts _
          refine ⟨?_, ?_, ?_, ?_⟩
          · intro i hi; rw [keys_erase] at hi; exact h.liveLt i (List.mem_filter.mp hi).1
          · rw [keys_erase]; exact h.liveNodup.filter _
          · intro i hi; rw [keys_erase] at hi
            have := List.mem_filter.mp hi
            exact ⟨this.1, by simpa using this.2⟩
          · intro e he; rw [keys_erase]
            exact List.mem_filter.mpr ⟨h.ownerLive e (hownerSub e he), by simpa using hownerNe e he⟩
        have hnoop : Inv { s with owner := s.owner.filter (· != (c, id)), dead := false } := {
          liveLt := h.liveLt, liveNodup := h.liveNodup, committedLt := h.committedLt, droppedLt := h.droppedLt,
          committedNotLive := h.committedNotLive, droppedNotLive := h.droppedNotLive, disjoint := h.disjoint,
          ownerLive := fun e he => h.ownerLive e (hownerSub e he), ownerUnique := hownerUnique',
          postedLt := h.postedLt, deliveredOk := h.deliveredOk, buffers := h.buffers }
        cases hda : discharge_action fail with
        | commit =>
          simp only
          cases hl : lookup s id with
          | none =>
            simp only [Option.map_none, source_lookups.1]
            exact hnoop
          | some posts =>
            simp only [Option.map_some, source_lookups.2.1]
            have hmem := lookup_some_mem s id posts hl
            obtain ⟨e1, e2, e3, e4⟩ := herase posts hl
            exact {
              liveLt := e1, liveNodup := e2
              committedLt := by
                intro i hi
                rcases List.mem_append.mp hi with hi | hi
                · exact h.committedLt i hi
                · simp at hi; subst hi; exact h.liveLt _ hmem
              droppedLt := h.droppedLt
              committedNotLive := by
                intro i hi hm
                have hm' := e3 i hm
                rcases List.mem_append.mp hi with hi | hi
                · exact h.committedNotLive i hi hm'.1
                · simp at hi; exact hm'.2 hi
              droppedNotLive := by intro i hi hm; exact h.droppedNotLive i hi (e3 i hm).1
              disjoint := by
                intro i hi
                rcases List.mem_append.mp hi with hi | hi
                · exact h.disjoint i hi
                · simp at hi; subst hi
                  intro hdm; exact h.droppedNotLive _ hdm hmem
              ownerLive := e4, ownerUnique := hownerUnique', postedLt := h.postedLt
              deliveredOk := by
                intro p hp
                rcases List.mem_append.mp hp with hp | hp
                · rcases h.deliveredOk p hp with hn | ⟨i, hi, hc⟩
                  · exact Or.inl hn
                  · exact Or.inr ⟨i, hi, List.mem_append_left _ hc⟩
                · have hfind : ∃ e ∈ s.live, e.1 = id ∧ e.2 = posts := by
                    unfold lookup at hl
                    cases hf : s.live.find? (·.1 == id) with
                    | none => simp [hf] at hl
                    | some e =>
                      simp [hf] at hl
                      exact ⟨e, List.mem_of_find?_eq_some hf, by simpa using List.find?_some hf, hl⟩
                  obtain ⟨e, he, hk, hv⟩ := hfind
                  have hb := h.buffers e he
                  rw [hv, hk] at hb
                  rw [hb] at hp
                  have := (List.mem_filter.mp hp).2
                  exact Or.inr ⟨id, by simpa using this, by simp⟩
              buffers := by intro e he; exact h.buffers e (List.mem_filter.mp he).1 }
        | rollback =>
          simp only
          cases hl : lookup s id with
          | none =>
            simp only [Option.map_none, source_lookups.2.2.1]
            exact hnoop
          | some posts =>
            simp only [Option.map_some, source_lookups.2.2.2]
            have hmem := lookup_some_mem s id posts hl
            obtain ⟨e1, e2, e3, e4⟩ := herase posts hl
            exact {
              liveLt := e1, liveNodup := e2, committedLt := h.committedLt
              droppedLt := by
                intro i hi
                rcases List.mem_append.mp hi with hi | hi
                · exact h.droppedLt i hi
                · simp at hi; subst hi; exact h.liveLt _ hmem
              committedNotLive := by intro i hi hm; exact h.committedNotLive i hi (e3 i hm).1
              droppedNotLive := by
                intro i hi hm
                have hm' := e3 i hm
                rcases List.mem_append.mp hi with hi | hi
                · exact h.droppedNotLive i hi hm'.1
                · simp at hi; exact hm'.2 hi
              disjoint := by
                intro i hi hdm
                rcases List.mem_append.mp hdm with hdm | hdm
                · exact h.disjoint i hi hdm
                · simp at hdm; subst hdm; exact h.committedNotLive _ hi hmem
              ownerLive := e4, ownerUnique := hownerUnique', postedLt := h.postedLt, deliveredOk := h.deliveredOk
              buffers := by intro e he; exact h.buffers e (List.mem_filter.mp he).1 }
    | ctrlGone c =>
      simp only [source_orders.2.2.2, if_true]
      -- the ids aborted are those owned through `c`
      have hkeys : (s.live.filter (fun e => !((s.owner.filter (·.1 == c)).map (·.2)).contains e.1)).map (·.1)
          = (liveKeys s).filter (fun i => !((s.owner.filter (·.1 == c)).map (·.2)).contains i) :=
        keys_filter s.live (fun i => !((s.owner.filter (·.1 == c)).map (·.2)).contains i)
      exact {
        liveLt := by
          intro i hi
          simp only [liveKeys] at hi
          rw [hkeys] at hi
          exact h.liveLt i (List.mem_filter.mp hi).1
        liveNodup := by
          simp only [liveKeys]
          rw [hkeys]; exact h.liveNodup.filter _
        committedLt := h.committedLt
        droppedLt := by
          intro i hi
          rcases List.mem_append.mp hi with hi | hi
          · exact h.droppedLt i hi
          · have := (List.mem_filter.mp hi).2
            exact h.liveLt i (by simpa using this)
        committedNotLive := by
          intro i hi hm
          simp only [liveKeys] at hm
          rw [hkeys] at hm
          exact h.committedNotLive i hi (List.mem_filter.mp hm).1
        droppedNotLive := by
          intro i hi hm
          simp only [liveKeys] at hm
          rw [hkeys] at hm
          have hm' := List.mem_filter.mp hm
          rcases List.mem_append.mp hi with hi | hi
          · exact h.droppedNotLive i hi hm'.1
          · have h1 := (List.mem_filter.mp hi).1
            have h2 := hm'.2
            simp only [Bool.not_eq_true', List.contains_eq_mem, decide_eq_false_iff_not] at h2
            exact h2 h1
        disjoint := by
          intro i hi hdm
          rcases List.mem_append.mp hdm with hdm | hdm
          · exact h.disjoint i hi hdm
          · have := (List.mem_filter.mp hdm).2
            exact h.committedNotLive i hi (by simpa using this)
        ownerLive := by
          intro e he
          have he' := List.mem_filter.mp he
          simp only [liveKeys]
          rw [hkeys]
          refine List.mem_filter.mpr ⟨h.ownerLive e he'.1, ?_⟩
          simp only [Bool.not_eq_true', List.contains_eq_mem, decide_eq_false_iff_not, List.mem_map, List.mem_filter]
          rintro ⟨o, ⟨ho, hoc⟩, hoe⟩
          have := h.ownerUnique o ho e he'.1 hoe
          subst this
          have hne : ¬ o.1 = c := by simpa using he'.2
          exact hne (by simpa using hoc)
        ownerUnique := fun e he e' he' heq => h.ownerUnique e (List.mem_filter.mp he).1 e' (List.mem_filter.mp he').1 heq
        postedLt := h.postedLt
        deliveredOk := h.deliveredOk
        buffers := by intro e he; exact h.buffers e (List.mem_filter.mp he).1 }
    | ctrlDetached c => exact h
    | sessionEnd =>
      exact {
        liveLt := h.liveLt, liveNodup := h.liveNodup, committedLt := h.committedLt, droppedLt := h.droppedLt,
        committedNotLive := h.committedNotLive, droppedNotLive := h.droppedNotLive, disjoint := h.disjoint,
        ownerLive := h.ownerLive, ownerUnique := h.ownerUnique, postedLt := h.postedLt,
        deliveredOk := h.deliveredOk, buffers := h.buffers }

theorem run_fst_inv : ∀ (ops : List Op) (s : St), Inv s → Inv (run s ops).1 := by
  intro ops
  induction ops with
  | nil => intro s h; exact h
  | cons op ops ih =>
    intro s h
    simp only [run]
    exact ih _ (inv_step s op h)

/-! ## the property -/

/-- **isolated until discharge, and never after a rollback.**  Whatever the history of declares,
    posts, discharges, control-link losses and session end: every delivery the links have been
    handed was posted outside any transaction or under one whose discharge committed; none was
    posted under a transaction that is still open, that was rolled back, or whose control link
    went away. -/
theorem isolation (ops : List Op) :
    let s := (run init ops).1
    ∀ p ∈ s.delivered, ∀ id, p.txn = some id → id ∈ s.committed ∧ id ∉ liveKeys s ∧ id ∉ s.dropped := by
  intro s p hp id hid
  have h : Inv s := run_fst_inv ops init inv_init
  rcases h.deliveredOk p hp with hn | ⟨i, hi, hc⟩
  · rw [hn] at hid; cases hid
  · rw [hi] at hid; cases hid
    exact ⟨hc, h.committedNotLive _ hc, h.disjoint _ hc⟩

/-- **atomic commit**: a commit of a live transaction through its own control link hands over,
    at once and in posting order, exactly the posts made under it, and the id is live no more -/
theorem commit_delivers_all (s : St) (h : Inv s) (hd : s.dead = false) (c : Nat) (id : Nat) (fail : Option Bool)
    (hf : fail ≠ some true) (hown : (c, id) ∈ s.owner) :
    (step s (.discharge c id fail)).2 = .accepted ∧
    (step s (.discharge c id fail)).1.delivered = s.delivered ++ s.posted.filter (fun p => p.txn == some id) ∧
    id ∉ liveKeys (step s (.discharge c id fail)).1 := by
  have hlive := h.ownerLive _ hown
  have hda : discharge_action fail = .commit := by rw [source_discharge_action]; simp [hf]
  obtain ⟨posts, hl⟩ : ∃ posts, lookup s id = some posts := by
    cases hl : lookup s id with
    | none => exact absurd hlive (lookup_none_not_mem s id hl)
    | some ps => exact ⟨ps, rfl⟩
  have hposts : posts = s.posted.filter (fun p => p.txn == some id) := by
    unfold lookup at hl
    cases hf : s.live.find? (·.1 == id) with
    | none => simp [hf] at hl
    | some e =>
      simp [hf] at hl
      have hk : e.1 = id := by simpa using List.find?_some hf
      have := h.buffers e (List.mem_of_find?_eq_some hf)
      rw [hl, hk] at this; exact this
  have hc : s.owner.contains (c, id) = true := by simpa using hown
  simp only [step, hd, Bool.false_eq_true, if_false, hc, Bool.not_true, Bool.and_false, hda, hl, Option.map_some,
    source_lookups.2.1, true_and]
  refine ⟨by rw [hposts], ?_⟩
  simp only [liveKeys]
  rw [keys_erase]
  simp

/-- **rollback**: the posts of a rolled-back transaction are handed to nobody — not then, and
    (by `isolation`) not later -/
theorem rollback_delivers_nothing (s : St) (c : Nat) (id : Nat) :
    (step s (.discharge c id (some true))).1.delivered = s.delivered := by
  unfold step
  by_cases hd : s.dead = true
  · simp [hd]
  · simp only [hd, Bool.false_eq_true, if_false]
    by_cases hc : s.owner.contains (c, id) = true
    · have hda : discharge_action (some true) = .rollback := rfl
      simp only [hc, Bool.not_true, Bool.and_false, Bool.false_eq_true, if_false, hda]
      cases lookup s id <;> simp [source_lookups.2.2.1, source_lookups.2.2.2]
    · have hc' : (c, id) ∉ s.owner := by simpa using hc
      simp [hc', source_orders.1]

/-- when a control link is closed the transactions declared through it are finished, undelivered -/
theorem ctrl_gone_drops (s : St) (h : Inv s) (hd : s.dead = false) (c : Nat) (id : Nat) (hown : (c, id) ∈ s.owner) :
    let s' := (step s (.ctrlGone c)).1
    s'.delivered = s.delivered ∧ id ∉ liveKeys s' ∧ id ∈ s'.dropped := by
  have hlive := h.ownerLive _ hown
  simp only [step, hd, Bool.false_eq_true, if_false, source_orders.2.2.2, if_true]
  refine ⟨trivial, ?_, ?_⟩
  · simp only [liveKeys]
    rw [keys_filter s.live (fun i => !((s.owner.filter (·.1 == c)).map (·.2)).contains i)]
    intro hm
    have := (List.mem_filter.mp hm).2
    simp only [Bool.not_eq_true', List.contains_eq_mem, decide_eq_false_iff_not, List.mem_map, List.mem_filter] at this
    exact this ⟨(c, id), ⟨hown, by simp⟩, rfl⟩
  · apply List.mem_append_right
    apply List.mem_filter.mpr
    refine ⟨?_, by simpa using hlive⟩
    simp only [List.mem_map, List.mem_filter]
    exact ⟨(c, id), ⟨hown, by simp⟩, rfl⟩

/-- **fresh ids**: every declare yields an id that was never handed out before -/
theorem declare_is_fresh (s : St) (h : Inv s) (hd : s.dead = false) (c : Nat) :
    (step s (.declare c)).2 = .declared s.next ∧ s.next ∉ liveKeys s ∧ s.next ∉ s.committed ∧ s.next ∉ s.dropped := by
  refine ⟨by simp [step, hd], ?_, ?_, ?_⟩
  · intro hm; have := h.liveLt _ hm; omega
  · intro hm; have := h.committedLt _ hm; omega
  · intro hm; have := h.droppedLt _ hm; omega

/-- **discharged once**: an id that is finished (committed, rolled back or aborted) or was never
    declared is not owned by any coordinator, and its discharge is refused with unknown-id, changing nothing -/
theorem discharge_unknown_refused (s : St) (h : Inv s) (hd : s.dead = false) (c : Nat) (id : Nat) (fail : Option Bool)
    (hnot : id ∉ liveKeys s) :
    step s (.discharge c id fail) = (s, .rejectedUnknown) := by
  have hown : (c, id) ∉ s.owner := fun hm => hnot (h.ownerLive _ hm)
  simp [step, hd, hown, source_orders.1]

theorem finished_not_live (s : St) (h : Inv s) (id : Nat) (hf : id ∈ s.committed ∨ id ∈ s.dropped) : id ∉ liveKeys s := by
  rcases hf with hf | hf
  · exact h.committedNotLive id hf
  · exact h.droppedNotLive id hf

/-- a discharge through another control link than the declaring one is refused as well -/
theorem discharge_foreign_link_refused (s : St) (h : Inv s) (hd : s.dead = false) (c c' : Nat) (id : Nat) (fail : Option Bool)
    (hown : (c, id) ∈ s.owner) (hne : c' ≠ c) : step s (.discharge c' id fail) = (s, .rejectedUnknown) := by
  have hnot : (c', id) ∉ s.owner := by
    intro hm
    have := h.ownerUnique _ hm _ hown rfl
    simp at this; exact hne this
  simp [step, hd, hnot, source_orders.1]

/-- **posts to an unknown or finished id are refused** with the transaction error (the session is
    ended with it) and not applied: nothing is buffered, nothing is delivered -/
theorem post_unknown_refused (s : St) (hd : s.dead = false) (p : Post) (id : Nat) (hp : p.txn = some id) (hnot : id ∉ liveKeys s) :
    step s (.post p) = ({ s with dead := true }, .sessionError) := by
  simp [step, hd, hp, hnot]

/-- and once the session is gone nothing is delivered any more -/
theorem dead_is_final (s : St) (hd : s.dead = true) (ops : List Op) : (run s ops).1 = s := by
  induction ops generalizing s with
  | nil => rfl
  | cons op ops ih =>
    simp only [run, step, hd, if_true]
    exact ih s hd

/-- a plain post goes straight through; a post under a live transaction is withheld -/
theorem post_plain_delivered (s : St) (hd : s.dead = false) (p : Post) (hp : p.txn = none) :
    (step s (.post p)).1.delivered = s.delivered ++ [p] := by
  simp [step, hd, hp]

theorem post_live_withheld (s : St) (hd : s.dead = false) (p : Post) (id : Nat) (hp : p.txn = some id) (hl : id ∈ liveKeys s) :
    (step s (.post p)).2 = .buffered ∧ (step s (.post p)).1.delivered = s.delivered := by
  simp [step, hd, hp, hl, source_orders.2.1]

/-- non-vacuity: two transactions, one committed, one rolled back, a plain post in between -/
example :
    let r := run init [.declare 0, .declare 0, .post ⟨some 0, 0, 1⟩, .post ⟨some 1, 0, 2⟩, .post ⟨none, 0, 3⟩, .post ⟨some 0, 1, 4⟩,
                        .discharge 0 1 (some true), .discharge 0 0 none, .discharge 0 0 none, .post ⟨some 1, 0, 5⟩]
    r.2 = [.declared 0, .declared 1, .buffered, .buffered, .delivered, .buffered, .accepted, .accepted, .rejectedUnknown, .sessionError] ∧
    r.1.delivered.map (·.label) = [3, 1, 4] := by decide

/-- the witness of the known finding C09 `resource:link-credit-lost-by-rollback`, in the model's terms: a link is
    handed what `delivered` lists and counts nothing else; after four posts under a transaction that is rolled back
    it has been handed none of the four deliveries its peer has sent (and used credit for), and
    `rollback_delivers_nothing` with `isolation` says it never will be — nothing in the model (as in the code) tells
    the link that those deliveries happened. Replayed on the implementation by the `txn` runs for C09. -/
example :
    let r := run init [.declare 0, .post ⟨some 0, 0, 1⟩, .post ⟨some 0, 0, 2⟩, .post ⟨some 0, 0, 3⟩, .post ⟨some 0, 0, 4⟩,
                        .discharge 0 0 (some true)]
    r.2 = [.declared 0, .buffered, .buffered, .buffered, .buffered, .accepted] ∧
    (r.1.delivered.filter (·.link == 0)).length = 0 := by decide

end Amqp.Txn
