/-
  C13 — session and link lifecycles.

  Part 1: the session's end handshake (`Amqp.SessLife`), for every sequence of events.
  Part 2: the link's detach handshake (`Amqp.LinkLife`).
-/
import Amqp.DetachHold
import Theorems.PendingDetach
import Amqp.SessLife
import Amqp.LinkLife

namespace Amqp.SessLife
open Amqp.Gen.Fsm Amqp.Gen.SessLife

def Out.isEnd : Out → Bool
  | .end_ _ => true
  | _ => false

macro "sess_simp" : tactic => `(tactic|
  simp [step, stepRunning, stepWait, onIncomingEnd, onIncomingEndQueued, onError, endSession, settle, overwrite, Err.res,
    Sess.on_incoming_end, Sess.send_end, Sess.end_session_arm, Sess.on_outgoing_link_frames_arm,
    end_session.arg_wait_for_remote_end_0, end_session.arg_wait_for_remote_end_1, end_session.arg_wait_for_remote_end_2,
    Out.isEnd])

/-- the end has been written, or the engine has stopped -/
def Ending (s : St) : Prop :=
  s.phase = .stopped ∨ ((s.ss = .endSent ∨ s.ss = .discarding ∨ s.ss = .unmapped) ∧ s.linksClosed = true) ∨
  ((s.ss = .endSent ∨ s.ss = .discarding ∨ s.ss = .unmapped) ∧ ∃ d t, s.phase = .waitEnd d t)

def Inv (s : St) : Prop := Ending s ∨ (s.ss = .mapped ∧ s.phase = .running)

set_option maxHeartbeats 2000000 in
/-- **nothing after the end** (one event): once the session has written its end (or stopped),
    no event makes it write anything on its channel -/
theorem ending_step (s : St) (e : Event) (h : Ending s) : (step s e).2 = [] ∧ Ending (step s e).1 := by
  obtain ⟨ss, phase, res, linksClosed⟩ := s
  simp only [Ending] at h ⊢
  rcases h with h | ⟨h, hl⟩ | ⟨h, d, t, hp⟩
  · subst h; simp [step]
  · subst hl
    cases phase with
    | stopped => simp [step]
    | running =>
      rcases h with rfl | rfl | rfl <;> cases e with
      | peerEnd we => cases we <;> sess_simp
      | peerEndQueued we => cases we <;> sess_simp
      | peerFrame ok => cases ok <;> sess_simp
      | ctlEnd we => cases we <;> sess_simp
      | linkOut => sess_simp
    | waitEnd d t =>
      rcases h with rfl | rfl | rfl <;> cases e with
      | peerEnd we => cases we <;> cases t <;> sess_simp
      | peerEndQueued we => cases we <;> cases t <;> sess_simp
      | peerFrame ok => cases ok <;> cases d <;> sess_simp
      | ctlEnd we => sess_simp
      | linkOut => sess_simp
  · subst hp
    rcases h with rfl | rfl | rfl <;> cases e with
    | peerEnd we => cases we <;> cases t <;> sess_simp
    | peerEndQueued we => cases we <;> cases t <;> sess_simp
    | peerFrame ok => cases ok <;> cases d <;> sess_simp
    | ctlEnd we => sess_simp
    | linkOut => sess_simp

set_option maxHeartbeats 2000000 in
/-- one event on a mapped session: at most one frame is written; if it is an end, the session is
    ending afterwards -/
theorem mapped_step (s : St) (e : Event) (hs : s.ss = .mapped) (hp : s.phase = .running) :
    (step s e).2.length ≤ 1 ∧ (∀ o ∈ (step s e).2, o.isEnd = true → Ending (step s e).1) ∧ Inv (step s e).1 := by
  obtain ⟨ss, phase, res, linksClosed⟩ := s
  simp only at hs hp
  subst hs hp
  simp only [Inv, Ending]
  cases e with
  | peerEnd we => cases we <;> sess_simp
  | peerEndQueued we => cases we <;> sess_simp
  | peerFrame ok => cases ok <;> sess_simp
  | ctlEnd we => cases we <;> sess_simp
  | linkOut => cases linksClosed <;> sess_simp

/-- an end frame, if any, is the last thing written on the channel -/
def EndLast : List Out → Prop
  | [] => True
  | o :: os => (o.isEnd = true → os = []) ∧ EndLast os

theorem run_ending (evs : List Event) : ∀ (s : St), Ending s → (run s evs).2 = [] := by
  induction evs with
  | nil => intro s _; rfl
  | cons e es ih =>
    intro s h
    obtain ⟨a, b⟩ := ending_step s e h
    simp only [run, a, List.nil_append]
    exact ih _ b

/-- **C13, session: at most one end, nothing on the channel after it**, for every sequence of
    events (the peer's frames whether the session can act on them or not, the application's end
    with or without error, frames of its links) -/
theorem end_is_last (evs : List Event) : ∀ (s : St), Inv s → EndLast (run s evs).2 := by
  induction evs with
  | nil => intro s _; simp [run, EndLast]
  | cons e es ih =>
    intro s h
    simp only [run]
    rcases h with h | ⟨hs, hp⟩
    · obtain ⟨a, b⟩ := ending_step s e h
      rw [a, List.nil_append]
      exact ih _ (Or.inl b)
    · obtain ⟨a, b, c⟩ := mapped_step s e hs hp
      have ih1 := ih _ c
      generalize (step s e).2 = w at a b
      match w, a with
      | [], _ => simpa using ih1
      | [o], _ =>
        simp only [List.singleton_append, EndLast]
        exact ⟨fun hcl => run_ending es _ (b o (by simp) hcl), ih1⟩

theorem endLast_count : ∀ (os : List Out), EndLast os → (os.filter Out.isEnd).length ≤ 1 := by
  intro os
  induction os with
  | nil => intro _; simp
  | cons o os ih =>
    intro h
    obtain ⟨h1, h2⟩ := h
    by_cases hc : o.isEnd = true
    · rw [h1 hc]; simp [hc]
    · have := ih h2
      simp [hc]; exact this

theorem at_most_one_end (evs : List Event) (s : St) (h : Inv s) : ((run s evs).2.filter Out.isEnd).length ≤ 1 :=
  endLast_count _ (end_is_last evs s h)

/-- **a peer's end is always answered with an end** (without error), the engine stops, and the
    handle learns that — and why — the peer ended the session -/
theorem peer_end_answered (s : St) (we : Bool) (hs : s.ss = .mapped) (hp : s.phase = .running) :
    (step s (.peerEnd we)).2 = [.end_ false] ∧ (step s (.peerEnd we)).1.phase = .stopped ∧
    (step s (.peerEnd we)).1.res = some (if we then .remoteEndedWithError else .remoteEnded) := by
  obtain ⟨ss, phase, res, linksClosed⟩ := s
  simp only at hs hp
  subst hs hp
  cases we <;> sess_simp

/-- **a peer's end is answered also when frames of the session's links are still queued** (C13): the
    queued frames cannot go out any more (the state has left MAPPED), the arm that takes up the end leaves
    early — and `end_session`, entered in END RECEIVED, writes the end all the same: exactly one end (with
    an error), the engine stops, the handle learns why.  (A seeded change folded that arm of `end_session`
    into the one that has nothing to send: the peer's end then stays unanswered.) -/
theorem peer_end_answered_with_frames_queued (s : St) (we : Bool) (hs : s.ss = .mapped) (hp : s.phase = .running) :
    (step s (.peerEndQueued we)).2 = [.end_ true] ∧ (step s (.peerEndQueued we)).1.phase = .stopped ∧
    (step s (.peerEndQueued we)).1.res = some .illegalState := by
  obtain ⟨ss, phase, res, linksClosed⟩ := s
  simp only at hs hp
  subst hs hp
  cases we <;> sess_simp

/-- **local end returns only after the peer's answer**: after `end()` the engine keeps running
    (the handle's call is pending) through anything the peer still sends, and stops at the peer's
    end; the result is clean unless the peer's end carries an error, which is then what the
    caller gets -/
theorem local_end_waits_for_peer (oks : List Bool) (hok : ∀ b ∈ oks, b = true) (we : Bool) : ∀ (s : St),
    s.ss = .endSent → s.phase = .running → s.linksClosed = true →
    (∀ k, k ≤ oks.length → (run s ((oks.take k).map Event.peerFrame)).1.phase = .running) ∧
    (run s (oks.map Event.peerFrame ++ [.peerEnd we])).1.phase = .stopped ∧
    (run s (oks.map Event.peerFrame ++ [.peerEnd we])).1.res = (if we then some .remoteEndedWithError else s.res) ∧
    (run s (oks.map Event.peerFrame ++ [.peerEnd we])).2 = [] := by
  induction oks with
  | nil =>
    intro s hs hp hl
    obtain ⟨ss, phase, res, linksClosed⟩ := s
    simp only at hs hp hl
    subst hs hp hl
    refine ⟨fun k hk => by simp [run], ?_⟩
    cases we <;> simp [run, step, stepRunning, onIncomingEnd, onError, endSession, settle, overwrite, Err.res,
      Sess.on_incoming_end, Sess.end_session_arm]
  | cons b bs ih =>
    intro s hs hp hl
    have hb : b = true := hok b (by simp)
    subst hb
    have hstep : step s (.peerFrame true) = (s, []) := by
      obtain ⟨ss, phase, res, linksClosed⟩ := s
      simp only at hs hp
      subst hs hp
      simp [step, stepRunning]
    obtain ⟨i1, i2, i3, i4⟩ := ih (fun x hx => hok x (by simp [hx])) s hs hp hl
    refine ⟨?_, ?_, ?_, ?_⟩
    · intro k hk
      cases k with
      | zero => simp [run, hp]
      | succ k =>
        simp only [List.take_succ_cons, List.map_cons, run, hstep]
        exact i1 k (by simpa using hk)
    · simpa [run, hstep] using i2
    · simpa [run, hstep] using i3
    · simpa [run, hstep] using i4

/-- **after ending with an error the session discards until the peer's end.**  A frame the
    session cannot act on makes it end with an error; from then on whatever the peer sends —
    including further frames that would fail — is ignored, nothing is written, and the engine
    stops exactly when the peer's end arrives (never earlier: its channel stays mapped for
    that end, so the end cannot bring the connection down). -/
theorem error_end_waits_for_peer_end (fs : List Bool) (we : Bool) (s : St) (hs : s.ss = .mapped) (hp : s.phase = .running) :
    (step s (.peerFrame false)).2 = [.end_ true] ∧
    (∀ k, k ≤ fs.length → (run (step s (.peerFrame false)).1 ((fs.take k).map Event.peerFrame)).1.phase = .waitEnd true true) ∧
    (run (step s (.peerFrame false)).1 (fs.map Event.peerFrame ++ [.peerEnd we])).1.phase = .stopped ∧
    (run (step s (.peerFrame false)).1 (fs.map Event.peerFrame ++ [.peerEnd we])).2 = [] := by
  obtain ⟨ss, phase, res, linksClosed⟩ := s
  simp only at hs hp
  subst hs hp
  have h0 : step { ss := .mapped, phase := .running, res := res, linksClosed := linksClosed } (.peerFrame false) =
      ({ ss := .discarding, phase := .waitEnd true true, res := some .failed, linksClosed := linksClosed }, [.end_ true]) := by
    sess_simp
  rw [h0]
  refine ⟨rfl, ?_⟩
  generalize hq : ({ ss := SState.discarding, phase := Phase.waitEnd true true, res := some Res.failed, linksClosed := linksClosed } : St) = q
  have hq1 : q.ss = .discarding := by rw [← hq]
  have hq2 : q.phase = .waitEnd true true := by rw [← hq]
  clear hq h0
  induction fs generalizing q with
  | nil =>
    refine ⟨fun k hk => by simp [run, hq2], ?_, ?_⟩
    · obtain ⟨ss, phase, res, lc⟩ := q
      simp only at hq1 hq2; subst hq1 hq2
      cases we <;> simp [run, step, stepWait, overwrite, Sess.on_incoming_end]
    · obtain ⟨ss, phase, res, lc⟩ := q
      simp only at hq1 hq2; subst hq1 hq2
      cases we <;> simp [run, step, stepWait, overwrite, Sess.on_incoming_end]
  | cons b bs ih =>
    have hstep : step q (.peerFrame b) = (q, []) := by
      obtain ⟨ss, phase, res, lc⟩ := q
      simp only at hq1 hq2; subst hq1 hq2
      cases b <;> simp [step, stepWait]
    obtain ⟨i1, i2, i3⟩ := ih q hq1 hq2
    refine ⟨?_, ?_, ?_⟩
    · intro k hk
      cases k with
      | zero => simp [run, hq2]
      | succ k =>
        simp only [List.take_succ_cons, List.map_cons, run, hstep]
        exact i1 k (by simpa using hk)
    · simpa [run, hstep] using i2
    · simpa [run, hstep] using i3

-- non-vacuity
example : Inv mapped0 := Or.inr ⟨rfl, rfl⟩
example : (run mapped0 [.linkOut, .peerFrame true, .ctlEnd false, .linkOut, .peerFrame true, .peerEnd false]).2 = [.frame, .end_ false] := by
  decide +kernel

end Amqp.SessLife

/-! ## Part 2: the link's detach handshake -/

namespace Amqp.LinkLife
open Amqp.Gen.Fsm

/-- **answered in kind, once.**  When the peer has already detached (or closed) the link, the
    application's next `detach()` / `close()` writes exactly one detach, with the `closed` flag
    the peer used — closing with closing — and nothing else. -/
theorem peer_detach_answered_in_kind (req : Req) (p answer : PeerDetach) :
    (call req (some p) answer).sent = [p.closed] := by
  cases req <;> cases p with | mk c e => cases answer with | mk c2 e2 => cases c <;> cases e <;> cases c2 <;> cases e2 <;> decide

/-- **the peer's error is what the caller gets**, whether it came with an earlier detach of the
    peer or with its answer to ours (of the same kind) -/
theorem peer_error_reported (req : Req) (p answer : PeerDetach) (he : p.withError = true) :
    (call req (some p) answer).res = .remoteError := by
  cases req <;> cases p with | mk c e => cases c <;> simp_all [call, onIncomingDetach, Link.on_incoming_detach_closed, Link.on_incoming_detach_not_closed, Link.send_detach]

theorem answer_error_reported (req : Req) (answer : PeerDetach) (hk : answer.closed = decide (req = .close))
    (he : answer.withError = true) :
    (call req none answer).res = .remoteError := by
  cases req <;> cases answer with | mk c e => cases c <;> simp_all [call, onIncomingDetach, Link.on_incoming_detach_closed, Link.on_incoming_detach_not_closed, Link.send_detach]

/-- **one detach of the requested kind, and the handshake completes**: without an earlier
    detach from the peer the call writes exactly one detach of its own kind and, on the peer's
    answer in kind, ends in the final state of that kind with a clean result (or the peer's error) -/
theorem own_detach_completes (req : Req) (answer : PeerDetach) (hk : answer.closed = decide (req = .close)) :
    (call req none answer).sent = [decide (req = .close)] ∧
    (call req none answer).state = (if req = .close then .closed else .detached) ∧
    (call req none answer).res = (if answer.withError then .remoteError else .ok) := by
  cases req <;> cases answer with | mk c e => cases c <;> cases e <;> simp_all [call, onIncomingDetach, Link.on_incoming_detach_closed, Link.on_incoming_detach_not_closed, Link.send_detach]

/-- never two detaches for one attach in the modelled paths -/
theorem at_most_one_detach (req : Req) (pending : Option PeerDetach) (answer : PeerDetach) :
    (call req pending answer).sent.length ≤ 1 := by
  cases req <;> cases pending with
  | none => cases answer with | mk c e => cases c <;> cases e <;> decide
  | some p => cases p with | mk c e => cases answer with | mk c2 e2 => cases c <;> cases e <;> cases c2 <;> cases e2 <;> decide

end Amqp.LinkLife

/-! ## a detach does not overtake the transfers the peer's window holds back -/

namespace Amqp.DetachHold

theorem source_detach_waits : detachWaits = true ∧ drainInOrder = true := by decide

/-- the drain sends a front part of what is held, in order; what it leaves begins with a transfer
    and then the window is closed -/
theorem drain_spec : ∀ (buf : List Item) (riw : Nat),
    (drain riw buf).2.2 ++ (drain riw buf).2.1 = buf ∧
    (0 < (drain riw buf).1 → (drain riw buf).2.1 = [])
  | [], riw => by simp [drain]
  | .xfer l u :: rest, riw => by
    by_cases h : 0 < riw
    · have ih := drain_spec rest (riw - 1)
      simp only [drain, h, if_true]
      exact ⟨by simp [ih.1], ih.2⟩
    · simp only [drain, h, if_false]
      exact ⟨by simp, fun hp => by exfalso; simp_all⟩
  | .detach l :: rest, riw => by
    have ih := drain_spec rest riw
    simp only [drain]
    exact ⟨by simp [ih.1], ih.2⟩

theorem ofLink_append (l : Nat) (a b : List Item) : ofLink l (a ++ b) = ofLink l a ++ ofLink l b := by
  simp [ofLink, List.filter_append]

theorem holds_false_ofLink (buf : List Item) (l : Nat) (h : holdsXferOf buf l = false)
    (hd : Item.detach l ∉ buf) : ofLink l buf = [] := by
  simp only [ofLink, List.filter_eq_nil_iff]
  intro i hi hl
  cases i with
  | xfer l' u =>
    simp only [holdsXferOf, List.any_eq_false] at h
    have := h _ hi
    simp only [Item.link, beq_iff_eq] at hl
    simp [hl] at this
  | detach l' =>
    simp only [Item.link, beq_iff_eq] at hl
    subst hl; exact hd hi

def opItems : Op → List Item
  | .hand i => [i]
  | .window _ => []

theorem P_push (l : Nat) (wire buf past : List Item) (x : Item)
    (h : ofLink l wire ++ ofLink l buf = ofLink l past) :
    ofLink l wire ++ ofLink l (buf ++ [x]) = ofLink l (past ++ [x]) := by
  rw [ofLink_append, ofLink_append, ← List.append_assoc, h]

theorem P_emit (l : Nat) (wire past : List Item) (x : Item)
    (h : ofLink l wire ++ ofLink l [] = ofLink l past) :
    ofLink l (wire ++ [x]) ++ ofLink l [] = ofLink l (past ++ [x]) := by
  have h' : ofLink l wire = ofLink l past := by simpa [ofLink] using h
  rw [ofLink_append, ofLink_append, h']
  simp [ofLink]

theorem P_move (l : Nat) (wire buf past out buf' : List Item) (hm : out ++ buf' = buf)
    (h : ofLink l wire ++ ofLink l buf = ofLink l past) :
    ofLink l (wire ++ out) ++ ofLink l buf' = ofLink l past := by
  rw [ofLink_append, List.append_assoc, ← ofLink_append, hm]; exact h

/-- one step: per link, what is on the wire followed by what is held is what was handed over -/
theorem step_fifo (s : St) (op : Op) (wire past : List Item)
    (hinv : ∀ l, ofLink l wire ++ ofLink l s.buf = ofLink l past)
    (hsub : ∀ i ∈ s.buf, i ∈ past)
    (hnew : ∀ l, op = .hand (.detach l) → Item.detach l ∉ past) :
    (∀ l, ofLink l (wire ++ (step s op).2) ++ ofLink l (step s op).1.buf = ofLink l (past ++ opItems op)) ∧
    (∀ i ∈ (step s op).1.buf, i ∈ past ++ opItems op) := by
  cases op with
  | window n =>
    simp only [step, opItems, List.append_nil]
    by_cases hc : 0 < n ∧ (!s.buf.isEmpty) = true
    · simp only [hc, and_self, if_true]
      have hd := (drain_spec s.buf n).1
      exact ⟨fun l => P_move l wire s.buf past _ _ hd (hinv l),
        fun i hi => hsub i (by rw [← hd]; exact List.mem_append_right _ hi)⟩
    · simp only [hc, if_false]
      exact ⟨by simpa using hinv, hsub⟩
  | hand it =>
    cases it with
    | xfer l u =>
      simp only [step, opItems]
      by_cases h0 : s.riw = 0
      · simp only [h0, if_true, List.append_nil]
        refine ⟨fun l' => P_push l' wire s.buf past _ (hinv l'), ?_⟩
        intro i hi
        rcases List.mem_append.mp hi with hi | hi
        · exact List.mem_append_left _ (hsub i hi)
        · exact List.mem_append_right _ hi
      · simp only [h0, if_false]
        by_cases he : s.buf.isEmpty = true
        · simp only [he, if_true]
          have hb : s.buf = [] := by simpa using he
          refine ⟨fun l' => ?_, ?_⟩
          · have := hinv l'
            rw [hb] at this ⊢
            exact P_emit l' wire past _ this
          · intro i hi; rw [hb] at hi; simp at hi
        · simp only [he, Bool.false_eq_true, if_false]
          have hd := drain_spec s.buf s.riw
          by_cases hr : 0 < (drain s.riw s.buf).1
          · simp only [hr, if_true]
            have hemp := hd.2 hr
            refine ⟨fun l' => ?_, ?_⟩
            · have h1 := P_move l' wire s.buf past _ _ hd.1 (hinv l')
              rw [hemp] at h1 ⊢
              have := P_emit l' (wire ++ (drain s.riw s.buf).2.2) past (Item.xfer l u) h1
              rw [List.append_assoc] at this
              exact this
            · intro i hi; rw [hemp] at hi; simp at hi
          · simp only [hr, if_false]
            refine ⟨fun l' => ?_, ?_⟩
            · have h1 := P_move l' wire s.buf past _ _ hd.1 (hinv l')
              exact P_push l' _ _ past _ h1
            · intro i hi
              rcases List.mem_append.mp hi with hi | hi
              · exact List.mem_append_left _ (hsub i (by rw [← hd.1]; exact List.mem_append_right _ hi))
              · exact List.mem_append_right _ hi
    | detach l =>
      simp only [step, opItems, source_detach_waits.1, Bool.true_and]
      by_cases hh : holdsXferOf s.buf l = true
      · simp only [hh, if_true, List.append_nil]
        refine ⟨fun l' => P_push l' wire s.buf past _ (hinv l'), ?_⟩
        intro i hi
        rcases List.mem_append.mp hi with hi | hi
        · exact List.mem_append_left _ (hsub i hi)
        · exact List.mem_append_right _ hi
      · simp only [hh, Bool.false_eq_true, if_false]
        have hnd : Item.detach l ∉ s.buf := fun hm => hnew l rfl (hsub _ hm)
        have hnone := holds_false_ofLink s.buf l (by simpa using hh) hnd
        refine ⟨fun l' => ?_, fun i hi => List.mem_append_left _ (hsub i hi)⟩
        by_cases hl : l' = l
        · subst hl
          have := hinv l'
          rw [hnone, List.append_nil] at this
          rw [hnone, List.append_nil, ofLink_append, ofLink_append, this]
        · have hne : ofLink l' [Item.detach l] = [] := by
            simp [ofLink, Item.link]; exact fun e => hl e.symm
          rw [ofLink_append, ofLink_append, hne, List.append_nil, List.append_nil, hinv l']

/-- nothing of a link is handed over after its detach -/
def DetachIsLast (items : List Item) : Prop :=
  ∀ pre l post, items = pre ++ Item.detach l :: post → ∀ i ∈ post, i.link ≠ l

theorem handed_cons (op : Op) (ops : List Op) : handed (op :: ops) = opItems op ++ handed ops := by
  cases op <;> rfl

theorem run_fifo : ∀ (ops : List Op) (s : St) (wire past : List Item),
    (∀ l, ofLink l wire ++ ofLink l s.buf = ofLink l past) → (∀ i ∈ s.buf, i ∈ past) →
    DetachIsLast (past ++ handed ops) →
    ∀ l, ofLink l (wire ++ (run s ops).2) ++ ofLink l (run s ops).1.buf = ofLink l (past ++ handed ops)
  | [], s, wire, past, hinv, _, _ => by simpa [run, handed] using hinv
  | op :: ops, s, wire, past, hinv, hsub, hwf => by
    have hnew : ∀ l, op = .hand (.detach l) → Item.detach l ∉ past := by
      intro l he hm
      subst he
      obtain ⟨p1, p2, hp⟩ := List.append_of_mem hm
      have := hwf p1 l (p2 ++ Item.detach l :: handed ops) (by simp [hp, handed])
      exact this (Item.detach l) (by simp) rfl
    obtain ⟨h1, h2⟩ := step_fifo s op wire past hinv hsub hnew
    have hwf' : DetachIsLast ((past ++ opItems op) ++ handed ops) := by
      rw [List.append_assoc, ← handed_cons]; exact hwf
    have ih := run_fifo ops (step s op).1 (wire ++ (step s op).2) (past ++ opItems op) h1 h2 hwf'
    intro l
    simp only [run]
    rw [← List.append_assoc, handed_cons, ← List.append_assoc]
    exact ih l

/-- **what a link hands to the session leaves it in that order.**  For every history of transfers
    and detaches handed over by any number of links and of window updates from the peer (a link
    handing nothing over after its detach): per link, the frames written so far followed by the
    frames still held are exactly the frames handed over, in order.  In particular a detach is
    never written while a transfer of its link is still held, and a held transfer is written
    before the detach that followed it. -/
theorem per_link_fifo (w0 : Nat) (ops : List Op) (hwf : DetachIsLast (handed ops)) (l : Nat) :
    ofLink l (run ⟨w0, []⟩ ops).2 ++ ofLink l (run ⟨w0, []⟩ ops).1.buf = ofLink l (handed ops) := by
  have := run_fifo ops ⟨w0, []⟩ [] [] (by simp [ofLink]) (by simp) (by simpa using hwf) l
  simpa using this

/-- and once the window has room for everything held, nothing stays behind -/
theorem window_flushes (s : St) (n : Nat) (h : s.buf.length ≤ n) (hn : 0 < n) :
    (step s (.window n)).1.buf = [] := by
  have key : ∀ (buf : List Item) (r : Nat), buf.length ≤ r → (drain r buf).2.1 = [] := by
    intro buf
    induction buf with
    | nil => intro r _; rfl
    | cons i rest ih =>
      intro r hr
      cases i with
      | xfer l u =>
        have : 0 < r := by simp at hr; omega
        simp only [drain, this, if_true]
        exact ih (r - 1) (by simp at hr; omega)
      | detach l =>
        simp only [drain]
        exact ih r (by simp at hr; omega)
  simp only [step]
  by_cases hc : 0 < n ∧ (!s.buf.isEmpty) = true
  · simp only [hc, and_self, if_true]; exact key s.buf n h
  · simp only [hc, if_false]
    have : s.buf.isEmpty = true := by
      cases hb : s.buf.isEmpty with
      | true => rfl
      | false => exact absurd ⟨hn, by simp [hb]⟩ hc
    show s.buf = []
    simpa using this

/-- the defect that was: with the detach written at once, a held pre-settled transfer is overtaken -/
example : (run ⟨1, []⟩ [.hand (.xfer 0 1), .hand (.xfer 0 2), .hand (.detach 0), .window 5]).2 =
    [.xfer 0 1, .xfer 0 2, .detach 0] := by decide

end Amqp.DetachHold
