/-
  C13 — session and link lifecycles.

  Part 1: the session's end handshake (`Amqp.SessLife`), for every sequence of events.
  Part 2: the link's detach handshake (`Amqp.LinkLife`).
-/
import Amqp.SessLife
import Amqp.LinkLife

namespace Amqp.SessLife
open Amqp.Gen.Fsm Amqp.Gen.SessLife

def Out.isEnd : Out → Bool
  | .end_ _ => true
  | _ => false

macro "sess_simp" : tactic => `(tactic|
  simp [step, stepRunning, stepWait, onIncomingEnd, onError, endSession, settle, overwrite, Err.res,
    Sess.on_incoming_end, Sess.send_end, Sess.end_session_arm, Sess.on_outgoing_link_frames_arm,
    end_session.arg_wait_for_remote_end_0, end_session.arg_wait_for_remote_end_1, end_session.arg_wait_for_remote_end_2,
    Out.isEnd])

/-- the end has been written, or the engine has stopped -/
def Ending (s : St) : Prop :=
  s.phase = .stopped ∨ ((s.ss = .endSent ∨ s.ss = .discarding ∨ s.ss = .unmapped) ∧ s.linksClosed = true) ∨
  ((s.ss = .endSent ∨ s.ss = .discarding ∨ s.ss = .unmapped) ∧ ∃ d t, s.phase = .waitEnd d t)

def Inv (s : St) : Prop := Ending s ∨ (s.ss = .mapped ∧ s.phase = .running)

set_option maxHeartbeats 2000000 in
/-- **nothing after the end** (one event): once the session has written its end (or stopped),
    no event makes it write anything on its channel -/
theorem ending_step (s : St) (e : Event) (h : Ending s) : (step s e).2 = [] ∧ Ending (step s e).1 := by
  obtain ⟨ss, phase, res, linksClosed⟩ := s
  simp only [Ending] at h ⊢
  rcases h with h | ⟨h, hl⟩ | ⟨h, d, t, hp⟩
  · subst h; simp [step]
  · subst hl
    cases phase with
    | stopped => simp [step]
    | running =>
      rcases h with rfl | rfl | rfl <;> cases e with
      | peerEnd we => cases we <;> sess_simp
      | peerFrame ok => cases ok <;> sess_simp
      | ctlEnd we => cases we <;> sess_simp
      | linkOut => sess_simp
    | waitEnd d t =>
      rcases h with rfl | rfl | rfl <;> cases e with
      | peerEnd we => cases we <;> cases t <;> sess_simp
      | peerFrame ok => cases ok <;> cases d <;> sess_simp
      | ctlEnd we => sess_simp
      | linkOut => sess_simp
  · subst hp
    rcases h with rfl | rfl | rfl <;> cases e with
    | peerEnd we => cases we <;> cases t <;> sess_simp
    | peerFrame ok => cases ok <;> cases d <;> sess_simp
    | ctlEnd we => sess_simp
    | linkOut => sess_simp

set_option maxHeartbeats 2000000 in
/-- one event on a mapped session: at most one frame is written; if it is an end, the session is
    ending afterwards -/
theorem mapped_step (s : St) (e : Event) (hs : s.ss = .mapped) (hp : s.phase = .running) :
    (step s e).2.length ≤ 1 ∧ (∀ o ∈ (step s e).2, o.isEnd = true → Ending (step s e).1) ∧ Inv (step s e).1 := by
  obtain ⟨ss, phase, res, linksClosed⟩ := s
  simp only at hs hp
  subst hs hp
  simp only [Inv, Ending]
  cases e with
  | peerEnd we => cases we <;> sess_simp
  | peerFrame ok => cases ok <;> sess_simp
  | ctlEnd we => cases we <;> sess_simp
  | linkOut => cases linksClosed <;> sess_simp

/-- an end frame, if any, is the last thing written on the channel -/
def EndLast : List Out → Prop
  | [] => True
  | o :: os => (o.isEnd = true → os = []) ∧ EndLast os

theorem run_ending (evs : List Event) : ∀ (s : St), Ending s → (run s evs).2 = [] := by
  induction evs with
  | nil => intro s _; rfl
  | cons e es ih =>
    intro s h
    obtain ⟨a, b⟩ := ending_step s e h
    simp only [run, a, List.nil_append]
    exact ih _ b

/-- **C13, session: at most one end, nothing on the channel after it**, for every sequence of
    events (the peer's frames whether the session can act on them or not, the application's end
    with or without error, frames of its links) -/
theorem end_is_last (evs : List Event) : ∀ (s : St), Inv s → EndLast (run s evs).2 := by
  induction evs with
  | nil => intro s _; simp [run, EndLast]
  | cons e es ih =>
    intro s h
    simp only [run]
    rcases h with h | ⟨hs, hp⟩
    · obtain ⟨a, b⟩ := ending_step s e h
      rw [a, List.nil_append]
      exact ih _ (Or.inl b)
    · obtain ⟨a, b, c⟩ := mapped_step s e hs hp
      have ih1 := ih _ c
      generalize (step s e).2 = w at a b
      match w, a with
      | [], _ => simpa using ih1
      | [o], _ =>
        simp only [List.singleton_append, EndLast]
        exact ⟨fun hcl => run_ending es _ (b o (by simp) hcl), ih1⟩

theorem endLast_count : ∀ (os : List Out), EndLast os → (os.filter Out.isEnd).length ≤ 1 := by
  intro os
  induction os with
  | nil => intro _; simp
  | cons o os ih =>
    intro h
    obtain ⟨h1, h2⟩ := h
    by_cases hc : o.isEnd = true
    · rw [h1 hc]; simp [hc]
    · have := ih h2
      simp [hc]; exact this

theorem at_most_one_end (evs : List Event) (s : St) (h : Inv s) : ((run s evs).2.filter Out.isEnd).length ≤ 1 :=
  endLast_count _ (end_is_last evs s h)

/-- **a peer's end is always answered with an end** (without error), the engine stops, and the
    handle learns that — and why — the peer ended the session -/
theorem peer_end_answered (s : St) (we : Bool) (hs : s.ss = .mapped) (hp : s.phase = .running) :
    (step s (.peerEnd we)).2 = [.end_ false] ∧ (step s (.peerEnd we)).1.phase = .stopped ∧
    (step s (.peerEnd we)).1.res = some (if we then .remoteEndedWithError else .remoteEnded) := by
  obtain ⟨ss, phase, res, linksClosed⟩ := s
  simp only at hs hp
  subst hs hp
  cases we <;> sess_simp

/-- **local end returns only after the peer's answer**: after `end()` the engine keeps running
    (the handle's call is pending) through anything the peer still sends, and stops at the peer's
    end; the result is clean unless the peer's end carries an error, which is then what the
    caller gets -/
theorem local_end_waits_for_peer (oks : List Bool) (hok : ∀ b ∈ oks, b = true) (we : Bool) : ∀ (s : St),
    s.ss = .endSent → s.phase = .running → s.linksClosed = true →
    (∀ k, k ≤ oks.length → (run s ((oks.take k).map Event.peerFrame)).1.phase = .running) ∧
    (run s (oks.map Event.peerFrame ++ [.peerEnd we])).1.phase = .stopped ∧
    (run s (oks.map Event.peerFrame ++ [.peerEnd we])).1.res = (if we then some .remoteEndedWithError else s.res) ∧
    (run s (oks.map Event.peerFrame ++ [.peerEnd we])).2 = [] := by
  induction oks with
  | nil =>
    intro s hs hp hl
    obtain ⟨ss, phase, res, linksClosed⟩ := s
    simp only at hs hp hl
    subst hs hp hl
    refine ⟨fun k hk => by simp [run], ?_⟩
    cases we <;> simp [run, step, stepRunning, onIncomingEnd, onError, endSession, settle, overwrite, Err.res,
      Sess.on_incoming_end, Sess.end_session_arm]
  | cons b bs ih =>
    intro s hs hp hl
    have hb : b = true := hok b (by simp)
    subst hb
    have hstep : step s (.peerFrame true) = (s, []) := by
      obtain ⟨ss, phase, res, linksClosed⟩ := s
      simp only at hs hp
      subst hs hp
      simp [step, stepRunning]
    obtain ⟨i1, i2, i3, i4⟩ := ih (fun x hx => hok x (by simp [hx])) s hs hp hl
    refine ⟨?_, ?_, ?_, ?_⟩
    · intro k hk
      cases k with
      | zero => simp [run, hp]
      | succ k =>
        simp only [List.take_succ_cons, List.map_cons, run, hstep]
        exact i1 k (by simpa using hk)
    · simpa [run, hstep] using i2
    · simpa [run, hstep] using i3
    · simpa [run, hstep] using i4

/-- **after ending with an error the session discards until the peer's end.**  A frame the
    session cannot act on makes it end with an error; from then on whatever the peer sends —
    including further frames that would fail — is ignored, nothing is written, and the engine
    stops exactly when the peer's end arrives (never earlier: its channel stays mapped for
    that end, so the end cannot bring the connection down). -/
theorem error_end_waits_for_peer_end (fs : List Bool) (we : Bool) (s : St) (hs : s.ss = .mapped) (hp : s.phase = .running) :
    (step s (.peerFrame false)).2 = [.end_ true] ∧
    (∀ k, k ≤ fs.length → (run (step s (.peerFrame false)).1 ((fs.take k).map Event.peerFrame)).1.phase = .waitEnd true true) ∧
    (run (step s (.peerFrame false)).1 (fs.map Event.peerFrame ++ [.peerEnd we])).1.phase = .stopped ∧
    (run (step s (.peerFrame false)).1 (fs.map Event.peerFrame ++ [.peerEnd we])).2 = [] := by
  obtain ⟨ss, phase, res, linksClosed⟩ := s
  simp only at hs hp
  subst hs hp
  have h0 : step { ss := .mapped, phase := .running, res := res, linksClosed := linksClosed } (.peerFrame false) =
      ({ ss := .discarding, phase := .waitEnd true true, res := some .failed, linksClosed := linksClosed }, [.end_ true]) := by
    sess_simp
  rw [h0]
  refine ⟨rfl, ?_⟩
  generalize hq : ({ ss := SState.discarding, phase := Phase.waitEnd true true, res := some Res.failed, linksClosed := linksClosed } : St) = q
  have hq1 : q.ss = .discarding := by rw [← hq]
  have hq2 : q.phase = .waitEnd true true := by rw [← hq]
  clear hq h0
  induction fs generalizing q with
  | nil =>
    refine ⟨fun k hk => by simp [run, hq2], ?_, ?_⟩
    · obtain ⟨ss, phase, res, lc⟩ := q
      simp only at hq1 hq2; subst hq1 hq2
      cases we <;> simp [run, step, stepWait, overwrite, Sess.on_incoming_end]
    · obtain ⟨ss, phase, res, lc⟩ := q
      simp only at hq1 hq2; subst hq1 hq2
      cases we <;> simp [run, step, stepWait, overwrite, Sess.on_incoming_end]
  | cons b bs ih =>
    have hstep : step q (.peerFrame b) = (q, []) := by
      obtain ⟨ss, phase, res, lc⟩ := q
      simp only at hq1 hq2; subst hq1 hq2
      cases b <;> simp [step, stepWait]
    obtain ⟨i1, i2, i3⟩ := ih q hq1 hq2
    refine ⟨?_, ?_, ?_⟩
    · intro k hk
      cases k with
      | zero => simp [run, hq2]
      | succ k =>
        simp only [List.take_succ_cons, List.map_cons, run, hstep]
        exact i1 k (by simpa using hk)
    · simpa [run, hstep] using i2
    · simpa [run, hstep] using i3

-- non-vacuity
example : Inv mapped0 := Or.inr ⟨rfl, rfl⟩
example : (run mapped0 [.linkOut, .peerFrame true, .ctlEnd false, .linkOut, .peerFrame true, .peerEnd false]).2 = [.frame, .end_ false] := by
  decide +kernel

end Amqp.SessLife

/-! ## Part 2: the link's detach handshake -/

namespace Amqp.LinkLife
open Amqp.Gen.Fsm

/-- **answered in kind, once.**  When the peer has already detached (or closed) the link, the
    application's next `detach()` / `close()` writes exactly one detach, with the `closed` flag
    the peer used — closing with closing — and nothing else. -/
theorem peer_detach_answered_in_kind (req : Req) (p answer : PeerDetach) :
    (call req (some p) answer).sent = [p.closed] := by
  cases req <;> cases p with | mk c e => cases answer with | mk c2 e2 => cases c <;> cases e <;> cases c2 <;> cases e2 <;> decide

/-- **the peer's error is what the caller gets**, whether it came with an earlier detach of the
    peer or with its answer to ours (of the same kind) -/
theorem peer_error_reported (req : Req) (p answer : PeerDetach) (he : p.withError = true) :
    (call req (some p) answer).res = .remoteError := by
  cases req <;> cases p with | mk c e => cases c <;> simp_all [call, onIncomingDetach, Link.on_incoming_detach_closed, Link.on_incoming_detach_not_closed, Link.send_detach]

theorem answer_error_reported (req : Req) (answer : PeerDetach) (hk : answer.closed = decide (req = .close))
    (he : answer.withError = true) :
    (call req none answer).res = .remoteError := by
  cases req <;> cases answer with | mk c e => cases c <;> simp_all [call, onIncomingDetach, Link.on_incoming_detach_closed, Link.on_incoming_detach_not_closed, Link.send_detach]

/-- **one detach of the requested kind, and the handshake completes**: without an earlier
    detach from the peer the call writes exactly one detach of its own kind and, on the peer's
    answer in kind, ends in the final state of that kind with a clean result (or the peer's error) -/
theorem own_detach_completes (req : Req) (answer : PeerDetach) (hk : answer.closed = decide (req = .close)) :
    (call req none answer).sent = [decide (req = .close)] ∧
    (call req none answer).state = (if req = .close then .closed else .detached) ∧
    (call req none answer).res = (if answer.withError then .remoteError else .ok) := by
  cases req <;> cases answer with | mk c e => cases c <;> cases e <;> simp_all [call, onIncomingDetach, Link.on_incoming_detach_closed, Link.on_incoming_detach_not_closed, Link.send_detach]

/-- never two detaches for one attach in the modelled paths -/
theorem at_most_one_detach (req : Req) (pending : Option PeerDetach) (answer : PeerDetach) :
    (call req pending answer).sent.length ≤ 1 := by
  cases req <;> cases pending with
  | none => cases answer with | mk c e => cases c <;> cases e <;> decide
  | some p => cases p with | mk c e => cases answer with | mk c2 e2 => cases c <;> cases e <;> cases c2 <;> cases e2 <;> decide

end Amqp.LinkLife
