/-
  The typed layer (C03, C05, C20): what is proved about `Amqp.Typed` and about
  the declarations regenerated from `fe2o3-amqp-types` (`Amqp.Gen.Schemas`).

  The theorems are stated for *every* environment of schemas satisfying `EnvOk`
  (pairwise distinct names and codes, defaults of the declared type, …) and then
  instantiated with the environment elaborated from the source (`env_ok`), so
  they cover every composite declared there, with every combination of present
  and absent fields and every value of every field.
-/
import Theorems.Lemmas.Typed
import Theorems.C03

namespace Amqp.Typed
open Amqp.Codec Amqp.Gen.Codes

/-! ## the declarations of the source -/

/-- generated obligation: every list-encoded composite of the source elaborates — each field's
    declared type is one the model knows, `default` only on types with a known default and never
    on an `Option`, `multiple` only on an `Option` -/
theorem env_elaborates :
    (Amqp.Gen.Schemas.all.filter isListSchema).all (fun g => (elabSchema g).isSome) = true := by decide +kernel

/-- a decidable rendering of `EnvOk` -/
def simpleWF : Value → Bool
  | .bool _ => true
  | .fixed k bs => bs.length == k.width && k != .char
  | .var k bs => (k == .binary || validUtf8 bs) && bs.length < 4294967296
  | _ => false

theorem simpleWF_WF (v : Value) (h : simpleWF v = true) : WF v := by
  cases v <;> simp [simpleWF] at h <;> simp [WF]
  · rename_i k bs
    refine ⟨h.1, fun hk => ?_⟩
    exact absurd hk h.2
  · rename_i k bs
    refine ⟨fun hk => ?_, h.2⟩
    rcases h.1 with h1 | h1
    · exact absurd h1 hk
    · exact h1

def dfltOkB (f : Field) : Bool :=
  match f.kind, f.ty with
  | .dflt, .prim p => (match accepts p f.dflt with | some d => Value.beq d f.dflt | none => false) && simpleWF f.dflt
  | .dflt, .comp _ => false
  | _, _ => true

def pairwiseB : List Schema → Bool
  | [] => true
  | a :: rest => rest.all (fun b => a.name != b.name && a.code != b.code && nameBytes a.name != nameBytes b.name)
      && pairwiseB rest

def envOkB (env : List Schema) : Bool :=
  pairwiseB env &&
  env.all (fun s => decide (s.code < 18446744073709551616) && s.fields.all dfltOkB &&
    decide (s.fields.length ≤ MAX_ARRAY_COUNT) &&
    validUtf8 (nameBytes s.name) && decide ((nameBytes s.name).length < 4294967296))

theorem pairwiseB_sound : ∀ (env : List Schema), pairwiseB env = true →
    env.Pairwise (fun a b => a.name ≠ b.name ∧ a.code ≠ b.code ∧ nameBytes a.name ≠ nameBytes b.name)
  | [], _ => List.Pairwise.nil
  | a :: rest, h => by
    simp only [pairwiseB, Bool.and_eq_true, List.all_eq_true] at h
    refine List.Pairwise.cons (fun b hb => ?_) (pairwiseB_sound rest h.2)
    have := h.1 b hb
    simp only [Bool.and_eq_true, bne_iff_ne, ne_eq] at this
    exact ⟨this.1.1, this.1.2, this.2⟩

theorem envOk_of_B (env : List Schema) (h : envOkB env = true) : EnvOk env := by
  simp only [envOkB, Bool.and_eq_true, List.all_eq_true, decide_eq_true_eq] at h
  refine ⟨pairwiseB_sound env h.1, fun s hs => (h.2 s hs).1.1.1.1, ?_, fun s hs => (h.2 s hs).1.1.2,
    fun s hs => ⟨(h.2 s hs).1.2, (h.2 s hs).2⟩⟩
  intro s hs f hf hk
  have hd := (h.2 s hs).1.1.1.2 f hf
  unfold dfltOkB at hd
  rw [hk] at hd
  cases hty : f.ty with
  | comp names => simp [hty] at hd
  | prim p =>
    simp only [hty, Bool.and_eq_true] at hd
    refine ⟨p, rfl, ?_, simpleWF_WF _ hd.2⟩
    cases ha : accepts p f.dflt with
    | none => simp [ha] at hd
    | some d =>
      simp only [ha] at hd
      rw [beq_eq _ _ hd.1]

/-- generated obligation: the composites declared in the source have pairwise distinct descriptor
    names and codes (so a descriptor read off the wire designates one type), codes that fit a ulong,
    ASCII names, and defaults that are values of the field's own type -/
theorem env_okB : envOkB env = true := by decide +kernel

theorem env_ok : EnvOk env := envOk_of_B env env_okB

/-! ## the declarations against the specification (C05)

  The composite types of AMQP 1.0 parts 2–5 as the standard defines them, written here by hand
  from the standard: descriptor name and code, and per field its name, type, and whether it is
  mandatory, optional, has a default or may hold multiple values. -/

section Spec
open FKind
private def u32max : Value := .fixed .uint [255, 255, 255, 255]
private def u32zero : Value := .fixed .uint [0, 0, 0, 0]
private def F : Value := .bool false
private abbrev P (p : Prim) : FTy := .prim p

/-- (wire name, type, kind, default) -/
abbrev SpecField := String × FTy × FKind × Value

def req (n : String) (t : FTy) : SpecField := (n, t, required, .null)
def opt (n : String) (t : FTy) : SpecField := (n, t, optional, .null)
def mul (n : String) : SpecField := (n, P .symbols, multiple, .null)
def dft (n : String) (t : FTy) (d : Value) : SpecField := (n, t, dflt, d)

private def errorT : FTy := .comp ["amqp:error:list"]
private def terminusFields : List SpecField := [
  opt "address" (P .string), dft "durable" (P (.uintBelow 3)) u32zero,
  dft "expiry-policy" (P .symbol) (.var .symbol (nameBytes "session-end")),
  dft "timeout" (P .uint) u32zero, dft "dynamic" (P .bool) F,
  opt "dynamic-node-properties" (P .map)]

def spec : List (String × Nat × List SpecField) := [
  ("amqp:open:list", 0x10, [req "container-id" (P .string), opt "hostname" (P .string),
    dft "max-frame-size" (P .uint) u32max, dft "channel-max" (P .ushort) (.fixed .ushort [255, 255]),
    opt "idle-time-out" (P .uint), mul "outgoing-locales", mul "incoming-locales",
    mul "offered-capabilities", mul "desired-capabilities", opt "properties" (P .map)]),
  ("amqp:begin:list", 0x11, [opt "remote-channel" (P .ushort), req "next-outgoing-id" (P .uint),
    req "incoming-window" (P .uint), req "outgoing-window" (P .uint), dft "handle-max" (P .uint) u32max,
    mul "offered-capabilities", mul "desired-capabilities", opt "properties" (P .map)]),
  ("amqp:attach:list", 0x12, [req "name" (P .string), req "handle" (P .uint), req "role" (P .bool),
    dft "snd-settle-mode" (P (.ubyteBelow 3)) (.fixed .ubyte [2]),
    dft "rcv-settle-mode" (P (.ubyteBelow 2)) (.fixed .ubyte [0]),
    opt "source" (.comp ["amqp:source:list"]), opt "target" (.comp ["amqp:target:list", "amqp:coordinator:list"]),
    opt "unsettled" (P .map), dft "incomplete-unsettled" (P .bool) F, opt "initial-delivery-count" (P .uint),
    opt "max-message-size" (P .ulong), mul "offered-capabilities", mul "desired-capabilities",
    opt "properties" (P .map)]),
  ("amqp:flow:list", 0x13, [opt "next-incoming-id" (P .uint), req "incoming-window" (P .uint),
    req "next-outgoing-id" (P .uint), req "outgoing-window" (P .uint), opt "handle" (P .uint),
    opt "delivery-count" (P .uint), opt "link-credit" (P .uint), opt "available" (P .uint),
    dft "drain" (P .bool) F, dft "echo" (P .bool) F, opt "properties" (P .map)]),
  ("amqp:transfer:list", 0x14, [req "handle" (P .uint), opt "delivery-id" (P .uint), opt "delivery-tag" (P .binary),
    opt "message-format" (P .uint), opt "settled" (P .bool), dft "more" (P .bool) F,
    opt "rcv-settle-mode" (P (.ubyteBelow 2)), opt "state" (.comp deliveryStates), dft "resume" (P .bool) F,
    dft "aborted" (P .bool) F, dft "batchable" (P .bool) F]),
  ("amqp:disposition:list", 0x15, [req "role" (P .bool), req "first" (P .uint), opt "last" (P .uint),
    dft "settled" (P .bool) F, opt "state" (.comp deliveryStates), dft "batchable" (P .bool) F]),
  ("amqp:detach:list", 0x16, [req "handle" (P .uint), dft "closed" (P .bool) F, opt "error" errorT]),
  ("amqp:end:list", 0x17, [opt "error" errorT]),
  ("amqp:close:list", 0x18, [opt "error" errorT]),
  ("amqp:error:list", 0x1d, [req "condition" (P .symbol), opt "description" (P .string), opt "info" (P .map)]),
  ("amqp:received:list", 0x23, [req "section-number" (P .uint), req "section-offset" (P .ulong)]),
  ("amqp:accepted:list", 0x24, []),
  ("amqp:rejected:list", 0x25, [opt "error" errorT]),
  ("amqp:released:list", 0x26, []),
  ("amqp:modified:list", 0x27, [opt "delivery-failed" (P .bool), opt "undeliverable-here" (P .bool),
    opt "message-annotations" (P .map)]),
  ("amqp:source:list", 0x28, terminusFields ++ [opt "distribution-mode" (P .symbol), opt "filter" (P .map),
    opt "default-outcome" (.comp outcomes), mul "outcomes", mul "capabilities"]),
  ("amqp:target:list", 0x29, terminusFields ++ [mul "capabilities"]),
  ("amqp:delete-on-close:list", 0x2b, []),
  ("amqp:delete-on-no-links:list", 0x2c, []),
  ("amqp:delete-on-no-messages:list", 0x2d, []),
  ("amqp:delete-on-no-links-or-messages:list", 0x2e, []),
  ("amqp:coordinator:list", 0x30, [mul "capabilities"]),
  ("amqp:declare:list", 0x31, [opt "global-id" (P .binary)]),
  ("amqp:discharge:list", 0x32, [req "txn-id" (P .binary), opt "fail" (P .bool)]),
  ("amqp:declared:list", 0x33, [req "txn-id" (P .binary)]),
  ("amqp:transactional-state:list", 0x34, [req "txn-id" (P .binary), opt "outcome" (.comp outcomes)]),
  ("amqp:sasl-init:list", 0x41, [req "mechanism" (P .symbol), opt "initial-response" (P .binary),
    opt "hostname" (P .string)]),
  ("amqp:sasl-challenge:list", 0x42, [req "challenge" (P .binary)]),
  ("amqp:sasl-response:list", 0x43, [req "response" (P .binary)]),
  ("amqp:sasl-outcome:list", 0x44, [req "code" (P (.ubyteBelow 5)), opt "additional-data" (P .binary)]),
  ("amqp:header:list", 0x70, [dft "durable" (P .bool) F, dft "priority" (P .ubyte) (.fixed .ubyte [4]),
    opt "ttl" (P .uint), dft "first-acquirer" (P .bool) F, dft "delivery-count" (P .uint) u32zero]),
  ("amqp:properties:list", 0x73, [opt "message-id" (P .msgid), opt "user-id" (P .binary), opt "to" (P .string),
    opt "subject" (P .string), opt "reply-to" (P .string), opt "correlation-id" (P .msgid),
    opt "content-type" (P .symbol), opt "content-encoding" (P .symbol), opt "absolute-expiry-time" (P .timestamp),
    opt "creation-time" (P .timestamp), opt "group-id" (P .string), opt "group-sequence" (P .uint),
    opt "reply-to-group-id" (P .string)])]
end Spec

def viewField (f : Field) : SpecField := (f.wire, f.ty, f.kind, f.dflt)
def viewSchema (s : Schema) : String × Nat × List SpecField := (s.name, s.code, s.fields.map viewField)

set_option synthInstance.maxSize 2048 in
/-- **schemas_match_spec.** generated obligation: the composites the source declares — descriptor
    names, descriptor codes, field names in their order, field types, mandatory / optional / default
    (with the default's value) / multiple — are exactly those of the standard.  A field reordered,
    renamed, retyped, given or stripped of a default, a wrong code or name breaks this. -/
theorem schemas_match_spec : env.map viewSchema = spec := by decide +kernel

/-! ## encoding (C03, C05, C20) -/

/-- **typed_encoding_is_tree_encoding.** What the generated `serialize` writes for a typed value —
    with its null-buffering field loop — is the encoding of the value tree: descriptor by code,
    then the list of the fields with default-valued fields as null and the trailing nulls left out.
    (C20: going through the untyped tree and going straight to bytes agree.) -/
theorem typed_encoding_is_tree_encoding (env : List Schema) (ty : FTy) (tv : TV) (h : TVOk env ty tv) :
    encodeTyped env tv = encode (toTree env tv) :=
  encTV_eq env tv ty h

/-- **typed_roundtrip (C03).** For every typed value of every declared composite — any
    combination of present and absent fields, any field values, composites nested in composites —
    the bytes written, followed by anything, decode as that type to exactly the value, leaving
    exactly what followed. -/
theorem typed_roundtrip (env : List Schema) (hE : EnvOk env) (ty : FTy) (tv : TV) (h : TVOk env ty tv)
    (hn : nest (toTree env tv) ≤ MAX_NESTING_DEPTH) (e tail : Bytes) (he : encodeTyped env tv = some e) :
    decodeTyped env ty (e ++ tail) = .ok (tv, tail) := by
  rw [typed_encoding_is_tree_encoding env ty tv h] at he
  have hw : WF (toTree env tv) := by rw [toTree_eq]; exact WF_toTreeV env hE tv ty _ h
  have hd := value_roundtrip (toTree env tv) hw hn e tail he
  have hf : fromTree env ty (toTree env tv) = some tv := by
    rw [toTree_eq]; exact fromTree_toTreeV env hE tv ty _ h
  unfold decodeTyped
  rw [hd]
  simp only [readTyped, hf]

/-- the same for the composites of the source -/
theorem typed_roundtrip_source (ty : FTy) (tv : TV) (h : TVOk env ty tv)
    (hn : nest (toTree env tv) ≤ MAX_NESTING_DEPTH) (e tail : Bytes) (he : encodeTyped env tv = some e) :
    decodeTyped env ty (e ++ tail) = .ok (tv, tail) :=
  typed_roundtrip env env_ok ty tv h hn e tail he

/-- **typed_tree_variants_read_back (C05).** Whatever a peer chooses at the composite level — the
    descriptor by name or by code, all, some or none of the trailing nulls, a default written out
    or left null, a single symbol for a one-element `multiple` field, independently at every
    nested composite — the value tree is read as exactly the typed value. -/
theorem typed_tree_variants_read_back (env : List Schema) (hE : EnvOk env) (ty : FTy) (tv : TV) (ch : TCh)
    (h : TVOk env ty tv) : fromTree env ty (toTreeV env ch tv) = some tv :=
  fromTree_toTreeV env hE tv ty ch h

/-- **typed_via_tree (C20).** The bytes of a typed value decode, as an untyped value, to its value
    tree (`from_slice::<Value>(to_vec(x)) = to_value(x)`), and reading that tree as the type gives the
    value back (`from_value(to_value(x)) = x`). -/
theorem typed_via_tree (env : List Schema) (hE : EnvOk env) (ty : FTy) (tv : TV) (h : TVOk env ty tv)
    (hn : nest (toTree env tv) ≤ MAX_NESTING_DEPTH) (e : Bytes) (he : encodeTyped env tv = some e) :
    decode e = .ok (toTree env tv, []) ∧ fromTree env ty (toTree env tv) = some tv := by
  rw [typed_encoding_is_tree_encoding env ty tv h] at he
  have hw : WF (toTree env tv) := by rw [toTree_eq]; exact WF_toTreeV env hE tv ty _ h
  refine ⟨decode_encode (toTree env tv) hw hn e he, ?_⟩
  rw [toTree_eq, fromTree_toTreeV env hE tv ty _ h]

/-- **typed_size_eq_length (C20).** The size computed for a typed value is the length of its encoding. -/
theorem typed_size_eq_length (env : List Schema) (hE : EnvOk env) (ty : FTy) (tv : TV) (h : TVOk env ty tv) :
    sizeTyped env tv = (encodeTyped env tv).map List.length := by
  rw [typed_encoding_is_tree_encoding env ty tv h]
  have hw : WF (toTree env tv) := by rw [toTree_eq]; exact WF_toTreeV env hE tv ty _ h
  exact size_enc .none (toTree env tv) (WF_Widths _ hw)

/-! ## non-vacuity: a transfer carrying a rejected state with an error meets the hypotheses -/

def sampleTransfer : TV :=
  .comp "amqp:transfer:list" [
    .leaf (.fixed .uint [0, 0, 0, 1]), .leaf (.fixed .uint [0, 0, 1, 0]), .leaf (.var .binary [1, 2, 3]),
    .absent, .leaf (.bool false), .leaf (.bool true), .absent,
    .comp "amqp:rejected:list" [
      .comp "amqp:error:list" [.leaf (.var .symbol (nameBytes "amqp:internal-error")),
        .leaf (.var .string [120]), .absent]],
    .leaf (.bool false), .leaf (.bool false), .leaf (.bool false)]

def sampleTy : FTy := .comp ["amqp:transfer:list"]

theorem sample_ok : TVOk env sampleTy sampleTransfer :=
  tvOkB_sound env sampleTransfer sampleTy (by decide +kernel)

example : nest (toTree env sampleTransfer) ≤ MAX_NESTING_DEPTH := by decide +kernel

/-- the bytes: described list, descriptor 0x14, eight fields (the three trailing defaults left out) -/
example : encodeTyped env sampleTransfer =
    some [0x00, 0x53, 0x14, 0xc0, 0x35, 0x08, 0x52, 0x01, 0x70, 0x00, 0x00, 0x01, 0x00, 0xa0, 0x03, 0x01, 0x02, 0x03,
      0x40, 0x42, 0x41, 0x40, 0x00, 0x53, 0x25, 0xc0, 0x1f, 0x01, 0x00, 0x53, 0x1d, 0xc0, 0x19, 0x02,
      0xa3, 0x13, 0x61, 0x6d, 0x71, 0x70, 0x3a, 0x69, 0x6e, 0x74, 0x65, 0x72, 0x6e, 0x61, 0x6c, 0x2d,
      0x65, 0x72, 0x72, 0x6f, 0x72, 0xa1, 0x01, 0x78] := by decide +kernel

end Amqp.Typed
