/-
  C07 — Session flow control: never overrun the peer's incoming window;
  nothing lost; counters exact.

  Every theorem quantifies over *all* histories `ops` (any length), all initial
  next-outgoing-ids (including those within a window of the 2^32 wrap) and all
  flow contents.  The arithmetic and the branch conditions of the model come
  from `/repo` (`Amqp.Gen.Session`, regenerated on every run).
-/
import Theorems.Lemmas.Session
import Theorems.Lemmas.SessionSplit
import Theorems.TxnRoute

namespace Amqp.Session
open Amqp Amqp.Gen.Session

/-- A history after the peer's begin: in-range wire values, no second begin. -/
def History.WF (ops : List Op) : Prop := ∀ op ∈ ops, op.WF

/-- `Safe s w ops`: running `ops` from `s`, every transfer frame emitted carries
    a transfer-id inside the window the peer last advertised (`w` initially,
    replaced by each incoming flow). -/
def Safe : St → Win → List Op → Prop
  | _, _, [] => True
  | s, w, op :: ops =>
      (∀ t ∈ transferIds (step s op).2, inWindow (winAfter s w op).base (winAfter s w op).len t) ∧
      Safe (step s op).1 (winAfter s w op) ops

/-- the endpoint just after it has sent its begin and processed the peer's -/
def started (noi iw ow bnoi biw bow : Nat) : St := onIncomingBegin (init noi iw ow) bnoi biw bow

theorem started_inv (noi iw ow bnoi biw bow : Nat) (h1 : noi < 4294967296) (h2 : biw < 4294967296) :
    SInv (started noi iw ow bnoi biw bow) ⟨noi, biw⟩ := by
  refine ⟨h1, h1, h1, h2, ?_⟩
  right
  simp only [started, onIncomingBegin, init, on_incoming_begin.assign_remote_incoming_window_0]
  have := sdist_self noi h1
  omega

theorem safe_of_inv (ops : List Op) : ∀ (s : St) (w : Win), SInv s w → History.WF ops → Safe s w ops := by
  induction ops with
  | nil => intro _ _ _ _; trivial
  | cons op ops ih =>
    intro s w h hwf
    obtain ⟨hi, hall⟩ := step_inv s w op h (hwf op (by simp))
    exact ⟨hall, ih _ _ hi (fun o ho => hwf o (by simp [ho]))⟩

/-- **window_safe.** No transfer frame is ever sent with a transfer-id outside
    `[next-incoming-id, next-incoming-id + incoming-window)` of the peer's last
    begin/flow, in serial-number arithmetic — for every history, every initial
    next-outgoing-id and every (even stale, shrinking, unset-next-incoming-id) flow. -/
theorem window_safe (noi iw ow bnoi biw bow : Nat) (ops : List Op)
    (h1 : noi < 4294967296) (h2 : biw < 4294967296) (hops : History.WF ops) :
    Safe (started noi iw ow bnoi biw bow) ⟨noi, biw⟩ ops :=
  safe_of_inv ops _ _ (started_inv noi iw ow bnoi biw bow h1 h2) hops

/-- **fifo.** Whatever was handed to the session is, in order and without loss or
    duplication, either already sent or still held: sent ++ held = held₀ ++ requested. -/
theorem fifo (ops : List Op) : ∀ s : St,
    uids (run s ops).2 ++ bufUids (run s ops).1 = bufUids s ++ ops.flatMap reqOf := by
  induction ops with
  | nil => intro s; simp [run, uids]
  | cons op ops ih =>
    intro s
    have h1 := step_fifo s op
    have h2 := ih (step s op).1
    show uids ((step s op).2 ++ (run (step s op).1 ops).2) ++ bufUids (run (step s op).1 ops).1 = _
    rw [uids_append, List.append_assoc, h2, ← List.append_assoc, h1]
    simp [List.flatMap_cons]

/-- **buffer_implies_closed.** Frames are held back only while the endpoint's view
    of the peer's window is zero — after every operation of every history. -/
theorem buffer_implies_closed (ops : List Op) : ∀ s : St, Closed s → History.WF ops →
    Closed (run s ops).1 := by
  induction ops with
  | nil => intro s h _; exact h
  | cons op ops ih =>
    intro s h hwf
    exact ih _ (step_closed s op h (hwf op (by simp))) (fun o ho => hwf o (by simp [ho]))

/-- **drains.** A flow releases exactly as many held frames as the recomputed
    window allows: `min window held`. -/
theorem drains (s : St) (f : InFlow) :
    (transferIds (step s (.inFlow f)).2).length = Nat.min (applyFlow s f).riw s.buf.length := by
  simp only [step, onIncomingFlow]
  split
  · rw [transferIds_append, transferIds_echoOut, List.nil_append, drainBuf_count]
    simp [applyFlow]
  · rename_i hc
    rw [transferIds_echoOut]
    simp [on_incoming_flow.cond_if_0] at hc
    by_cases hz : (applyFlow s f).riw = 0
    · simp [hz]
    · have hb := hc (by omega)
      have : s.buf = [] := by simpa [applyFlow] using hb
      simp [this]

/-- what the recomputed window is: the advertised window minus the frames the
    peer had not yet seen when it sent the flow (serial distance), floored at 0 -/
theorem window_formula (s : St) (f : InFlow) :
    (applyFlow s f).riw = f.iw - sdist (f.nif.getD s.initOid) s.noi := by
  cases hn : f.nif <;>
    simp [applyFlow, hn, on_incoming_flow_inner.assign_remote_incoming_window_0,
      on_incoming_flow_inner.assign_remote_incoming_window_1, ssub32, sdist]

/-- **counters_exact (outgoing).** Read in order, the emitted sequence numbers its
    transfer frames consecutively from next-outgoing-id (mod 2^32; the first frame
    of a delivery carries that number as its delivery-id) and every flow frame
    reports the id of the next transfer frame; the endpoint's counter ends up
    advanced by exactly one per transfer frame emitted. -/
theorem counters_exact_out (ops : List Op) : ∀ s : St,
    NoiOk s.noi (run s ops).2 ∧ (run s ops).1.noi = advNoi s.noi (run s ops).2 := by
  induction ops with
  | nil => intro s; simp [run, NoiOk, advNoi]
  | cons op ops ih =>
    intro s
    obtain ⟨a1, a2⟩ := step_noi s op
    obtain ⟨b1, b2⟩ := ih (step s op).1
    show NoiOk s.noi ((step s op).2 ++ (run (step s op).1 ops).2) ∧
      (run (step s op).1 ops).1.noi = advNoi s.noi ((step s op).2 ++ (run (step s op).1 ops).2)
    rw [a2] at b1 b2
    exact ⟨NoiOk_append _ _ _ a1 b1, by rw [advNoi_append]; exact b2⟩

/-- **counters_exact (incoming).** next-incoming-id is the peer's last stated
    next-outgoing-id advanced once per transfer frame received since, and every
    flow frame the endpoint emits reports exactly that value. -/
theorem counters_exact_in (s : St) (op : Op) :
    (step s op).1.nii = niiSpec s.nii op ∧ ∀ n ∈ flowNiis (step s op).2, n = niiSpec s.nii op :=
  step_nii s op

/-! ### non-vacuity: the hypotheses are met by concrete, non-trivial histories -/

/-- a history that crosses 2^32 with a held-back frame and a stale flow -/
def sampleOps : List Op :=
  [.outXfer ⟨1, true, none⟩, .outXfer ⟨2, false, none⟩, .outXfer ⟨3, true, some true⟩,
   .inFlow ⟨some 4294967295, 3, 7, 100, false⟩, .inXfer, .outXfer ⟨4, true, none⟩]

example : History.WF sampleOps := by
  intro op hop
  simp only [sampleOps, List.mem_cons, List.mem_nil_iff, or_false] at hop
  rcases hop with h | h | h | h | h | h <;> subst h <;> simp [Op.WF]

example : (run (started 4294967294 5 5 7 2 100) sampleOps).2.length = 4 := by decide
example : transferIds (run (started 4294967294 5 5 7 2 100) sampleOps).2
    = [4294967294, 4294967295, 0, 1] := by decide

end Amqp.Session

/-! ## one transfer-id per frame on the wire

`next-outgoing-id advances once per frame sent`: the session numbers what the engine hands
it (`counters_exact_out`), so what has to be shown is that each transfer the engine hands
over after `split_transfer` leaves the encoder as exactly one frame. -/

namespace Amqp.Frame
open Amqp.Gen.FrameK

/-- nothing is lost or reordered by the cut -/
theorem session_cut_payload (B : Nat) (l : SLens) (payload : Bytes) :
    piecesPayload (sessionSplit B l payload) = payload := by
  by_cases h1 : split_transfer.cond_if_1 B payload.length l.whole = true
  · simp [sessionSplit, h1, piecesPayload]
  · by_cases h2 : split_transfer.cond_if_2 l.first B l.rest = true
    · simp [sessionSplit, h1, h2, piecesPayload]
    · have hc : IsCut B l payload := ⟨by simpa using h1, by simpa using h2⟩
      rw [sessionSplit_cut B l payload hc]
      have hr : l.rest < B := by
        simp [split_transfer.cond_if_2] at h2; omega
      have hm := (sMiddle_spec B l.rest hr payload.length
        (payload.drop (Nat.min (B - l.first) payload.length)) (by simp [List.length_drop])).2.2
      have e : ∀ (cs : List Bytes), ((cs.map (fun c => (SKind.cont, c))).map (·.2)) = cs := by
        intro cs; induction cs with
        | nil => rfl
        | cons c cs ih => simp [ih]
      simp only [piecesPayload, List.map_cons, List.map_append, List.map_nil, List.flatten_cons,
        List.flatten_append, List.flatten_nil, List.append_nil, e]
      rw [List.append_assoc, hm, List.take_append_drop]

/-- every piece, together with the performative it was measured with, fits one frame body -/
theorem session_cut_fits (B : Nat) (l : SLens) (payload : Bytes)
    (hsz : l.whole + payload.length < 18446744073709551616)
    (hfb : split_transfer.cond_if_1 B payload.length l.whole = true ∨ IsCut B l payload) :
    ∀ kc ∈ sessionSplit B l payload, l.of kc.1 + kc.2.length ≤ B := by
  rcases hfb with h1 | hc
  · intro kc hk
    simp [sessionSplit, h1] at hk
    subst hk
    have h1' : (if l.whole + payload.length ≥ 18446744073709551616 then 18446744073709551615
        else l.whole + payload.length) ≤ B := by simpa [split_transfer.cond_if_1, sadd64] using h1
    simp only [SLens.of]
    split at h1' <;> omega
  · rw [sessionSplit_cut B l payload hc]
    obtain ⟨_, h2⟩ := hc
    have hf : l.first < B ∧ l.rest < B := by
      simp [split_transfer.cond_if_2] at h2; omega
    obtain ⟨m1, m2, _⟩ := sMiddle_spec B l.rest hf.2 payload.length
      (payload.drop (Nat.min (B - l.first) payload.length)) (by simp [List.length_drop])
    intro kc hk
    rw [List.mem_append, List.mem_cons, List.mem_map, List.mem_singleton] at hk
    rcases hk with (hk | ⟨c, hc, hk⟩) | hk
    · subst hk
      simp only [SLens.of, List.length_take]
      have : Nat.min (B - l.first) payload.length ≤ B - l.first := Nat.min_le_left _ _
      omega
    · subst hk
      have := m1 c hc
      simp only [SLens.of]; omega
    · subst hk
      simp only [SLens.of]; omega

/-- the encoder does not cut a transfer that fits (`FrameEncoder::encode_transfer`) -/
theorem encoder_keeps_piece (B : Nat) (p : Perfs) (c : Bytes) (h : p.p0.length + c.length ≤ B) :
    split B p c = [(p.p0, c)] := by
  apply split_single
  simp [encode_transfer.cond_if_0]; omega

/-- **one frame per session transfer**: whatever performative encodings the session's
    transfers end up with, as long as none is longer than what `split_transfer` measured
    (the delivery-id the session fills in is at most as wide as the one measured), the
    encoder writes exactly one frame for each of them: the number of frames on the wire
    equals the number of transfer-ids the session consumed. -/
theorem one_frame_per_session_transfer (B : Nat) (l : SLens) (payload : Bytes)
    (hsz : l.whole + payload.length < 18446744073709551616)
    (hfb : split_transfer.cond_if_1 B payload.length l.whole = true ∨ IsCut B l payload)
    (perfOf : SKind × Bytes → Perfs)
    (hlen : ∀ kc ∈ sessionSplit B l payload, (perfOf kc).p0.length ≤ l.of kc.1) :
    (sessionSplit B l payload).flatMap (fun kc => split B (perfOf kc) kc.2) =
      (sessionSplit B l payload).map (fun kc => ((perfOf kc).p0, kc.2)) := by
  have hfit := session_cut_fits B l payload hsz hfb
  generalize sessionSplit B l payload = ps at *
  induction ps with
  | nil => rfl
  | cons kc ps ih =>
    have h1 := hfit kc (by simp)
    have h2 := hlen kc (by simp)
    rw [List.flatMap_cons, List.map_cons, encoder_keeps_piece B (perfOf kc) kc.2 (by omega)]
    rw [ih (fun k hk => hlen k (by simp [hk])) (fun k hk => hfit k (by simp [hk]))]
    rfl

/-- when the cut happens at least two transfers result and the first is marked `more` -/
theorem session_cut_count (B : Nat) (l : SLens) (payload : Bytes) (hc : IsCut B l payload) :
    2 ≤ (sessionSplit B l payload).length := by
  rw [sessionSplit_cut B l payload hc]; simp

-- non-vacuity: a 1000-byte payload, 512-byte frame body, performatives of 30/31/12 bytes
example : IsCut 512 ⟨30, 31, 12⟩ (List.replicate 1000 0) := by
  constructor <;> decide +kernel
example : (sessionSplit 512 ⟨30, 31, 12⟩ (List.replicate 1000 0)).map (fun kc => kc.2.length) = [481, 500, 19] := by
  decide +kernel

end Amqp.Frame
