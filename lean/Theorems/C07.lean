/-
  C07 — Session flow control: never overrun the peer's incoming window;
  nothing lost; counters exact.

  Every theorem quantifies over *all* histories `ops` (any length), all initial
  next-outgoing-ids (including those within a window of the 2^32 wrap) and all
  flow contents.  The arithmetic and the branch conditions of the model come
  from `/repo` (`Amqp.Gen.Session`, regenerated on every run).
-/
import Theorems.Lemmas.Session

namespace Amqp.Session
open Amqp Amqp.Gen.Session

/-- A history after the peer's begin: in-range wire values, no second begin. -/
def History.WF (ops : List Op) : Prop := ∀ op ∈ ops, op.WF

/-- `Safe s w ops`: running `ops` from `s`, every transfer frame emitted carries
    a transfer-id inside the window the peer last advertised (`w` initially,
    replaced by each incoming flow). -/
def Safe : St → Win → List Op → Prop
  | _, _, [] => True
  | s, w, op :: ops =>
      (∀ t ∈ transferIds (step s op).2, inWindow (winAfter s w op).base (winAfter s w op).len t) ∧
      Safe (step s op).1 (winAfter s w op) ops

/-- the endpoint just after it has sent its begin and processed the peer's -/
def started (noi iw ow bnoi biw bow : Nat) : St := onIncomingBegin (init noi iw ow) bnoi biw bow

theorem started_inv (noi iw ow bnoi biw bow : Nat) (h1 : noi < 4294967296) (h2 : biw < 4294967296) :
    SInv (started noi iw ow bnoi biw bow) ⟨noi, biw⟩ := by
  refine ⟨h1, h1, h1, h2, ?_⟩
  right
  simp only [started, onIncomingBegin, init, on_incoming_begin.assign_remote_incoming_window_0]
  have := sdist_self noi h1
  omega

theorem safe_of_inv (ops : List Op) : ∀ (s : St) (w : Win), SInv s w → History.WF ops → Safe s w ops := by
  induction ops with
  | nil => intro _ _ _ _; trivial
  | cons op ops ih =>
    intro s w h hwf
    obtain ⟨hi, hall⟩ := step_inv s w op h (hwf op (by simp))
    exact ⟨hall, ih _ _ hi (fun o ho => hwf o (by simp [ho]))⟩

/-- **window_safe.** No transfer frame is ever sent with a transfer-id outside
    `[next-incoming-id, next-incoming-id + incoming-window)` of the peer's last
    begin/flow, in serial-number arithmetic — for every history, every initial
    next-outgoing-id and every (even stale, shrinking, unset-next-incoming-id) flow. -/
theorem window_safe (noi iw ow bnoi biw bow : Nat) (ops : List Op)
    (h1 : noi < 4294967296) (h2 : biw < 4294967296) (hops : History.WF ops) :
    Safe (started noi iw ow bnoi biw bow) ⟨noi, biw⟩ ops :=
  safe_of_inv ops _ _ (started_inv noi iw ow bnoi biw bow h1 h2) hops

/-- **fifo.** Whatever was handed to the session is, in order and without loss or
    duplication, either already sent or still held: sent ++ held = held₀ ++ requested. -/
theorem fifo (ops : List Op) : ∀ s : St,
    uids (run s ops).2 ++ bufUids (run s ops).1 = bufUids s ++ ops.flatMap reqOf := by
  induction ops with
  | nil => intro s; simp [run, uids]
  | cons op ops ih =>
    intro s
    have h1 := step_fifo s op
    have h2 := ih (step s op).1
    show uids ((step s op).2 ++ (run (step s op).1 ops).2) ++ bufUids (run (step s op).1 ops).1 = _
    rw [uids_append, List.append_assoc, h2, ← List.append_assoc, h1]
    simp [List.flatMap_cons]

/-- **buffer_implies_closed.** Frames are held back only while the endpoint's view
    of the peer's window is zero — after every operation of every history. -/
theorem buffer_implies_closed (ops : List Op) : ∀ s : St, Closed s → History.WF ops →
    Closed (run s ops).1 := by
  induction ops with
  | nil => intro s h _; exact h
  | cons op ops ih =>
    intro s h hwf
    exact ih _ (step_closed s op h (hwf op (by simp))) (fun o ho => hwf o (by simp [ho]))

/-- **drains.** A flow releases exactly as many held frames as the recomputed
    window allows: `min window held`. -/
theorem drains (s : St) (f : InFlow) :
    (transferIds (step s (.inFlow f)).2).length = Nat.min (applyFlow s f).riw s.buf.length := by
  simp only [step, onIncomingFlow]
  split
  · rw [transferIds_append, transferIds_echoOut, List.nil_append, drainBuf_count]
    simp [applyFlow]
  · rename_i hc
    rw [transferIds_echoOut]
    simp [on_incoming_flow.cond_if_0] at hc
    by_cases hz : (applyFlow s f).riw = 0
    · simp [hz]
    · have hb := hc (by omega)
      have : s.buf = [] := by simpa [applyFlow] using hb
      simp [this]

/-- what the recomputed window is: the advertised window minus the frames the
    peer had not yet seen when it sent the flow (serial distance), floored at 0 -/
theorem window_formula (s : St) (f : InFlow) :
    (applyFlow s f).riw = f.iw - sdist (f.nif.getD s.initOid) s.noi := by
  cases hn : f.nif <;>
    simp [applyFlow, hn, on_incoming_flow_inner.assign_remote_incoming_window_0,
      on_incoming_flow_inner.assign_remote_incoming_window_1, ssub32, sdist]

/-- **counters_exact (outgoing).** Read in order, the emitted sequence numbers its
    transfer frames consecutively from next-outgoing-id (mod 2^32; the first frame
    of a delivery carries that number as its delivery-id) and every flow frame
    reports the id of the next transfer frame; the endpoint's counter ends up
    advanced by exactly one per transfer frame emitted. -/
theorem counters_exact_out (ops : List Op) : ∀ s : St,
    NoiOk s.noi (run s ops).2 ∧ (run s ops).1.noi = advNoi s.noi (run s ops).2 := by
  induction ops with
  | nil => intro s; simp [run, NoiOk, advNoi]
  | cons op ops ih =>
    intro s
    obtain ⟨a1, a2⟩ := step_noi s op
    obtain ⟨b1, b2⟩ := ih (step s op).1
    show NoiOk s.noi ((step s op).2 ++ (run (step s op).1 ops).2) ∧
      (run (step s op).1 ops).1.noi = advNoi s.noi ((step s op).2 ++ (run (step s op).1 ops).2)
    rw [a2] at b1 b2
    exact ⟨NoiOk_append _ _ _ a1 b1, by rw [advNoi_append]; exact b2⟩

/-- **counters_exact (incoming).** next-incoming-id is the peer's last stated
    next-outgoing-id advanced once per transfer frame received since, and every
    flow frame the endpoint emits reports exactly that value. -/
theorem counters_exact_in (s : St) (op : Op) :
    (step s op).1.nii = niiSpec s.nii op ∧ ∀ n ∈ flowNiis (step s op).2, n = niiSpec s.nii op :=
  step_nii s op

/-! ### non-vacuity: the hypotheses are met by concrete, non-trivial histories -/

/-- a history that crosses 2^32 with a held-back frame and a stale flow -/
def sampleOps : List Op :=
  [.outXfer ⟨1, true, none⟩, .outXfer ⟨2, false, none⟩, .outXfer ⟨3, true, some true⟩,
   .inFlow ⟨some 4294967295, 3, 7, 100, false⟩, .inXfer, .outXfer ⟨4, true, none⟩]

example : History.WF sampleOps := by
  intro op hop
  simp only [sampleOps, List.mem_cons, List.mem_nil_iff, or_false] at hop
  rcases hop with h | h | h | h | h | h <;> subst h <;> simp [Op.WF]

example : (run (started 4294967294 5 5 7 2 100) sampleOps).2.length = 4 := by decide
example : transferIds (run (started 4294967294 5 5 7 2 100) sampleOps).2
    = [4294967294, 4294967295, 0, 1] := by decide

end Amqp.Session
