/-
  C06 — every frame written for a transfer decodes to the performative written and exactly its piece
  of the payload; every other frame to its performative; the frame without a body to a heartbeat.
-/
import Amqp.FrameBody
import Theorems.Typed
import Theorems.C05

namespace Amqp.FrameBody
open Amqp.Codec Amqp.Typed Amqp.Frame
open Amqp.Gen.FrameHeader

theorem source_payload_of_transfer_only : payloadOfTransferOnly = true := by decide

theorem u8_toNat_ofNat (n : Nat) : (UInt8.ofNat n).toNat = n % 256 := by
  simp [UInt8.toNat_ofNat']

/-- the header step on a frame that begins with `write_header(channel)` -/
theorem header_step (ch : Nat) (hch : ch < 65536) (body : List UInt8) :
    Amqp.FrameHeader.decodeAmqp ((header ch ++ body).map UInt8.toNat) =
      .header ch (body.map UInt8.toNat) := by
  have h1 : (UInt8.ofNat (ch / 256 % 256)).toNat = ch / 256 := by
    rw [u8_toNat_ofNat]; omega
  have h2 : (UInt8.ofNat (ch % 256)).toNat = ch % 256 := by
    rw [u8_toNat_ofNat]; omega
  simp only [header, List.cons_append, List.nil_append, List.map_cons, Amqp.FrameHeader.decodeAmqp,
    Amqp.FrameHeader.readHeader, List.length_cons, amqp_decode.cond_if_0, amqp_decode.cond_if_1, FRAME_TYPE_AMQP,
    h1, h2]
  have : ch / 256 * 256 + ch % 256 = ch := by omega
  simp [this]

/-- the encoding of a composite is not empty -/
theorem enc_comp_ne_nil (env : List Schema) (n : String) (fs : List TV) (e : List UInt8)
    (he : encodeTyped env (.comp n fs) = some e) : e ≠ [] := by
  unfold encodeTyped at he
  unfold encTV at he
  split at he
  · cases he
  · split at he
    · cases he
    · split at he
      · cases he
      · injection he with he; subst he; simp

/-- **transfer_frame_decodes (C06).** Whatever the transfer performative holds and whatever piece of
    the payload follows it — empty, one byte, bytes that look like a performative themselves — the frame
    `write_header(channel) ++ performative ++ piece` decodes to that channel, exactly that
    performative and exactly that piece: the payload is what follows the performative, nothing of it
    is read as part of the performative and nothing of the performative is left in it. -/
theorem transfer_frame_decodes (ch : Nat) (hch : ch < 65536) (fs : List TV) (e piece : List UInt8)
    (hok : TVOk env perfTy (.comp transferName fs))
    (hn : nest (toTree env (.comp transferName fs)) ≤ Amqp.Gen.Codes.MAX_NESTING_DEPTH)
    (he : encodeTyped env (.comp transferName fs) = some e) :
    decodeFrame env (header ch ++ (e ++ piece)) = .frame ch (.transfer (.comp transferName fs) piece) := by
  have hne := enc_comp_ne_nil env transferName fs e he
  unfold decodeFrame decodeFrameWith
  rw [header_step ch hch, source_payload_of_transfer_only]
  have hd : (header ch ++ (e ++ piece)).drop 4 = e ++ piece := by simp [header]
  simp only [hd]
  have hemp : (e ++ piece).isEmpty = false := by
    cases e with
    | nil => exact absurd rfl hne
    | cons _ _ => rfl
  simp only [hemp, amqp_decode.cond_if_2, Bool.false_eq_true, if_false]
  rw [typed_roundtrip_source perfTy _ hok hn e piece he]
  simp [isTransfer]

theorem decodeTyped_nil (ty : FTy) : ∃ err, decodeTyped env ty [] = .error err := by
  unfold decodeTyped
  have h : (match decode [] with | .ok _ => false | .error _ => true) = true := by decide +kernel
  cases hd : decode [] with
  | ok x => rw [hd] at h; cases h
  | error err => exact ⟨err, rfl⟩

/-- **transfer_frame_decodes_any_encoding (C06 / C20).** The same when the performative is written as a
    peer may write it — descriptor by name or code, trailing nulls kept or not, defaults written out, any
    width variant at every node (`typed_variants_accepted`): the payload is still exactly what follows the
    performative.  (A decoder that found the payload by re-encoding the performative and skipping that many
    bytes — a seeded change — is wrong for every such encoding whose length differs from ours.) -/
theorem transfer_frame_decodes_any_encoding (ch : Nat) (hch : ch < 65536) (fs : List TV) (tch : TCh)
    (bch : Amqp.CodecSpec.Ch) (e piece : List UInt8)
    (hok : TVOk env perfTy (.comp transferName fs))
    (hn : nest (toTreeV env tch (.comp transferName fs)) ≤ Amqp.Gen.Codes.MAX_NESTING_DEPTH)
    (he : Amqp.CodecSpec.sEnc bch (toTreeV env tch (.comp transferName fs)) = some e) :
    decodeFrame env (header ch ++ (e ++ piece)) = .frame ch (.transfer (.comp transferName fs) piece) := by
  have hdec := typed_variants_accepted_source perfTy _ tch hok hn bch e piece he
  unfold decodeFrame decodeFrameWith
  rw [header_step ch hch, source_payload_of_transfer_only]
  have hd : (header ch ++ (e ++ piece)).drop 4 = e ++ piece := by simp [header]
  simp only [hd]
  have hemp : (e ++ piece).isEmpty = false := by
    cases hl : e ++ piece with
    | nil =>
      rw [hl] at hdec
      obtain ⟨err, herr⟩ := decodeTyped_nil perfTy
      rw [herr] at hdec
      cases hdec
    | cons _ _ => rfl
  simp only [hemp, amqp_decode.cond_if_2, Bool.false_eq_true, if_false]
  rw [hdec]
  simp [isTransfer]

/-- **other_frame_decodes (C06).** A frame that carries any other performative decodes to that
    channel and exactly that performative. -/
theorem other_frame_decodes (ch : Nat) (hch : ch < 65536) (n : String) (hn' : (n == transferName) = false)
    (fs : List TV) (e : List UInt8)
    (hok : TVOk env perfTy (.comp n fs))
    (hn : nest (toTree env (.comp n fs)) ≤ Amqp.Gen.Codes.MAX_NESTING_DEPTH)
    (he : encodeTyped env (.comp n fs) = some e) :
    decodeFrame env (header ch ++ e) = .frame ch (.other (.comp n fs)) := by
  have hne := enc_comp_ne_nil env n fs e he
  unfold decodeFrame decodeFrameWith
  rw [header_step ch hch]
  have hd : (header ch ++ e).drop 4 = e := by simp [header]
  simp only [hd]
  have hemp : e.isEmpty = false := by
    cases e with
    | nil => exact absurd rfl hne
    | cons _ _ => rfl
  simp only [hemp, amqp_decode.cond_if_2, Bool.false_eq_true, if_false]
  have := typed_roundtrip_source perfTy _ hok hn e [] he
  rw [List.append_nil] at this
  rw [this]
  simp [isTransfer, hn']

/-- **heartbeat_decodes (C06 / C17).** The frame of eight octets — header only — is the empty frame. -/
theorem heartbeat_decodes (ch : Nat) (hch : ch < 65536) :
    decodeFrame env (header ch) = .frame ch .empty := by
  have := header_step ch hch []
  rw [List.append_nil] at this
  unfold decodeFrame decodeFrameWith
  rw [this]
  simp [header, amqp_decode.cond_if_2]

/-- non-vacuity: the sample transfer of `Theorems/Typed.lean` (a rejected state with an error inside) is a
    performative the theorems speak about -/
example : TVOk env perfTy sampleTransfer := tvOkB_sound env sampleTransfer perfTy (by decide +kernel)

def payloadOf : Out → Option (List UInt8)
  | .frame _ (.transfer _ p) => some p
  | _ => none

/-- a decoder whose transfer arm did not keep what follows the performative would lose the payload -/
example : payloadOf (decodeFrameWith false env (header 1 ++ ([0x00, 0x53, 0x14, 0xc0, 0x03, 0x01, 0x43] ++ [1, 2, 3]))) = some [] := by
  decide +kernel
example : payloadOf (decodeFrame env (header 1 ++ ([0x00, 0x53, 0x14, 0xc0, 0x03, 0x01, 0x43] ++ [1, 2, 3]))) = some [1, 2, 3] := by
  decide +kernel

end Amqp.FrameBody
