/-
  C10 — rewinding a delivery under way keeps exactly the bytes before the point.
-/
import Amqp.KeepTill

namespace Amqp.KeepTill

theorem source_keep_shape : keepShape = true := by decide

/-- once the chunk with the position has been cut, nothing of the later chunks is kept -/
theorem keepLoop_found (cs : List Bytes) (index : Nat) : (keepLoop cs index true).flatten = [] := by
  induction cs with
  | nil => simp [keepLoop]
  | cons c cs ih => simp [keepLoop, source_keep_shape, ih]

/-- **keep_is_take (C10).** However the bytes received so far are spread over chunks (one per frame, empty
    chunks among them), what the rewind keeps is their first `index` bytes and nothing else. -/
theorem keep_is_take : ∀ (buf : List Bytes) (index : Nat),
    (keepLoop buf index false).flatten = buf.flatten.take index
  | [], index => by simp [keepLoop]
  | c :: cs, index => by
    by_cases h : c.length < index
    · have ih := keep_is_take cs (index - c.length)
      simp only [keepLoop, Bool.false_eq_true, if_false, h, if_true, List.flatten_cons, ih, List.take_append]
      rw [List.take_of_length_le (Nat.le_of_lt h)]
    · have hle : index ≤ c.length := Nat.le_of_not_lt h
      simp only [keepLoop, Bool.false_eq_true, if_false, h, List.flatten_cons, keepLoop_found, List.append_nil,
        List.take_append]
      have : index - c.length = 0 := by omega
      simp [this]

/-- the number of chunks stays (each frame's chunk is cut or emptied in place) -/
theorem keep_length : ∀ (buf : List Bytes) (index : Nat) (found : Bool),
    (keepLoop buf index found).length = buf.length
  | [], _, _ => by simp [keepLoop]
  | c :: cs, index, found => by
    cases found
    · by_cases h : c.length < index <;> simp [keepLoop, h, keep_length cs]
    · simp [keepLoop, keep_length cs]

/-- **rewind_then_resend (C10).** A sender that rewinds to a point the counting finds (`index`) and sends the
    message again from there: what the receiver then holds is the message, whatever the cuts were before and
    whatever they are now. -/
theorem rewind_then_resend (msg : Bytes) (buf : List Bytes) (index : Nat) (resent : List Bytes)
    (hb : ∃ rest, buf.flatten ++ rest = msg) (hi : index ≤ buf.flatten.length)
    (hr : resent.flatten = msg.drop index) :
    (keepLoop buf index false ++ resent).flatten = msg := by
  obtain ⟨rest, hm⟩ := hb
  rw [List.flatten_append, keep_is_take, hr, ← hm]
  have h1 : List.take index buf.flatten = List.take index (buf.flatten ++ rest) :=
    (List.take_append_of_le_length hi).symm
  rw [h1]
  exact List.take_append_drop index (buf.flatten ++ rest)

/-- what the loop did before the fix (every later chunk cut at the same index): bytes beyond the point stay -/
example : (keepLoopOld [[1, 2, 3, 4], [5, 6, 7, 8]] 2).flatten = [1, 2, 5, 6] ∧
    (keepLoop [[1, 2, 3, 4], [5, 6, 7, 8]] 2 false).flatten = [1, 2] := by decide

/-- the position is found where the counting says: in a message that opens with a section header, section 1
    offset k is byte k -/
example : position [[0x00, 0x53, 0x77, 0xa0], [0x02, 1, 2, 9, 9]] 1 3 = some 3 := by decide

end Amqp.KeepTill
