/-
  C20 — All codec entry points agree.
-/
import Theorems.C03
import Theorems.Typed
import Theorems.Lazy
import Theorems.IoRead
import Theorems.Chunks
import Theorems.FrameBody

namespace Amqp.Codec
open Amqp.Gen.Codes

/-- **size_eq_length.** The size reported without encoding equals the length of
    the encoding — for *every* value whose scalars have the width of their kind
    (no other well-formedness needed), in every array-element context; both
    fail together on over-long inputs. -/
theorem size_eq_length (ctx : Ctx) (v : Value) (hw : Widths v) :
    size ctx v = (enc ctx v).map List.length :=
  size_enc ctx v hw

/-- **tail_untouched.** Whatever follows an encoded value (e.g. a transfer's
    payload after its performative) is left exactly as it was. -/
theorem tail_untouched (v : Value) (hw : WF v) (hn : nest v ≤ MAX_NESTING_DEPTH) (e tail : Bytes)
    (he : encode v = some e) : ∃ v', decode (e ++ tail) = .ok (v', tail) :=
  ⟨v, value_roundtrip v hw hn e tail he⟩

example : size .none sample = (enc .none sample).map List.length := by decide

end Amqp.Codec
