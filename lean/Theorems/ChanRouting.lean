/-
  C11 — routing by channel: every incoming session frame reaches the session that the peer's channel
  designates; the channel a session is given is below the agreed channel-max and held by no other.
-/
import Amqp.ChanRouting
import Theorems.Routing
import Theorems.C17

namespace Amqp.ChanRouting
open Amqp.Handles Amqp.Routing

def abs (t : CTab) : Desig := fun ch => get ch t.byIn

def FrameOk (d : Desig) : Op → Out → Prop
  | .inFrame ch, o => o = (match d ch with | some s => .to s | none => .notFound)
  | .inEnd ch, o => o = (match d ch with | some s => .to s | none => .notFound)
  | _, _ => True

def Faithful : Desig → List Op → List Out → Prop
  | _, [], [] => True
  | d, op :: ops, o :: os => FrameOk d op o ∧ Faithful (desigStep d op o) ops os
  | _, _, _ => False

theorem step_frameOk (bound : Nat) (t : CTab) (op : Op) : FrameOk (abs t) op (step bound t op).2 := by
  cases op with
  | inFrame ch => simp only [FrameOk, step, abs]; cases get ch t.byIn <;> rfl
  | inEnd ch => simp only [FrameOk, step, abs]; cases get ch t.byIn <;> rfl
  | _ => trivial

theorem step_refines (bound : Nat) (t : CTab) (op : Op) :
    abs (step bound t op).1 = desigStep (abs t) op (step bound t op).2 := by
  cases op with
  | alloc =>
    simp only [step]
    split <;> rfl
  | inBegin ch remote =>
    cases remote with
    | none => rfl
    | some oc =>
      simp only [step]
      cases hg : get oc t.bySlot with
      | none => rfl
      | some s =>
        funext x
        simp only [abs, desigStep, Desig.set]
        by_cases hx : x = ch
        · subst hx; simp [get_put_same]
        · simp [hx, get_put_other _ _ _ _ hx]
  | inFrame ch => simp only [step]; cases get ch t.byIn <;> rfl
  | inEnd ch =>
    simp only [step]
    cases hg : get ch t.byIn with
    | none => rfl
    | some s =>
      funext x
      simp only [abs, desigStep, Desig.clear]
      by_cases hx : x = ch
      · subst hx; simp [get_del_same]
      · simp [hx, get_del_other _ _ _ hx]
  | dealloc oc => rfl

/-- **frames_reach_the_session_of_their_channel (C11).** For every history of local begins and ends and
    of frames of a peer that numbers its channels as it likes (sparse, large, reused after its end):
    a session frame is handed to the session whose begin the peer sent on that channel — the latest
    one, if the peer has not ended it since — and is refused when the channel designates none. -/
theorem frames_reach_the_session_of_their_channel (bound : Nat) (ops : List Op) :
    ∀ (t : CTab), Faithful (abs t) ops (run bound t ops).2 := by
  induction ops with
  | nil => intro t; trivial
  | cons op ops ih =>
    intro t
    simp only [run, Faithful]
    refine ⟨step_frameOk bound t op, ?_⟩
    rw [← step_refines]
    exact ih _

/-! ## the slots of the slab and the relays stored in them -/

/-- `bySlot` holds exactly the live keys of the slab, each once, with endpoint numbers that are
    pairwise different and below `next` -/
structure Inv (t : CTab) : Prop where
  slab : SlabInv t.slab
  keys : ∀ k, (get k t.bySlot).isSome ↔ k ∈ t.slab.live.map (·.1)
  sids : ∀ k1 k2 s, get k1 t.bySlot = some s → get k2 t.bySlot = some s → k1 = k2
  below : ∀ k s, get k t.bySlot = some s → s < t.next

theorem empty_inv : Inv CTab.empty :=
  ⟨Amqp.Handles.empty_inv, by simp [CTab.empty, Routing.get, Slab.empty], by simp [CTab.empty, Routing.get],
   by simp [CTab.empty, Routing.get]⟩

theorem insert_live (s : Slab) (v : String) :
    (s.insert v).1.live.map (·.1) = s.vacantKey :: s.live.map (·.1) := by
  unfold Slab.insert Slab.vacantKey
  cases s.free <;> simp

theorem map_filter_fst (k : Nat) : ∀ (l : List (Nat × String)),
    (l.filter (·.1 != k)).map (·.1) = (l.map (·.1)).filter (· != k)
  | [] => rfl
  | (a, b) :: l => by
    have ih := map_filter_fst k l
    by_cases ha : a = k
    · have hne : (a != k) = false := by simpa using ha
      simp only [List.filter, List.map, hne, ih]
    · have hne : (a != k) = true := by simpa using ha
      simp only [List.filter, List.map, hne, ih]

theorem remove_live (s : Slab) (k : Nat) :
    ((s.remove k).1.live.map (·.1)) = (s.live.map (·.1)).filter (· != k) := by
  unfold Slab.remove
  cases hf : s.live.find? (·.1 == k) with
  | none =>
    simp only
    have hall : ∀ p ∈ s.live, ¬ (p.1 == k) = true := by
      intro p hp
      have := List.find?_eq_none.mp hf p hp
      simpa using this
    symm
    rw [List.filter_eq_self]
    intro x hx
    obtain ⟨p, hp, rfl⟩ := List.mem_map.mp hx
    have := hall p hp
    simpa using this
  | some p =>
    obtain ⟨a, b⟩ := p
    exact map_filter_fst k s.live

theorem step_inv (bound : Nat) (t : CTab) (op : Op) (h : Inv t) : Inv (step bound t op).1 := by
  obtain ⟨h1, h2, h3, h4⟩ := h
  cases op with
  | alloc =>
    simp only [step]
    split
    · exact ⟨h1, h2, h3, h4⟩
    · have hfresh := insert_fresh t.slab "" h1
      have hvk : (t.slab.insert "").2 = t.slab.vacantKey := by
        unfold Slab.insert Slab.vacantKey; cases t.slab.free <;> rfl
      refine ⟨hfresh.2, ?_, ?_, ?_⟩
      · intro k
        simp only [insert_live, List.mem_cons]
        by_cases hk : k = t.slab.vacantKey
        · subst hk; simp [get_put_same]
        · rw [get_put_other _ _ _ _ hk, h2 k]
          simp [hk]
      · intro k1 k2 s g1 g2
        simp only at g1 g2
        by_cases e1 : k1 = t.slab.vacantKey <;> by_cases e2 : k2 = t.slab.vacantKey
        · rw [e1, e2]
        · rw [e1, get_put_same] at g1
          rw [get_put_other _ _ _ _ e2] at g2
          have := h4 k2 s g2
          cases g1; exact absurd this (Nat.lt_irrefl _)
        · rw [e2, get_put_same] at g2
          rw [get_put_other _ _ _ _ e1] at g1
          have := h4 k1 s g1
          cases g2; exact absurd this (Nat.lt_irrefl _)
        · rw [get_put_other _ _ _ _ e1] at g1
          rw [get_put_other _ _ _ _ e2] at g2
          exact h3 k1 k2 s g1 g2
      · intro k s g
        simp only at g
        by_cases e : k = t.slab.vacantKey
        · rw [e, get_put_same] at g; cases g; exact Nat.lt_succ_self _
        · rw [get_put_other _ _ _ _ e] at g
          exact Nat.lt_succ_of_lt (h4 k s g)
  | inBegin ch remote =>
    cases remote with
    | none => exact ⟨h1, h2, h3, h4⟩
    | some oc =>
      simp only [step]
      cases get oc t.bySlot <;> exact ⟨h1, h2, h3, h4⟩
  | inFrame ch => simp only [step]; cases get ch t.byIn <;> exact ⟨h1, h2, h3, h4⟩
  | inEnd ch => simp only [step]; cases get ch t.byIn <;> exact ⟨h1, h2, h3, h4⟩
  | dealloc oc =>
    simp only [step]
    refine ⟨remove_inv t.slab oc h1, ?_, ?_, ?_⟩
    · intro k
      rw [remove_live]
      by_cases hk : k = oc
      · subst hk; simp [get_del_same]
      · rw [get_del_other _ _ _ hk, h2 k]
        simp [List.mem_filter, hk]
    · intro k1 k2 s g1 g2
      simp only at g1 g2
      by_cases e1 : k1 = oc
      · rw [e1, get_del_same] at g1; cases g1
      · by_cases e2 : k2 = oc
        · rw [e2, get_del_same] at g2; cases g2
        · rw [get_del_other _ _ _ e1] at g1
          rw [get_del_other _ _ _ e2] at g2
          exact h3 k1 k2 s g1 g2
    · intro k s g
      simp only at g
      by_cases e : k = oc
      · rw [e, get_del_same] at g; cases g
      · rw [get_del_other _ _ _ e] at g
        exact h4 k s g

theorem run_inv (bound : Nat) (ops : List Op) : ∀ (t : CTab), Inv t → Inv (run bound t ops).1 := by
  induction ops with
  | nil => intro t h; exact h
  | cons op ops ih => intro t h; simp only [run]; exact ih _ (step_inv bound t op h)

/-- **one_channel_per_session (C11).** After any history, two different outgoing channels never belong
    to the same session, and the relay found under a channel is that of a live slot of the slab: a
    begin answered with `remote-channel = c` reaches the one session that holds channel `c` now —
    not a session that held it before. -/
theorem one_channel_per_session (bound : Nat) (ops : List Op) (k1 k2 s : Nat)
    (g1 : get k1 (run bound CTab.empty ops).1.bySlot = some s)
    (g2 : get k2 (run bound CTab.empty ops).1.bySlot = some s) : k1 = k2 :=
  (run_inv bound ops CTab.empty empty_inv).sids k1 k2 s g1 g2

/-- generated obligation: the table operations the model mirrors are present in connection/mod.rs, in
    the model's order -/
theorem source_channel_shape : sourceShape = true := by decide

/-! ## non-vacuity -/

/-- three sessions on peer channels 7, 0, 65535; the first is ended by both sides and its outgoing
    channel 0 goes to a fourth session, whose begin the peer answers on channel 7 again -/
example : (run 10 CTab.empty [.alloc, .alloc, .alloc, .inBegin 7 (some 0), .inBegin 0 (some 1), .inBegin 65535 (some 2),
    .inFrame 0, .inFrame 7, .inEnd 7, .dealloc 0, .inFrame 7, .alloc, .inBegin 7 (some 0), .inFrame 7,
    .inBegin 9 (some 5), .inBegin 9 none]).2 =
    [.allocated 0 0, .allocated 1 1, .allocated 2 2, .to 0, .to 1, .to 2, .to 1, .to 0, .to 0, .done, .notFound,
     .allocated 3 0, .to 3, .to 3, .notFound, .remotelyInitiated] := by decide

end Amqp.ChanRouting
