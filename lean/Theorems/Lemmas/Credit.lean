import Amqp.Credit
import Theorems.Lemmas.U32

namespace Amqp.Credit
open Amqp Amqp.Gen.Credit

/-- the delivery limit the receiver last stated: deliveries `[base, base+len)` -/
structure Lim where
  base : Nat
  len : Nat

def limAfter (s : SSt) (l : Lim) : Op → Lim
  | .flow f => match f.credit with
    | some c => ⟨f.dc.getD s.initDc, c⟩
    | none => l
  | .send => l

def Op.WF : Op → Prop
  | .flow f => (∀ n, f.dc = some n → n < 4294967296) ∧ (∀ c, f.credit = some c → c < 4294967296)
  | .send => True

structure CInv (s : SSt) (l : Lim) : Prop where
  dc_lt : s.dc < 4294967296
  init_lt : s.initDc < 4294967296
  base_lt : l.base < 4294967296
  len_lt : l.len < 4294967296
  fits : s.lc = 0 ∨ sdist l.base s.dc + s.lc ≤ l.len

def sentTags : List Out → List Nat
  | [] => []
  | .sent t :: os => t :: sentTags os
  | _ :: os => sentTags os

theorem sentTags_append (a b : List Out) : sentTags (a ++ b) = sentTags a ++ sentTags b := by
  induction a with
  | nil => rfl
  | cons o os ih => cases o <;> simp [sentTags, ih]

theorem step_send_blocked (s : SSt) (hc : consume_link_credit.cond_if_0 1 s.lc = true) :
    step s .send = (s, [.blocked]) := by
  simp [step, consume, hc]

theorem step_send_ok (s : SSt) (hc : ¬ consume_link_credit.cond_if_0 1 s.lc = true) :
    step s .send = ({ s with dc := consume_link_credit.assign_delivery_count_0 1 s.dc
                             lc := consume_link_credit.assign_link_credit_0 1 s.lc }, [.sent s.dc]) := by
  simp [step, consume, hc]

theorem grant_fields (s : SSt) (f : LFlow) :
    (grant s f).dc = s.dc ∧ (grant s f).initDc = s.initDc ∧ (grant s f).drain = s.drain := by
  unfold grant; split <;> simp

theorem grant_fits (s : SSt) (l : Lim) (f : LFlow) (h : CInv s l) (hwf : (Op.flow f).WF) :
    ((grant s f).lc = 0 ∨
        sdist (limAfter s l (.flow f)).base s.dc + (grant s f).lc ≤ (limAfter s l (.flow f)).len) ∧
      (limAfter s l (.flow f)).base < 4294967296 ∧ (limAfter s l (.flow f)).len < 4294967296 := by
  obtain ⟨h1, h2, h3, h4, h5⟩ := h
  obtain ⟨hdc, hcr⟩ := hwf
  cases hcq : f.credit with
  | none => simpa [grant, limAfter, hcq] using ⟨h5, h3, h4⟩
  | some c =>
    have hc' := hcr c hcq
    have hb : f.dc.getD s.initDc < 4294967296 := by
      cases hd : f.dc with
      | none => simpa using h2
      | some n => simpa using hdc n hd
    refine ⟨?_, by simpa [limAfter, hcq] using hb, by simpa [limAfter, hcq] using hc'⟩
    simp only [grant, limAfter, hcq, sender_on_incoming_flow.assign_link_credit_0, ssub32, sdist]
    omega

theorem step_flow (s : SSt) (f : LFlow) :
    (step s (.flow f)).1 = (onFlow s f).1 ∧ sentTags (step s (.flow f)).2 = [] := by
  simp only [step]
  cases h : onFlow s f with
  | mk s' e => cases e <;> simp [sentTags]

theorem step_inv (s : SSt) (l : Lim) (op : Op) (h : CInv s l) (hwf : op.WF) :
    CInv (step s op).1 (limAfter s l op) ∧
      ∀ t ∈ sentTags (step s op).2, inWindow (limAfter s l op).base (limAfter s l op).len t := by
  cases op with
  | send =>
    obtain ⟨h1, h2, h3, h4, h5⟩ := h
    simp only [limAfter]
    by_cases hc : consume_link_credit.cond_if_0 1 s.lc = true
    · rw [step_send_blocked s hc]
      exact ⟨⟨h1, h2, h3, h4, h5⟩, by simp [sentTags]⟩
    · rw [step_send_ok s hc]
      have hpos : 1 ≤ s.lc := by
        simp [consume_link_credit.cond_if_0] at hc; omega
      have hfit : sdist l.base s.dc + s.lc ≤ l.len := by omega
      refine ⟨⟨?_, h2, h3, h4, ?_⟩, ?_⟩
      · exact wadd32_lt _ _
      · simp only [consume_link_credit.assign_delivery_count_0,
          consume_link_credit.assign_link_credit_0, ssub32]
        have := sdist_succ l.base s.dc h3 h1 (by omega)
        omega
      · intro t ht
        simp [sentTags] at ht
        subst ht
        unfold inWindow; omega
  | flow f =>
    obtain ⟨hfit, hb, hl⟩ := grant_fits s l f h hwf
    obtain ⟨h1, h2, h3, h4, h5⟩ := h
    obtain ⟨g1, g2, g3⟩ := grant_fields s f
    obtain ⟨e1, e2⟩ := step_flow s f
    rw [e1, e2]
    refine ⟨?_, by simp⟩
    simp only [onFlow]
    split
    · exact ⟨wadd32_lt _ _, by simpa [drained, g2] using h2, hb, hl, Or.inl rfl⟩
    · exact ⟨by simpa [g1] using h1, by simpa [g2] using h2, hb, hl, by simpa [g1] using hfit⟩

/-! ### wait protocol -/

/-- invariant of the wait protocol when the `Notified` future is created before the check -/
def NInv (s : NSt) : Prop :=
  match s.pc with
  | .start => True
  | .snapped n => n ≤ s.calls
  | .failed => False
  | .parked n => n ≤ s.calls ∧ (s.need ≤ s.credit → s.calls > n ∨ s.pending = true)
  | .done => True

theorem nStep_inv (s : NSt) (a : Act) (h : NInv s) : NInv (nStep true s a) := by
  cases a with
  | cStep =>
    unfold nStep cStep
    cases hp : s.pc with
    | start => simp [NInv]
    | snapped n =>
      have hn : n ≤ s.calls := by simpa [NInv, hp] using h
      by_cases hc : s.credit ≥ s.need
      · simp [hc, NInv]
      · simp [hc, NInv, hn]
    | failed => simp [NInv, hp] at h
    | parked n =>
      by_cases hc : s.calls > n
      · simp [hc, NInv]
      · simpa [hc, NInv, hp] using h
    | done => simpa [NInv, hp] using h
  | pUpdate c =>
    unfold nStep
    by_cases hpd : s.pending = true
    · simpa [hpd] using h
    · simp only [hpd]
      cases hp : s.pc with
      | start => simp [NInv, hp]
      | snapped n => simpa [NInv, hp] using h
      | failed => simp [NInv, hp] at h
      | parked n =>
        have := h
        simp only [NInv, hp] at this ⊢
        exact ⟨this.1, fun _ => Or.inr rfl⟩
      | done => simp [NInv, hp]
  | pNotify =>
    unfold nStep
    by_cases hpd : s.pending = true
    · simp only [hpd, if_true]
      cases hp : s.pc with
      | start => simp [NInv, hp]
      | snapped n =>
        have : n ≤ s.calls := by simpa [NInv, hp] using h
        simp only [NInv, hp]; omega
      | failed => simp [NInv, hp] at h
      | parked n =>
        have := h
        simp only [NInv, hp] at this ⊢
        exact ⟨by omega, fun _ => Or.inl (by omega)⟩
      | done => simp [NInv, hp]
    · simpa [hpd] using h

theorem nRun_inv (as : List Act) : ∀ s, NInv s → NInv (nRun true s as) := by
  induction as with
  | nil => intro s h; exact h
  | cons a as ih => intro s h; exact ih _ (nStep_inv s a h)

end Amqp.Credit
