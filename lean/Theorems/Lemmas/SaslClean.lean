/-
  The SASL loops written out by hand, and the proof that the models — which take their decisions
  from the tables generated out of the source (`Amqp.Gen.Sasl`) — are these functions.  The
  property theorems are proved on the hand-written form; a change of a table breaks the
  equalities here.
-/
import Amqp.Sasl

namespace Amqp.Sasl
open Amqp.Frame (Bytes)
open Amqp.Gen.Sasl (FrameKind OnCode listener_on_code listener_on_frame client_on_code client_on_frame)
open Amqp.Gen.SaslK

/-! ## what the generated tables say -/

theorem listener_proceeds_iff (c : Code) : listener_on_code c = .proceeds ↔ c = .ok := by
  cases c <;> simp [listener_on_code]

theorem client_proceeds_iff (c : Code) : client_on_code c = .proceeds ↔ c = .ok := by
  cases c <;> simp [client_on_code]

theorem credentials_compared (user pass authcid passwd : Bytes) :
    validate_credential.cond_if_0 authcid passwd pass user = true ↔ user = authcid ∧ pass = passwd := by
  simp [validate_credential.cond_if_0]

theorem listenAsk_init {σ : Type} (acc : Acceptor σ) (s : σ) (m : Bytes) (r : Option Bytes) :
    listenAsk acc s (.init m r) = some (acc.onInit s m r) := by
  simp [listenAsk, ClientFrame.kind, listener_on_frame]

theorem listenAsk_response {σ : Type} (acc : Acceptor σ) (s : σ) (r : Bytes) :
    listenAsk acc s (.response r) = some (acc.onResponse s r) := by
  simp [listenAsk, ClientFrame.kind, listener_on_frame]

theorem listenAsk_other {σ : Type} (acc : Acceptor σ) (s : σ) (k : FrameKind) :
    listenAsk acc s (.other k) = none := by
  cases k <;> simp [listenAsk]

/-! ## the listener's loop, written out -/

def listenLoop' {σ : Type} (acc : Acceptor σ) : σ → List In → List ServerFrame × Verdict
  | _, [] => ([], .failedIo)
  | _, .eof :: _ => ([], .failedIo)
  | _, .bad :: _ => ([], .failedIo)
  | _, .frame (.other _) :: _ => ([.outcome .sys none], .failedCode .sys)
  | s, .frame (.init m r) :: rest =>
    match acc.onInit s m r with
    | (s', .challenge c) => let (out, v) := listenLoop' acc s' rest; (.challenge c :: out, v)
    | (_, .outcome .ok x) => ([.outcome .ok x], .passed)
    | (_, .outcome code x) => ([.outcome code x], .failedCode code)
  | s, .frame (.response r) :: rest =>
    match acc.onResponse s r with
    | (s', .challenge c) => let (out, v) := listenLoop' acc s' rest; (.challenge c :: out, v)
    | (_, .outcome .ok x) => ([.outcome .ok x], .passed)
    | (_, .outcome code x) => ([.outcome code x], .failedCode code)

theorem listenLoop_eq {σ : Type} (acc : Acceptor σ) : ∀ (ins : List In) (s : σ), listenLoop acc s ins = listenLoop' acc s ins := by
  intro ins
  induction ins with
  | nil => intro s; rfl
  | cons i rest ih =>
    intro s
    cases i with
    | eof => rfl
    | bad => rfl
    | frame f =>
      cases f with
      | other k => simp [listenLoop, listenLoop', listenAsk_other]
      | init m r =>
        simp only [listenLoop, listenLoop', listenAsk_init]
        rcases acc.onInit s m r with ⟨s', fr⟩
        cases fr with
        | challenge c => simp only [ih s']
        | outcome code x => cases code <;> simp [listener_on_code]
      | response r =>
        simp only [listenLoop, listenLoop', listenAsk_response]
        rcases acc.onResponse s r with ⟨s', fr⟩
        cases fr with
        | challenge c => simp only [ih s']
        | outcome code x => cases code <;> simp [listener_on_code]

/-! ## PLAIN, written out -/

def plainValidate' (user pass : Bytes) (resp : Option Bytes) : Code :=
  match resp with
  | none => .auth
  | some r =>
    match splitOn 0 r with
    | [_authzid, authcid, passwd] => if user = authcid ∧ pass = passwd then .ok else .auth
    | _ => .auth

theorem plainValidate_eq (user pass : Bytes) (resp : Option Bytes) : plainValidate user pass resp = plainValidate' user pass resp := by
  simp only [plainValidate, plainValidate', credentials_compared]
  cases resp with
  | none => rfl
  | some r =>
    simp only
    generalize splitOn 0 r = l
    match l with
    | [] => rfl
    | [_] => rfl
    | [_, _] => rfl
    | [_, a, p] => by_cases h : user = a ∧ pass = p <;> simp [h]
    | _ :: _ :: _ :: _ :: _ => rfl

/-! ## the client's step, written out -/

def scramCliStep' (cr : Crypto) (mech user password : Bytes) (s : CliState) (nonces : List Bytes) : SrvIn → CliStepRes
  | .eof => .done .error
  | .bad => .done .error
  | .frame (.other _) => .done .error
  | .frame (.mechanisms ms) =>
    if ms.contains mech then
      let nonce := nonces.headD []
      .cont (.firstSent nonce (clientFirst user nonce).2) nonces.tail (.init mech (some (clientFirst user nonce).1))
    else .done .error
  | .frame (.challenge c) =>
    if !validUtf8 c then .done .error else
    match s with
    | .firstSent nonce bare =>
      match clientFinal cr nonce password c bare with
      | none => .done .error
      | some (final, sig) => .cont (.finalSent sig) nonces (.response final)
    | _ => .done .error
  | .frame (.outcome code extra) =>
    match code with
    | .ok =>
      match extra, s with
      | some sf, .finalSent sig => if validServerFinal sf sig then .done .authenticated else .done .error
      | _, _ => .done .error
    | c => .done (.refused c)

theorem scramCliStep_eq (cr : Crypto) (mech user password : Bytes) (s : CliState) (nonces : List Bytes) (i : SrvIn) :
    scramCliStep cr mech user password s nonces i = scramCliStep' cr mech user password s nonces i := by
  cases i with
  | eof => rfl
  | bad => rfl
  | frame f =>
    cases f with
    | other k => cases k <;> simp [scramCliStep, scramCliStep', SrvFrame.kind, client_on_frame]
    | mechanisms ms => simp [scramCliStep, scramCliStep', SrvFrame.kind, client_on_frame]
    | challenge c =>
      simp only [scramCliStep, scramCliStep', SrvFrame.kind, client_on_frame]
      rfl
    | outcome code extra =>
      cases code with
      | ok =>
        simp only [scramCliStep, scramCliStep', SrvFrame.kind, client_on_frame, client_on_code]
        cases extra with
        | none => simp
        | some sf =>
          cases s with
          | finalSent sig => by_cases hv : validServerFinal sf sig = true <;> simp [hv]
          | initial => simp
          | firstSent a b => simp
          | complete => simp
      | auth => simp [scramCliStep, scramCliStep', SrvFrame.kind, client_on_frame, client_on_code]
      | sys => simp [scramCliStep, scramCliStep', SrvFrame.kind, client_on_frame, client_on_code]
      | sysPerm => simp [scramCliStep, scramCliStep', SrvFrame.kind, client_on_frame, client_on_code]
      | sysTemp => simp [scramCliStep, scramCliStep', SrvFrame.kind, client_on_frame, client_on_code]

def simpleClientLoop' (mech : Bytes) (resp : Option Bytes) : List SrvIn → List CliOut × CliVerdict
  | [] => ([], .error)
  | .eof :: _ => ([], .error)
  | .bad :: _ => ([], .error)
  | .frame (.other _) :: _ => ([], .error)
  | .frame (.mechanisms ms) :: rest =>
    if ms.contains mech then
      let (out, v) := simpleClientLoop' mech resp rest
      (.init mech resp :: out, v)
    else ([], .error)
  | .frame (.challenge _) :: _ => ([], .error)
  | .frame (.outcome code _) :: _ =>
    match code with
    | .ok => ([], .authenticated)
    | c => ([], .refused c)

theorem simpleClientLoop_eq (mech : Bytes) (resp : Option Bytes) : ∀ (ins : List SrvIn),
    simpleClientLoop mech resp ins = simpleClientLoop' mech resp ins := by
  intro ins
  induction ins with
  | nil => rfl
  | cons i rest ih =>
    cases i with
    | eof => rfl
    | bad => rfl
    | frame f =>
      cases f with
      | other k => cases k <;> simp [simpleClientLoop, simpleClientLoop', SrvFrame.kind, client_on_frame]
      | mechanisms ms => simp [simpleClientLoop, simpleClientLoop', SrvFrame.kind, client_on_frame, ih]
      | challenge c => simp [simpleClientLoop, simpleClientLoop', SrvFrame.kind, client_on_frame]
      | outcome code x => cases code <;> simp [simpleClientLoop, simpleClientLoop', SrvFrame.kind, client_on_frame, client_on_code]

end Amqp.Sasl
