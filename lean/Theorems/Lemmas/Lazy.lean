/-
  Helper lemmas for `Amqp.Lazy`: the byte scanner cuts off exactly the encoding of a value.
-/
import Theorems.Lemmas.Codec
import Amqp.Lazy

namespace Amqp.Lazy
open Amqp.Codec Amqp.Gen.Codes

theorem skim1_fixed (c : UInt8) (w : Nat) (body tail : Bytes) (hc : isCode c.toNat = true)
    (hcat : categoryOf c.toNat = some (0, w)) (hb : body.length = w) :
    skim1 (c :: body ++ tail) = .ok (c :: body, tail) := by
  simp only [skim1, List.cons_append, hc, hcat, Bool.not_true, Bool.false_eq_true, if_false]
  have := take?_append (w + 1) (c :: body) tail (by simp [hb])
  simpa using this

theorem skim1_sized (c : UInt8) (k w : Nat) (sb rest tail : Bytes) (hc : isCode c.toNat = true)
    (hcat : categoryOf c.toNat = some (k + 1, w)) (hs : sb.length = w) (hl : fromBe sb = rest.length) :
    skim1 (c :: sb ++ rest ++ tail) = .ok (c :: sb ++ rest, tail) := by
  simp only [skim1, List.cons_append, List.append_assoc, hc, hcat, Bool.not_true, Bool.false_eq_true, if_false]
  have h1 := take?_append (w + 1) (c :: sb) (rest ++ tail) (by simp [hs])
  simp only [List.cons_append] at h1
  rw [h1]
  simp only [List.drop_succ_cons, List.drop_zero, hl]
  have h2 := take?_append (1 + w + rest.length) (c :: sb ++ rest) tail (by simp [hs]; omega)
  simpa [List.append_assoc] using h2

theorem isCode_of (n : Nat) (h : discriminants.contains n = true) : isCode n = true := h

theorem fixed_cat (k : FixedKind) :
    isCode (b8 k.code).toNat = true ∧ categoryOf (b8 k.code).toNat = some (0, k.width) := by
  cases k <;> decide

theorem skim1_encFixed (k : FixedKind) (bs tail : Bytes) (hw : bs.length = k.width) :
    skim1 (encFixed .none k bs ++ tail) = .ok (encFixed .none k bs, tail) := by
  unfold encFixed
  simp only []
  cases hs : smallForm k bs with
  | none =>
    simp only []
    exact skim1_fixed (b8 k.code) k.width bs tail (fixed_cat k).1 (fixed_cat k).2 hw
  | some s =>
    simp only []
    unfold smallForm at hs
    split at hs
    · split at hs
      · split at hs
        · cases hs; exact skim1_fixed (b8 cUint0) 0 [] tail (by decide) (by decide) rfl
        · cases hs; exact skim1_fixed (b8 cSmallUint) 1 [_] tail (by decide) (by decide) rfl
      · cases hs
    · split at hs
      · split at hs
        · cases hs; exact skim1_fixed (b8 cUlong0) 0 [] tail (by decide) (by decide) rfl
        · cases hs; exact skim1_fixed (b8 cSmallUlong) 1 [_] tail (by decide) (by decide) rfl
      · cases hs
    · split at hs
      · cases hs; exact skim1_fixed (b8 cSmallInt) 1 [_] tail (by decide) (by decide) rfl
      · cases hs
    · split at hs
      · cases hs; exact skim1_fixed (b8 cSmallLong) 1 [_] tail (by decide) (by decide) rfl
      · cases hs
    · cases hs

theorem skim1_encBool (b : Bool) (tail : Bytes) :
    skim1 (encBool .none b ++ tail) = .ok (encBool .none b, tail) := by
  cases b
  · exact skim1_fixed (b8 cBooleanFalse) 0 [] tail (by decide) (by decide) rfl
  · exact skim1_fixed (b8 cBooleanTrue) 0 [] tail (by decide) (by decide) rfl

theorem var_cat (k : VarKind) :
    isCode (b8 k.code8).toNat = true ∧ categoryOf (b8 k.code8).toNat = some (1, 1) ∧
    isCode (b8 k.code32).toNat = true ∧ categoryOf (b8 k.code32).toNat = some (1, 4) := by
  cases k <;> decide

theorem fromBe_single (n : Nat) (h : n < 256) : fromBe [b8 n] = n := by
  simp [fromBe, b8_toNat n h]

theorem skim1_encVar (k : VarKind) (bs e tail : Bytes) (he : encVar .none k bs = some e) :
    skim1 (e ++ tail) = .ok (e, tail) := by
  unfold encVar at he
  simp only [] at he
  split at he
  · rename_i h8
    cases he
    have := skim1_sized (b8 k.code8) 0 1 [b8 bs.length] bs tail (var_cat k).1 (var_cat k).2.1 rfl
      (fromBe_single _ (by simp [U8_MAX_MINUS_1] at h8; omega))
    simpa using this
  · split at he
    · rename_i h8 h32
      cases he
      have := skim1_sized (b8 k.code32) 0 4 (be32 bs.length) bs tail (var_cat k).2.2.1 (var_cat k).2.2.2 rfl
        (fromBe_be32 _ (by simp [U32_MAX_MINUS_4] at h32; omega))
      simpa [List.append_assoc] using this
    · cases he

theorem skim1_writeList (num : Nat) (buf e tail : Bytes) (he : writeList .none num buf = some e) :
    skim1 (e ++ tail) = .ok (e, tail) := by
  unfold writeList at he
  split at he
  · cases he
    exact skim1_fixed (b8 cList0) 0 [] tail (by decide) (by decide) rfl
  · split at he
    · rename_i h0 h8
      cases he
      have := skim1_sized (b8 cList8) 1 1 [b8 (buf.length + OFFSET_LIST8)] (b8 num :: buf) tail (by decide) (by decide) rfl
        (by rw [fromBe_single _ (by simp [U8_MAX_MINUS_1, OFFSET_LIST8] at h8 ⊢; omega)]; simp [OFFSET_LIST8])
      simpa [Ctx.writesCode] using this
    · split at he
      · rename_i h0 h8 h32
        cases he
        have := skim1_sized (b8 cList32) 1 4 (be32 (buf.length + OFFSET_LIST32)) (be32 num ++ buf) tail (by decide) (by decide) rfl
          (by rw [fromBe_be32 _ (by simp [U32_MAX_MINUS_4, OFFSET_LIST32] at h32 ⊢; omega)]; simp [OFFSET_LIST32, be32_length]; omega)
        simpa [Ctx.writesCode, List.append_assoc] using this
      · cases he

theorem skim1_writeMap (num : Nat) (buf e tail : Bytes) (he : writeMap .none num buf = some e) :
    skim1 (e ++ tail) = .ok (e, tail) := by
  unfold writeMap at he
  split at he
  · rename_i h8
    cases he
    have := skim1_sized (b8 cMap8) 1 1 [b8 (buf.length + OFFSET_MAP8)] (b8 num :: buf) tail (by decide) (by decide) rfl
      (by rw [fromBe_single _ (by simp [U8_MAX_MINUS_1, OFFSET_MAP8] at h8 ⊢; omega)]; simp [OFFSET_MAP8])
    simpa [Ctx.writesCode] using this
  · split at he
    · rename_i h8 h32
      cases he
      have := skim1_sized (b8 cMap32) 1 4 (be32 (buf.length + OFFSET_MAP32)) (be32 num ++ buf) tail (by decide) (by decide) rfl
        (by rw [fromBe_be32 _ (by simp [U32_MAX_MINUS_4, OFFSET_MAP32] at h32 ⊢; omega)]; simp [OFFSET_MAP32, be32_length]; omega)
      simpa [Ctx.writesCode, List.append_assoc] using this
    · cases he

theorem skim1_writeArray (num : Nat) (buf e tail : Bytes) (he : writeArray .none num buf = some e) :
    skim1 (e ++ tail) = .ok (e, tail) := by
  unfold writeArray at he
  split at he
  · rename_i h8
    cases he
    have := skim1_sized (b8 cArray8) 2 1 [b8 (buf.length + 1)] (b8 num :: buf) tail (by decide) (by decide) rfl
      (by rw [fromBe_single _ (by simp [U8_MAX_MINUS_1] at h8 ⊢; omega)]; simp)
    simpa [Ctx.writesCode] using this
  · split at he
    · rename_i h8 h32
      cases he
      have := skim1_sized (b8 cArray32) 2 4 (be32 (buf.length + 4)) (be32 num ++ buf) tail (by decide) (by decide) rfl
        (by rw [fromBe_be32 _ (by simp [U32_MAX_MINUS_4] at h32 ⊢; omega)]; simp [be32_length]; omega)
      simpa [Ctx.writesCode, List.append_assoc] using this
    · cases he

def notDescribed : Value → Bool
  | .described _ _ => false
  | _ => true

/-- a value that is not a described value: the scanner cuts off exactly its encoding -/
theorem skim1_enc (v : Value) (hw : WF v) (hn : notDescribed v = true) (e tail : Bytes)
    (he : enc .none v = some e) : skim1 (e ++ tail) = .ok (e, tail) := by
  cases v with
  | null => simp [enc] at he; subst he; exact skim1_fixed (b8 cNull) 0 [] tail (by decide) (by decide) rfl
  | bool b => simp [enc] at he; subst he; exact skim1_encBool b tail
  | fixed k bs => simp [enc] at he; subst he; exact skim1_encFixed k bs tail hw.1
  | var k bs => simp only [enc] at he; exact skim1_encVar k bs e tail he
  | list vs =>
    simp only [enc, bind, Option.bind] at he
    cases hb : encAll vs with
    | none => simp [hb] at he
    | some buf => simp only [hb] at he; exact skim1_writeList _ buf e tail he
  | map vs =>
    simp only [enc, bind, Option.bind] at he
    cases hb : encAll vs with
    | none => simp [hb] at he
    | some buf => simp only [hb] at he; exact skim1_writeMap _ buf e tail he
  | array vs =>
    simp only [enc, bind, Option.bind] at he
    cases hb : encElems true vs with
    | none => simp [hb] at he
    | some buf => simp only [hb] at he; exact skim1_writeArray _ buf e tail he
  | described d x => simp [notDescribed] at hn

end Amqp.Lazy
