/-
  Helper lemmas for `Amqp.Message`: reading back what was written, section by section.
-/
import Theorems.Lemmas.Typed
import Amqp.Message

namespace Amqp.Message
open Amqp.Codec Amqp.Typed Amqp.Gen.Codes

/-! ### values written one after the other are read one after the other -/

theorem readAll_encAll (f : Bytes → Res (Value × Bytes)) : ∀ (ss : List Value) (e : Bytes) (fuel : Nat),
    (∀ v ∈ ss, ∀ (ev tail : Bytes), enc .none v = some ev → f (ev ++ tail) = .ok (v, tail) ∧ 1 ≤ ev.length) →
    encAll ss = some e → ss.length ≤ fuel → readAll f fuel e = .ok ss
  | [], e, fuel, _, he, _ => by
    simp [encAll] at he; subst he
    cases fuel <;> simp [readAll]
  | v :: vs, e, fuel, hf, he, hfuel => by
    rw [encAll_cons] at he
    cases hv : enc .none v with
    | none => simp [hv] at he
    | some ev =>
      cases hvs : encAll vs with
      | none => simp [hv, hvs] at he
      | some evs =>
        simp only [hv, hvs, Option.some.injEq] at he
        subst he
        obtain ⟨h1, h2⟩ := hf v (List.mem_cons_self) ev evs hv
        cases fuel with
        | zero => simp at hfuel
        | succ n =>
          have ih := readAll_encAll f vs evs n (fun w hw => hf w (List.mem_cons_of_mem _ hw)) hvs
            (by simp only [List.length_cons] at hfuel; omega)
          cases hev : ev with
          | nil => rw [hev] at h2; simp at h2
          | cons b bs =>
            rw [hev] at h1
            simp only [List.cons_append, readAll]
            have h1' : f (b :: (bs ++ evs)) = .ok (v, evs) := by simpa using h1
            rw [h1']
            simp only [ih]

/-! ### telling the sections apart -/

theorem kindOf_code (k : SKind) : kindOf (.fixed .ulong (be64 k.code)) = some k := by
  cases k <;> decide

theorem classify_append (env : List Schema) : ∀ (a b : List Value) (acc : Acc),
    classify env (a ++ b) acc = (classify env a acc).bind (classify env b)
  | [], b, acc => by simp [classify]
  | s :: ss, b, acc => by
    simp only [List.cons_append, classify]
    cases assign env acc s with
    | none => simp
    | some acc' => simp only []; exact classify_append env ss b acc'

theorem assign_map (env : List Schema) (acc : Acc) (k : SKind) (kvs : List Value) :
    assign env acc (basic k (.map kvs)) =
      (match k with
       | .deliveryAnn => some { acc with deliveryAnn := some (.map kvs) }
       | .msgAnn => some { acc with msgAnn := some (.map kvs) }
       | .appProps => some { acc with appProps := some (.map kvs) }
       | .footer => some { acc with footer := some (.map kvs) }
       | .value => some { acc with body := some (.value (.map kvs)) }
       | _ => assign env acc (basic k (.map kvs))) := by
  cases k <;> simp [assign, basic, kindOf_code, isMap]

theorem assign_value (env : List Schema) (acc : Acc) (v : Value) :
    assign env acc (basic .value v) = some { acc with body := some (.value v) } := by
  simp [assign, basic, kindOf_code]

theorem assign_data (env : List Schema) (acc : Acc) (b : Bytes) :
    assign env acc (basic .data (.var .binary b)) =
      some { acc with body := some (addData acc.body b) } := by
  simp [assign, basic, kindOf_code]

theorem assign_sequence (env : List Schema) (acc : Acc) (vs : List Value) :
    assign env acc (basic .sequence (.list vs)) =
      some { acc with body := some (addSequence acc.body vs) } := by
  simp [assign, basic, kindOf_code]

theorem classify_data (env : List Schema) : ∀ (bs : List Bytes) (acc : Acc) (l : List Bytes),
    acc.body = some (.data l) →
    classify env (bs.map (fun b => basic .data (.var .binary b))) acc = some { acc with body := some (.data (l ++ bs)) }
  | [], acc, l, h => by cases acc; simp_all [classify]
  | b :: bs, acc, l, h => by
    simp only [List.map_cons, classify, assign_data, h, addData]
    rw [classify_data env bs _ (l ++ [b]) rfl]
    simp [List.append_assoc]

theorem classify_sequence (env : List Schema) : ∀ (ls : List (List Value)) (acc : Acc) (l : List (List Value)),
    acc.body = some (.sequence l) →
    classify env (ls.map (fun x => basic .sequence (.list x))) acc = some { acc with body := some (.sequence (l ++ ls)) }
  | [], acc, l, h => by cases acc; simp_all [classify]
  | b :: bs, acc, l, h => by
    simp only [List.map_cons, classify, assign_sequence, h, addSequence]
    rw [classify_sequence env bs _ (l ++ [b]) rfl]
    simp [List.append_assoc]

end Amqp.Message
