import Amqp.Session
import Theorems.Lemmas.U32

namespace Amqp.Session
open Amqp Amqp.Gen.Session

/-- the window the peer last advertised: `[base, base+len)` in serial arithmetic -/
structure Win where
  base : Nat
  len : Nat

/-- ghost update of the advertised window -/
def winAfter (s : St) (w : Win) : Op → Win
  | .inBegin _ iw _ => ⟨s.initOid, iw⟩
  | .inFlow f => ⟨f.nif.getD s.initOid, f.iw⟩
  | _ => w

/-- well-formed (in-range) operations: every wire value is a `u32` -/
def Op.WF : Op → Prop
  | .inBegin _ _ _ => False   -- exactly one begin, at the start of the history
  | .inFlow f => (∀ n, f.nif = some n → n < 4294967296) ∧ f.iw < 4294967296 ∧
      f.noi < 4294967296 ∧ f.ow < 4294967296
  | _ => True

/-- The safety invariant: either the endpoint believes the window is closed, or
    what it believes is left of the window fits inside what the peer advertised. -/
structure SInv (s : St) (w : Win) : Prop where
  noi_lt : s.noi < 4294967296
  init_lt : s.initOid < 4294967296
  base_lt : w.base < 4294967296
  len_lt : w.len < 4294967296
  fits : s.riw = 0 ∨ sdist w.base s.noi + s.riw ≤ w.len

def transferIds : List Out → List Nat
  | [] => []
  | .transfer tid _ _ _ :: os => tid :: transferIds os
  | _ :: os => transferIds os

theorem transferIds_append (a b : List Out) :
    transferIds (a ++ b) = transferIds a ++ transferIds b := by
  induction a with
  | nil => rfl
  | cons o os ih => cases o <;> simp [transferIds, ih]

/-- one frame sent with the window believed open stays inside the advertised window -/
theorem sendInner_inv (s : St) (w : Win) (x : Xfer) (h : SInv s w) (hopen : 0 < s.riw) :
    SInv (sendInner s x).1 w ∧ transferIds [(sendInner s x).2] = [s.noi] ∧
      inWindow w.base w.len s.noi := by
  obtain ⟨h1, h2, h3, h4, h5⟩ := h
  have hfit : sdist w.base s.noi + s.riw ≤ w.len := by omega
  refine ⟨⟨?_, h2, h3, h4, ?_⟩, ?_, ?_⟩
  · simp only [sendInner, on_outgoing_transfer_inner.assign_next_outgoing_id_0]
    exact wadd32_lt _ _
  · simp only [sendInner, on_outgoing_transfer_inner.assign_next_outgoing_id_0,
      on_outgoing_transfer_inner.assign_remote_incoming_window_0, ssub32]
    have := sdist_succ w.base s.noi h3 h1 (by omega)
    omega
  · simp [sendInner, transferIds]
  · unfold inWindow; omega

theorem sendInner_fields (s : St) (x : Xfer) :
    (sendInner s x).1.initOid = s.initOid ∧ (sendInner s x).1.buf = s.buf ∧
    (sendInner s x).1.nii = s.nii ∧ (sendInner s x).1.iw = s.iw ∧ (sendInner s x).1.ow = s.ow ∧
    (sendInner s x).1.mapped = s.mapped := by
  simp [sendInner]

/-- all ids emitted by the drain loop lie in the window; the invariant is kept -/
theorem drainBuf_inv (l : List Xfer) : ∀ (s : St) (w : Win), SInv s w →
    SInv (drainBuf s l).1 w ∧ ∀ t ∈ transferIds (drainBuf s l).2, inWindow w.base w.len t := by
  induction l with
  | nil =>
    intro s w h
    refine ⟨?_, by simp [drainBuf, transferIds]⟩
    obtain ⟨h1, h2, h3, h4, h5⟩ := h
    exact ⟨h1, h2, h3, h4, h5⟩
  | cons x rest ih =>
    intro s w h
    unfold drainBuf
    by_cases hc : prepare_buffered.let_window_open_0 s.riw = true
    · have hopen : 0 < s.riw := by
        simpa [prepare_buffered.let_window_open_0] using hc
      obtain ⟨hi, hid, hw⟩ := sendInner_inv s w x h hopen
      obtain ⟨hi2, hall⟩ := ih (sendInner s x).1 w hi
      simp only [hc, if_true]
      refine ⟨hi2, ?_⟩
      intro t ht
      have : transferIds ((sendInner s x).2 :: (drainBuf (sendInner s x).1 rest).2) =
          s.noi :: transferIds (drainBuf (sendInner s x).1 rest).2 := by
        have := transferIds_append [(sendInner s x).2] (drainBuf (sendInner s x).1 rest).2
        simpa [hid] using this
      rw [this] at ht
      cases ht with
      | head => exact hw
      | tail _ h' => exact hall t h'
    · simp only [hc]
      refine ⟨?_, by simp [transferIds]⟩
      obtain ⟨h1, h2, h3, h4, h5⟩ := h
      exact ⟨h1, h2, h3, h4, h5⟩

theorem drainBuf_fields (l : List Xfer) : ∀ (s : St),
    (drainBuf s l).1.initOid = s.initOid := by
  induction l with
  | nil => intro s; simp [drainBuf]
  | cons x rest ih =>
    intro s
    unfold drainBuf
    split
    · simp [ih, sendInner]
    · simp

end Amqp.Session

namespace Amqp.Session
open Amqp Amqp.Gen.Session

theorem SInv.buf_irrel {s : St} {w : Win} (h : SInv s w) (b : List Xfer) :
    SInv { s with buf := b } w := by
  obtain ⟨h1, h2, h3, h4, h5⟩ := h
  exact ⟨h1, h2, h3, h4, h5⟩

theorem transferIds_echoOut (s : St) (f : InFlow) : transferIds (echoOut s f) = [] := by
  unfold echoOut; split <;> simp [transferIds, flowOut]

theorem onOut_closed (s : St) (x : Xfer) (c0 : on_outgoing_transfer.cond_if_0 s.riw = true) :
    onOutgoingTransfer s x = ({ s with buf := s.buf ++ [x] }, []) := by
  simp [onOutgoingTransfer, c0]

theorem onOut_direct (s : St) (x : Xfer) (c0 : ¬ on_outgoing_transfer.cond_if_0 s.riw = true)
    (c1 : on_outgoing_transfer.cond_if_1 s.buf.isEmpty = true) :
    onOutgoingTransfer s x = ((sendInner s x).1, [(sendInner s x).2]) := by
  simp [onOutgoingTransfer, c0, c1]

theorem onOut_drain_send (s : St) (x : Xfer) (c0 : ¬ on_outgoing_transfer.cond_if_0 s.riw = true)
    (c1 : ¬ on_outgoing_transfer.cond_if_1 s.buf.isEmpty = true)
    (c2 : prepare_buffered_and_current.cond_if_0 (drainBuf s s.buf).1.riw = true) :
    onOutgoingTransfer s x =
      ((sendInner (drainBuf s s.buf).1 x).1, (drainBuf s s.buf).2 ++ [(sendInner (drainBuf s s.buf).1 x).2]) := by
  simp [onOutgoingTransfer, c0, c1, c2]

theorem onOut_drain_hold (s : St) (x : Xfer) (c0 : ¬ on_outgoing_transfer.cond_if_0 s.riw = true)
    (c1 : ¬ on_outgoing_transfer.cond_if_1 s.buf.isEmpty = true)
    (c2 : ¬ prepare_buffered_and_current.cond_if_0 (drainBuf s s.buf).1.riw = true) :
    onOutgoingTransfer s x =
      ({ (drainBuf s s.buf).1 with buf := (drainBuf s s.buf).1.buf ++ [x] }, (drainBuf s s.buf).2) := by
  simp [onOutgoingTransfer, c0, c1, c2]

/-- the recomputed window fits inside what the flow advertised -/
theorem applyFlow_inv (s : St) (w : Win) (f : InFlow) (h : SInv s w) (hwf : (Op.inFlow f).WF) :
    SInv (applyFlow s f) ⟨f.nif.getD s.initOid, f.iw⟩ := by
  obtain ⟨hnif, hiw, _, _⟩ := hwf
  obtain ⟨h1, h2, h3, h4, h5⟩ := h
  cases hn : f.nif with
  | none =>
    refine ⟨h1, h2, by simpa using h2, hiw, ?_⟩
    simp only [applyFlow, hn, on_incoming_flow_inner.assign_remote_incoming_window_1, ssub32, sdist,
      Option.getD_none]
    omega
  | some n =>
    have hn' := hnif n hn
    refine ⟨h1, h2, by simpa using hn', hiw, ?_⟩
    simp only [applyFlow, hn, on_incoming_flow_inner.assign_remote_incoming_window_0, ssub32, sdist,
      Option.getD_some]
    omega

/-- every operation keeps the invariant (for the window as updated by that
    operation) and emits only transfer-ids inside that window -/
theorem step_inv (s : St) (w : Win) (op : Op) (h : SInv s w) (hwf : op.WF) :
    SInv (step s op).1 (winAfter s w op) ∧
      ∀ t ∈ transferIds (step s op).2, inWindow (winAfter s w op).base (winAfter s w op).len t := by
  cases op with
  | outXfer x =>
    simp only [step, winAfter]
    by_cases c0 : on_outgoing_transfer.cond_if_0 s.riw = true
    · rw [onOut_closed s x c0]
      exact ⟨h.buf_irrel _, by simp [transferIds]⟩
    · have hopen : 0 < s.riw := by
        simp [on_outgoing_transfer.cond_if_0] at c0; omega
      by_cases c1 : on_outgoing_transfer.cond_if_1 s.buf.isEmpty = true
      · rw [onOut_direct s x c0 c1]
        obtain ⟨hi, hid, hw⟩ := sendInner_inv s w x h hopen
        refine ⟨hi, ?_⟩
        intro t ht
        simp only [hid] at ht
        simp at ht
        exact ht ▸ hw
      · obtain ⟨hi, hall⟩ := drainBuf_inv s.buf s w h
        by_cases c2 : prepare_buffered_and_current.cond_if_0 (drainBuf s s.buf).1.riw = true
        · rw [onOut_drain_send s x c0 c1 c2]
          have hopen2 : 0 < (drainBuf s s.buf).1.riw := by
            simpa [prepare_buffered_and_current.cond_if_0] using c2
          obtain ⟨hi2, hid2, hw2⟩ := sendInner_inv _ w x hi hopen2
          refine ⟨hi2, ?_⟩
          intro t ht
          simp only [transferIds_append, hid2] at ht
          simp at ht
          cases ht with
          | inl h' => exact hall t h'
          | inr h' => exact h' ▸ hw2
        · rw [onOut_drain_hold s x c0 c1 c2]
          exact ⟨hi.buf_irrel _, hall⟩
  | inFlow f =>
    have hs2 := applyFlow_inv s w f h hwf
    simp only [step, winAfter, onIncomingFlow]
    split
    · obtain ⟨hi, hall⟩ := drainBuf_inv (applyFlow s f).buf _ _ hs2
      refine ⟨hi, ?_⟩
      intro t ht
      simp only [transferIds_append, transferIds_echoOut] at ht
      exact hall t (by simpa using ht)
    · refine ⟨hs2, ?_⟩
      intro t ht
      simp [transferIds_echoOut] at ht
  | inXfer =>
    obtain ⟨h1, h2, h3, h4, h5⟩ := h
    simp only [step, winAfter, onIncomingTransfer]
    split
    · exact ⟨⟨h1, h2, h3, h4, h5⟩, by simp [transferIds, flowOut]⟩
    · exact ⟨⟨h1, h2, h3, h4, h5⟩, by simp [transferIds]⟩
  | inBegin noi iw ow => exact absurd hwf (by simp [Op.WF])
  | outLinkFlow =>
    simp only [step, winAfter]
    exact ⟨h, by simp [transferIds, flowOut]⟩

end Amqp.Session

/-! ## FIFO: nothing lost, duplicated or reordered -/
namespace Amqp.Session
open Amqp Amqp.Gen.Session

def uids : List Out → List Nat
  | [] => []
  | .transfer _ _ _ x :: os => x.uid :: uids os
  | _ :: os => uids os

theorem uids_append (a b : List Out) : uids (a ++ b) = uids a ++ uids b := by
  induction a with
  | nil => rfl
  | cons o os ih => cases o <;> simp [uids, ih]

def bufUids (s : St) : List Nat := s.buf.map (·.uid)

def reqOf : Op → List Nat
  | .outXfer x => [x.uid]
  | _ => []

theorem uids_echoOut (s : St) (f : InFlow) : uids (echoOut s f) = [] := by
  unfold echoOut; split <;> simp [uids, flowOut]

theorem drainBuf_fifo (l : List Xfer) : ∀ s : St,
    uids (drainBuf s l).2 ++ bufUids (drainBuf s l).1 = l.map (·.uid) := by
  induction l with
  | nil => intro s; simp [drainBuf, uids, bufUids]
  | cons x rest ih =>
    intro s
    unfold drainBuf
    split
    · have := ih (sendInner s x).1
      simp only [uids_append] at *
      simp [sendInner, uids] at *
      exact this
    · simp [uids, bufUids]

/-- the drain loop stops early only when the window is (believed) closed -/
theorem drainBuf_closed (l : List Xfer) : ∀ s : St,
    (drainBuf s l).1.buf ≠ [] → (drainBuf s l).1.riw = 0 := by
  induction l with
  | nil => intro s h; simp [drainBuf] at h
  | cons x rest ih =>
    intro s
    unfold drainBuf
    split
    · exact ih (sendInner s x).1
    · rename_i hc
      intro _
      simp [prepare_buffered.let_window_open_0] at hc
      simpa using hc

theorem step_fifo (s : St) (op : Op) :
    uids (step s op).2 ++ bufUids (step s op).1 = bufUids s ++ reqOf op := by
  cases op with
  | outXfer x =>
    simp only [step, reqOf]
    by_cases c0 : on_outgoing_transfer.cond_if_0 s.riw = true
    · rw [onOut_closed s x c0]; simp [uids, bufUids]
    · by_cases c1 : on_outgoing_transfer.cond_if_1 s.buf.isEmpty = true
      · rw [onOut_direct s x c0 c1]
        have he : s.buf = [] := by
          simpa [on_outgoing_transfer.cond_if_1] using c1
        simp [uids, bufUids, sendInner, he]
      · have hd := drainBuf_fifo s.buf s
        by_cases c2 : prepare_buffered_and_current.cond_if_0 (drainBuf s s.buf).1.riw = true
        · rw [onOut_drain_send s x c0 c1 c2]
          have hz : (drainBuf s s.buf).1.riw ≠ 0 := by
            simp [prepare_buffered_and_current.cond_if_0] at c2; omega
          -- after draining with the window still open the buffer is empty
          have hb : (drainBuf s s.buf).1.buf = [] := by
            by_cases hb : (drainBuf s s.buf).1.buf = []
            · exact hb
            · exact absurd (drainBuf_closed s.buf s hb) hz
          simp only [bufUids, hb, List.map_nil, List.append_nil] at hd
          simp only [uids_append, bufUids, sendInner, uids, hb, List.map_nil, List.append_nil, hd]
        · rw [onOut_drain_hold s x c0 c1 c2]
          simp only [bufUids, List.map_append] at *
          rw [← List.append_assoc, hd]
          simp
  | inFlow f =>
    simp only [step, reqOf, onIncomingFlow]
    split
    · have hd := drainBuf_fifo (applyFlow s f).buf (applyFlow s f)
      simp only [uids_append, uids_echoOut, List.nil_append, List.append_nil]
      simpa [bufUids, applyFlow] using hd
    · simp [uids_echoOut, bufUids, applyFlow]
  | inXfer =>
    simp only [step, reqOf, onIncomingTransfer]
    split <;> simp [uids, bufUids, flowOut]
  | inBegin noi iw ow => simp [step, reqOf, uids, bufUids, onIncomingBegin]
  | outLinkFlow => simp [step, reqOf, uids, bufUids, flowOut]

end Amqp.Session

/-! ## a non-empty buffer means the window is closed; flows drain as far as the window allows -/
namespace Amqp.Session
open Amqp Amqp.Gen.Session

/-- frames are held back only while the window is believed closed -/
def Closed (s : St) : Prop := s.buf ≠ [] → s.riw = 0

theorem step_closed (s : St) (op : Op) (h : Closed s) (hwf : op.WF) : Closed (step s op).1 := by
  cases op with
  | outXfer x =>
    simp only [step]
    by_cases c0 : on_outgoing_transfer.cond_if_0 s.riw = true
    · rw [onOut_closed s x c0]
      intro _
      simpa [on_outgoing_transfer.cond_if_0] using c0
    · by_cases c1 : on_outgoing_transfer.cond_if_1 s.buf.isEmpty = true
      · rw [onOut_direct s x c0 c1]
        have he : s.buf = [] := by simpa [on_outgoing_transfer.cond_if_1] using c1
        intro hb
        simp [sendInner, he] at hb
      · by_cases c2 : prepare_buffered_and_current.cond_if_0 (drainBuf s s.buf).1.riw = true
        · rw [onOut_drain_send s x c0 c1 c2]
          have hz : (drainBuf s s.buf).1.riw ≠ 0 := by
            simp [prepare_buffered_and_current.cond_if_0] at c2; omega
          intro hb
          have : (drainBuf s s.buf).1.buf ≠ [] := by simpa [sendInner] using hb
          exact absurd (drainBuf_closed s.buf s this) hz
        · rw [onOut_drain_hold s x c0 c1 c2]
          intro _
          simp [prepare_buffered_and_current.cond_if_0] at c2
          simpa using c2
  | inFlow f =>
    simp only [step, onIncomingFlow]
    split
    · exact drainBuf_closed _ _
    · rename_i hc
      intro hb
      simp [on_incoming_flow.cond_if_0] at hc
      by_cases hz : (applyFlow s f).riw = 0
      · exact hz
      · have := hc (by omega)
        simp [this] at hb
  | inXfer =>
    simp only [step, onIncomingTransfer]
    split <;> exact h
  | inBegin noi iw ow =>
    exact absurd hwf (by simp [Op.WF])
  | outLinkFlow => exact h

/-- number of frames released by the drain loop -/
theorem drainBuf_count (l : List Xfer) : ∀ s : St,
    (transferIds (drainBuf s l).2).length = Nat.min s.riw l.length := by
  induction l with
  | nil => intro s; simp [drainBuf, transferIds]
  | cons x rest ih =>
    intro s
    unfold drainBuf
    split
    · rename_i hc
      have hpos : 0 < s.riw := by simpa [prepare_buffered.let_window_open_0] using hc
      have ih' := ih (sendInner s x).1
      have hr : (sendInner s x).1.riw = s.riw - 1 := by
        simp [sendInner, on_outgoing_transfer_inner.assign_remote_incoming_window_0, ssub32]
      show (transferIds ((sendInner s x).2 :: (drainBuf (sendInner s x).1 rest).2)).length = _
      have hcons : transferIds ((sendInner s x).2 :: (drainBuf (sendInner s x).1 rest).2) =
          s.noi :: transferIds (drainBuf (sendInner s x).1 rest).2 := by
        simp [sendInner, transferIds]
      rw [hcons, List.length_cons, ih', hr]
      simp only [Nat.min_def, List.length_cons]
      split <;> split <;> omega
    · rename_i hc
      have hz : s.riw = 0 := by
        simp [prepare_buffered.let_window_open_0] at hc; simpa using hc
      simp [transferIds, hz]

end Amqp.Session

/-! ## counters: transfer-ids are consecutive, flows report the counters as of their position -/
namespace Amqp.Session
open Amqp Amqp.Gen.Session

/-- The emitted sequence read as the peer reads it, starting from next-outgoing-id
    `start`: every transfer frame carries the next transfer-id (and, when it is the first
    frame of a delivery, that id as its delivery-id), every flow frame reports
    the id of the next transfer frame. -/
def NoiOk : Nat → List Out → Prop
  | _, [] => True
  | start, .transfer tid did _ x :: os =>
      tid = start ∧ did = (if x.hasTag then some start else none) ∧ NoiOk (wadd32 start 1) os
  | start, .flow _ _ noi _ _ :: os => noi = start ∧ NoiOk start os

/-- next-outgoing-id after the emitted sequence -/
def advNoi : Nat → List Out → Nat
  | a, [] => a
  | a, .transfer _ _ _ _ :: os => advNoi (wadd32 a 1) os
  | a, .flow _ _ _ _ _ :: os => advNoi a os

theorem NoiOk_append (xs ys : List Out) : ∀ a, NoiOk a xs → NoiOk (advNoi a xs) ys → NoiOk a (xs ++ ys) := by
  induction xs with
  | nil => intro a _ h; simpa [advNoi] using h
  | cons o os ih =>
    intro a h1 h2
    cases o with
    | transfer tid did r x =>
      obtain ⟨e1, e2, e3⟩ := h1
      exact ⟨e1, e2, ih _ e3 h2⟩
    | flow a1 a2 a3 a4 a5 =>
      obtain ⟨e1, e3⟩ := h1
      exact ⟨e1, ih _ e3 h2⟩

theorem advNoi_append (xs ys : List Out) : ∀ a, advNoi a (xs ++ ys) = advNoi (advNoi a xs) ys := by
  induction xs with
  | nil => intro a; rfl
  | cons o os ih => intro a; cases o <;> simp [advNoi, ih]

theorem drainBuf_noi (l : List Xfer) : ∀ s : St,
    NoiOk s.noi (drainBuf s l).2 ∧ (drainBuf s l).1.noi = advNoi s.noi (drainBuf s l).2 := by
  induction l with
  | nil => intro s; simp [drainBuf, NoiOk, advNoi]
  | cons x rest ih =>
    intro s
    unfold drainBuf
    split
    · obtain ⟨i1, i2⟩ := ih (sendInner s x).1
      show NoiOk s.noi ((sendInner s x).2 :: (drainBuf (sendInner s x).1 rest).2) ∧
        (drainBuf (sendInner s x).1 rest).1.noi = advNoi s.noi ((sendInner s x).2 :: (drainBuf (sendInner s x).1 rest).2)
      have hn : (sendInner s x).1.noi = wadd32 s.noi 1 := by
        simp [sendInner, on_outgoing_transfer_inner.assign_next_outgoing_id_0]
      rw [hn] at i1 i2
      refine ⟨?_, ?_⟩
      · simp only [sendInner, NoiOk, on_outgoing_transfer_inner.let_delivery_id_0, true_and]
        exact i1
      · simp only [sendInner, advNoi]
        exact i2
    · simp [NoiOk, advNoi]

theorem sendInner_noi (s : St) (x : Xfer) :
    NoiOk s.noi [(sendInner s x).2] ∧ (sendInner s x).1.noi = advNoi s.noi [(sendInner s x).2] := by
  simp [sendInner, NoiOk, advNoi, on_outgoing_transfer_inner.let_delivery_id_0,
    on_outgoing_transfer_inner.assign_next_outgoing_id_0]

theorem echoOut_noi (s : St) (f : InFlow) :
    NoiOk s.noi (echoOut s f) ∧ advNoi s.noi (echoOut s f) = s.noi := by
  unfold echoOut; split <;> simp [NoiOk, advNoi, flowOut]

theorem step_noi (s : St) (op : Op) :
    NoiOk s.noi (step s op).2 ∧ (step s op).1.noi = advNoi s.noi (step s op).2 := by
  cases op with
  | outXfer x =>
    simp only [step]
    by_cases c0 : on_outgoing_transfer.cond_if_0 s.riw = true
    · rw [onOut_closed s x c0]; simp [NoiOk, advNoi]
    · by_cases c1 : on_outgoing_transfer.cond_if_1 s.buf.isEmpty = true
      · rw [onOut_direct s x c0 c1]; exact sendInner_noi s x
      · obtain ⟨d1, d2⟩ := drainBuf_noi s.buf s
        by_cases c2 : prepare_buffered_and_current.cond_if_0 (drainBuf s s.buf).1.riw = true
        · rw [onOut_drain_send s x c0 c1 c2]
          obtain ⟨e1, e2⟩ := sendInner_noi (drainBuf s s.buf).1 x
          refine ⟨NoiOk_append _ _ _ d1 (by rw [← d2]; exact e1), ?_⟩
          rw [advNoi_append, ← d2]; exact e2
        · rw [onOut_drain_hold s x c0 c1 c2]; exact ⟨d1, d2⟩
  | inFlow f =>
    simp only [step, onIncomingFlow]
    have hn : (applyFlow s f).noi = s.noi := by simp [applyFlow]
    obtain ⟨e1, e2⟩ := echoOut_noi (applyFlow s f) f
    rw [hn] at e1 e2
    split
    · obtain ⟨d1, d2⟩ := drainBuf_noi (applyFlow s f).buf (applyFlow s f)
      rw [hn] at d1 d2
      refine ⟨NoiOk_append _ _ _ e1 (by rw [e2]; exact d1), ?_⟩
      rw [advNoi_append, e2]; exact d2
    · exact ⟨e1, by rw [e2, hn]⟩
  | inXfer =>
    simp only [step, onIncomingTransfer]
    split <;> simp [NoiOk, advNoi, flowOut]
  | inBegin noi iw ow => simp [step, NoiOk, advNoi, onIncomingBegin]
  | outLinkFlow => simp [step, NoiOk, advNoi, flowOut]

/-- specification of next-incoming-id: the peer's last stated next-outgoing-id
    advanced by one per transfer frame received since -/
def niiSpec (nii : Nat) : Op → Nat
  | .inBegin noi _ _ => noi
  | .inFlow f => f.noi
  | .inXfer => wadd32 nii 1
  | _ => nii

def flowNiis : List Out → List Nat
  | [] => []
  | .flow nii _ _ _ _ :: os => nii :: flowNiis os
  | _ :: os => flowNiis os

theorem flowNiis_append (a b : List Out) : flowNiis (a ++ b) = flowNiis a ++ flowNiis b := by
  induction a with
  | nil => rfl
  | cons o os ih => cases o <;> simp [flowNiis, ih]

theorem drainBuf_nii (l : List Xfer) : ∀ s : St,
    (drainBuf s l).1.nii = s.nii ∧ flowNiis (drainBuf s l).2 = [] := by
  induction l with
  | nil => intro s; simp [drainBuf, flowNiis]
  | cons x rest ih =>
    intro s
    unfold drainBuf
    split
    · obtain ⟨i1, i2⟩ := ih (sendInner s x).1
      show (drainBuf (sendInner s x).1 rest).1.nii = s.nii ∧
        flowNiis ((sendInner s x).2 :: (drainBuf (sendInner s x).1 rest).2) = []
      refine ⟨by rw [i1]; simp [sendInner], ?_⟩
      simp only [sendInner, flowNiis] at *
      exact i2
    · simp [flowNiis]

/-- next-incoming-id follows the specification and every flow emitted by the
    operation reports the updated value -/
theorem step_nii (s : St) (op : Op) :
    (step s op).1.nii = niiSpec s.nii op ∧ ∀ n ∈ flowNiis (step s op).2, n = niiSpec s.nii op := by
  cases op with
  | outXfer x =>
    simp only [step, niiSpec]
    by_cases c0 : on_outgoing_transfer.cond_if_0 s.riw = true
    · rw [onOut_closed s x c0]; simp [flowNiis]
    · by_cases c1 : on_outgoing_transfer.cond_if_1 s.buf.isEmpty = true
      · rw [onOut_direct s x c0 c1]; simp [sendInner, flowNiis]
      · obtain ⟨d1, d2⟩ := drainBuf_nii s.buf s
        by_cases c2 : prepare_buffered_and_current.cond_if_0 (drainBuf s s.buf).1.riw = true
        · rw [onOut_drain_send s x c0 c1 c2]
          simp [flowNiis_append, d2, sendInner, flowNiis, d1]
        · rw [onOut_drain_hold s x c0 c1 c2]
          simp [d1, d2]
  | inFlow f =>
    simp only [step, niiSpec, onIncomingFlow]
    have hn : (applyFlow s f).nii = f.noi := by
      simp [applyFlow, on_incoming_flow_inner.assign_next_incoming_id_0]
    have he : ∀ n ∈ flowNiis (echoOut (applyFlow s f) f), n = f.noi := by
      intro n hn'
      unfold echoOut at hn'
      split at hn' <;> simp [flowNiis, flowOut, hn] at hn'
      exact hn'
    split
    · obtain ⟨d1, d2⟩ := drainBuf_nii (applyFlow s f).buf (applyFlow s f)
      refine ⟨by rw [d1, hn], ?_⟩
      intro n hn'
      simp only [flowNiis_append, d2, List.append_nil] at hn'
      exact he n hn'
    · exact ⟨hn, he⟩
  | inXfer =>
    simp only [step, niiSpec, onIncomingTransfer]
    split <;> simp [flowNiis, flowOut, on_incoming_transfer.assign_next_incoming_id_0]
  | inBegin noi iw ow =>
    simp [step, niiSpec, flowNiis, onIncomingBegin, on_incoming_begin.assign_next_incoming_id_0]
  | outLinkFlow => simp [step, niiSpec, flowNiis, flowOut]

end Amqp.Session
