import Theorems.Lemmas.SettleRuns

namespace Amqp.Settle
open Amqp Amqp.Gen.Settle

/-! ### `knownIds` -/

theorem insertByOffset_perm (first id : Nat) : ∀ (l : List Nat), (insertByOffset first id l).Perm (id :: l) := by
  intro l
  induction l with
  | nil => exact List.Perm.refl _
  | cons x xs ih =>
    unfold insertByOffset
    split
    · exact List.Perm.refl _
    · exact (List.Perm.cons x ih).trans (List.Perm.swap id x xs)

theorem sortByOffset_perm (first : Nat) : ∀ (l : List Nat), (sortByOffset first l).Perm l := by
  intro l
  induction l with
  | nil => exact List.Perm.refl _
  | cons x xs ih =>
    unfold sortByOffset
    exact (insertByOffset_perm first x _).trans (List.Perm.cons x ih)

/-- the serial range `first..=last` (nothing if `last` precedes `first`) -/
def InRange (first last id : Nat) : Prop :=
  wsub32 last first < 2147483648 ∧ wsub32 id first ≤ wsub32 last first

theorem wadd32_wsub32 (first id : Nat) (hf : first < 4294967296) (hi : id < 4294967296) :
    wadd32 first (wsub32 id first) = id := by
  simp only [wsub32_spec, wadd32]; omega

theorem wsub32_wadd32 (first o : Nat) (hf : first < 4294967296) (ho : o < 4294967296) :
    wsub32 (wadd32 first o) first = o := by
  simp only [wsub32_spec, wadd32]; omega

/-- **what a disposition names**: exactly the deliveries the session has an entry for whose
    id lies in the serial range — whichever of the two branches computes it -/
theorem mem_knownIds (byId : List Entry) (first last id : Nat) (hf : first < 4294967296)
    (hlt : ∀ e ∈ byId, e.id < 4294967296) :
    id ∈ knownIds byId first last ↔ (∃ e ∈ byId, e.id = id) ∧ InRange first last id := by
  unfold knownIds InRange
  simp only [known_ids.cond_if_0, known_ids.cond_if_1, known_ids.let_span_0]
  by_cases h0 : wsub32 last first ≥ 1 * 2 ^ 31
  · have : ¬ wsub32 last first < 2147483648 := by omega
    simp [h0, this]
  · have hs : wsub32 last first < 2147483648 := by omega
    simp only [h0, decide_false, Bool.false_eq_true, if_false]
    by_cases h1 : wsub32 last first < byId.length
    · simp only [h1, decide_true, if_true, List.mem_filter, List.mem_map, List.mem_range, List.any_eq_true, beq_iff_eq]
      constructor
      · rintro ⟨⟨o, ho, rfl⟩, e, he, heq⟩
        refine ⟨⟨e, he, heq⟩, hs, ?_⟩
        rw [wsub32_wadd32 first o hf (by omega)]; omega
      · rintro ⟨⟨e, he, heq⟩, _, hr⟩
        have hi : id < 4294967296 := heq ▸ hlt e he
        exact ⟨⟨wsub32 id first, by omega, wadd32_wsub32 first id hf hi⟩, e, he, heq⟩
    · simp only [h1, decide_false, Bool.false_eq_true, if_false]
      rw [(sortByOffset_perm first _).mem_iff]
      simp only [List.mem_filter, List.mem_map, decide_eq_true_eq]
      constructor
      · rintro ⟨⟨e, he, heq⟩, hr⟩; exact ⟨⟨e, he, heq⟩, hs, of_decide_eq_true hr⟩
      · rintro ⟨⟨e, he, heq⟩, _, hr⟩; exact ⟨⟨e, he, heq⟩, decide_eq_true hr⟩

theorem knownIds_lt (byId : List Entry) (first last : Nat) (hlt : ∀ e ∈ byId, e.id < 4294967296) :
    ∀ id ∈ knownIds byId first last, id < 4294967296 := by
  intro id hid
  unfold knownIds at hid
  split at hid
  · simp at hid
  · split at hid
    · simp only [List.mem_filter, List.mem_map] at hid
      obtain ⟨⟨o, _, rfl⟩, _⟩ := hid
      exact wadd32_lt _ _
    · rw [(sortByOffset_perm first _).mem_iff] at hid
      simp only [List.mem_filter, List.mem_map] at hid
      obtain ⟨⟨e, he, rfl⟩, _⟩ := hid
      exact hlt e he

theorem nodup_map_of_injOn {α β : Type} (f : α → β) : ∀ (l : List α), l.Nodup →
    (∀ a ∈ l, ∀ b ∈ l, f a = f b → a = b) → (l.map f).Nodup := by
  intro l
  induction l with
  | nil => intro _ _; simp
  | cons x xs ih =>
    intro hn hinj
    obtain ⟨hx, hxs⟩ := List.nodup_cons.mp hn
    rw [List.map_cons, List.nodup_cons]
    refine ⟨?_, ih hxs (fun a ha b hb => hinj a (List.mem_cons_of_mem _ ha) b (List.mem_cons_of_mem _ hb))⟩
    intro hm
    obtain ⟨y, hy, hfy⟩ := List.mem_map.mp hm
    have := hinj y (List.mem_cons_of_mem _ hy) x (by simp) hfy
    exact hx (this ▸ hy)

theorem knownIds_nodup (byId : List Entry) (first last : Nat) (hf : first < 4294967296) (hn : IdsNodup byId) :
    (knownIds byId first last).Nodup := by
  unfold knownIds
  simp only [known_ids.cond_if_0, known_ids.cond_if_1, known_ids.let_span_0]
  by_cases h0 : wsub32 last first ≥ 1 * 2 ^ 31
  · simp [h0]
  · simp only [h0, decide_false, Bool.false_eq_true, if_false]
    by_cases h1 : wsub32 last first < byId.length
    · simp only [h1, decide_true, if_true]
      refine List.Nodup.sublist List.filter_sublist ?_
      have hlt := wsub32_lt last first
      apply nodup_map_of_injOn _ _ List.nodup_range
      intro a ha b hb hab
      simp only [List.mem_range] at ha hb
      have h1 := wsub32_wadd32 first a hf (by omega)
      have h2 := wsub32_wadd32 first b hf (by omega)
      rw [hab] at h1; omega
    · simp only [h1, decide_false, Bool.false_eq_true, if_false]
      rw [(sortByOffset_perm first _).nodup_iff]
      exact List.Nodup.sublist List.filter_sublist hn

theorem knownIds_length (byId : List Entry) (first last : Nat) (hb : byId.length ≤ 2147483648) :
    (knownIds byId first last).length ≤ 2147483648 := by
  unfold knownIds
  simp only [known_ids.cond_if_0, known_ids.cond_if_1, known_ids.let_span_0]
  by_cases h0 : wsub32 last first ≥ 1 * 2 ^ 31
  · simp [h0]
  · simp only [h0, decide_false, Bool.false_eq_true, if_false]
    by_cases h1 : wsub32 last first < byId.length
    · simp only [h1, decide_true, if_true]
      refine Nat.le_trans (List.length_filter_le _ _) ?_
      simp; omega
    · simp only [h1, decide_false, Bool.false_eq_true, if_false]
      rw [(sortByOffset_perm first _).length_eq]
      refine Nat.le_trans (List.length_filter_le _ _) ?_
      simpa using hb

end Amqp.Settle

namespace Amqp.Settle

theorem settleIds_idsNodup (st : DS) : ∀ (ids : List Nat) (s : St), IdsNodup s.byId →
    IdsNodup (settleIds st ids s).1.byId := by
  intro ids
  induction ids with
  | nil => intro s h; simpa [settleIds_nil] using h
  | cons id ids ih =>
    intro s hn
    cases h : lookup s.byId id with
    | none => rw [settleIds_cons_none st id ids s h]; exact ih s hn
    | some e =>
      cases hh : s.unsettled.contains (e.link, e.tag) with
      | true => rw [settleIds_cons_held st id ids s e h hh]; exact ih _ (idsNodup_removeId _ _ hn)
      | false => rw [settleIds_cons_unheld st id ids s e h hh]; exact ih _ (idsNodup_removeId _ _ hn)

theorem updateIds_idsNodup (st : DS) : ∀ (ids : List Nat) (s : St) (runs : List (Nat × Nat)), IdsNodup s.byId →
    IdsNodup (updateIds st ids s runs).1.byId := by
  intro ids
  induction ids with
  | nil => intro s runs h; simpa [updateIds_nil] using h
  | cons id ids ih =>
    intro s runs hn
    cases h : lookup s.byId id with
    | none => rw [updateIds_cons_none st id ids s runs h]; exact ih s runs hn
    | some e =>
      rw [updateIds_cons_some st id ids s runs e h]
      apply ih
      rw [updOne_byId]
      split
      · exact idsNodup_removeId _ _ hn
      · exact hn

end Amqp.Settle
