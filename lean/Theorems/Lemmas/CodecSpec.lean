/-
  Bridging facts between the specification's literal constructors (`Amqp.CodecSpec`) and the
  constants generated from the implementation (`Amqp.Gen.Codes`), and the decoder's acceptance of
  each scalar encoding the specification permits.
-/
import Amqp.CodecSpec
import Theorems.Lemmas.Codec

namespace Amqp.CodecSpec
open Amqp.Codec Amqp.Gen.Codes

theorem be32_eq (n : Nat) : CodecSpec.be32 n = Codec.be32 n := rfl

theorem width_eq (k : FixedKind) : width k = k.width := by cases k <;> rfl

/-- the specification's constructor of each fixed-width primitive is the one the implementation uses -/
theorem fullCode_eq (k : FixedKind) : fullCode k = b8 k.code := by cases k <;> decide

theorem code8_eq (k : VarKind) : code8 k = b8 k.code8 := by cases k <;> decide
theorem code32_eq (k : VarKind) : code32 k = b8 k.code32 := by cases k <;> decide

theorem sx_eq (b : UInt8) : sx b = ext b := rfl

/-! ## scalars: every permitted form is accepted -/

theorem dec_bool (fuel depth zw form : Nat) (b : Bool) (e tail : Bytes) (h : sBool form b = some e) :
    dec (fuel + 1) depth ⟨e ++ tail, none, zw⟩ = .ok (.bool b, ⟨tail, none, zw⟩) := by
  unfold sBool at h
  split at h
  · simp at h; subst h
    have := dec_encBool fuel depth zw b tail
    cases b <;> simpa [encBool, b8, cBooleanTrue, cBooleanFalse] using this
  · simp at h; subst h
    have := dec_scalar fuel depth cBoolean ((if b then (1 : UInt8) else 0) :: tail) zw (.bool b) tail
      (by decide) (by decide) (by decide) (decScalar_boolean b tail)
    simpa [b8, cBoolean] using this
  · simp at h

theorem dec_fixed (fuel depth zw form : Nat) (k : FixedKind) (bs e tail : Bytes) (h : sFixed form k bs = some e)
    (hch : k = .char → validChar bs = true) :
    dec (fuel + 1) depth ⟨e ++ tail, none, zw⟩ = .ok (.fixed k bs, ⟨tail, none, zw⟩) := by
  unfold sFixed at h
  split at h
  · simp at h
  · rename_i hlen
    have hw : bs.length = k.width := by rw [← width_eq]; simpa using hlen
    split at h
    · -- full width
      simp at h; subst h
      obtain ⟨c1, c2, c3⟩ := fixed_codes k
      rw [fullCode_eq]
      simp only [List.cons_append]
      exact dec_scalar fuel depth k.code _ zw _ tail c1 c2 c3 (decScalar_fixed k bs tail hw hch)
    · -- one byte
      split at h
      · rename_i d
        simp at h; subst h
        exact dec_scalar fuel depth cSmallUint (d :: tail) zw _ tail (by decide) (by decide) (by decide) (by
          simp [decScalar, cSmallUint, cUint0, cUlong0, cNull, cBooleanTrue, cBooleanFalse, cBoolean,
            next?, bind, Except.bind, pure, Except.pure])
      · rename_i d
        simp at h; subst h
        exact dec_scalar fuel depth cSmallUlong (d :: tail) zw _ tail (by decide) (by decide) (by decide) (by
          simp [decScalar, cSmallUlong, cSmallUint, cUint0, cUlong0, cNull, cBooleanTrue, cBooleanFalse, cBoolean,
            next?, bind, Except.bind, pure, Except.pure])
      · rename_i a b c d
        split at h
        · rename_i hz
          obtain ⟨h1, h2, h3⟩ := hz
          subst h1 h2 h3
          simp at h; subst h
          exact dec_scalar fuel depth cSmallInt (d :: tail) zw _ tail (by decide) (by decide) (by decide) (by
            simp [decScalar, cSmallInt, cSmallUlong, cSmallUint, cUint0, cUlong0, cNull, cBooleanTrue,
              cBooleanFalse, cBoolean, next?, bind, Except.bind, pure, Except.pure, sx_eq])
        · simp at h
      · rename_i a b c d e' f g hh
        split at h
        · rename_i hz
          obtain ⟨h1, h2, h3, h4, h5, h6, h7⟩ := hz
          subst h1 h2 h3 h4 h5 h6 h7
          simp at h; subst h
          exact dec_scalar fuel depth cSmallLong (hh :: tail) zw _ tail (by decide) (by decide) (by decide) (by
            simp [decScalar, cSmallLong, cSmallInt, cSmallUlong, cSmallUint, cUint0, cUlong0, cNull, cBooleanTrue,
              cBooleanFalse, cBoolean, next?, bind, Except.bind, pure, Except.pure, sx_eq])
        · simp at h
      · simp at h
    · -- zero width
      split at h
      · simp at h; subst h
        exact dec_scalar fuel depth cUint0 tail zw _ tail (by decide) (by decide) (by decide) (by
          simp [decScalar, cUint0, cNull, cBooleanTrue, cBooleanFalse, cBoolean])
      · simp at h; subst h
        exact dec_scalar fuel depth cUlong0 tail zw _ tail (by decide) (by decide) (by decide) (by
          simp [decScalar, cUlong0, cUint0, cNull, cBooleanTrue, cBooleanFalse, cBoolean])
      · simp at h
    · simp at h

theorem dec_var (fuel depth zw : Nat) (wide : Bool) (k : VarKind) (bs e tail : Bytes) (h : sVar wide k bs = some e)
    (hu : k ≠ .binary → validUtf8 bs = true) :
    dec (fuel + 1) depth ⟨e ++ tail, none, zw⟩ = .ok (.var k bs, ⟨tail, none, zw⟩) := by
  obtain ⟨a1, a2, a3, b1, b2, b3⟩ := var_codes k
  unfold sVar at h
  cases wide with
  | true =>
    simp only [if_true] at h
    split at h
    · rename_i hl
      simp at h; subst h
      rw [code32_eq, be32_eq]
      simp only [List.cons_append, List.append_assoc]
      have := decScalar_var32 k (Codec.be32 bs.length) bs tail rfl (fromBe_be32 _ hl) hu
      simp only [List.append_assoc] at this
      exact dec_scalar fuel depth k.code32 _ zw _ tail b1 b2 b3 this
    · simp at h
  | false =>
    simp only [Bool.false_eq_true, if_false] at h
    split at h
    · rename_i hl
      simp at h; subst h
      rw [code8_eq]
      simp only [List.cons_append]
      exact dec_scalar fuel depth k.code8 _ zw _ tail a1 a2 a3 (decScalar_var8 k bs tail hl hu)
    · simp at h

end Amqp.CodecSpec
